"""known-findings.txt reader.  The file is committed and never written at run time.

  known: property=C12 id=KF-C12-... :: what fails (mechanism + witness)
  fixed: property=C04 <commit> what failed

Only `known:` lines suppress anything, and only for a violating case that the check's own recogniser
(keyed by mechanism: input predicate + outcome predicted by a defect model) maps to that id.
"""
import os
import re

from . import env

_PATH = os.path.join(env.VERIF, 'known-findings.txt')
_LINE = re.compile(r'^known:\s+property=(C\d+)\s+id=(\S+)\s+::\s+(.*)$')


def load():
    out = {}
    if not os.path.exists(_PATH):
        return out
    with open(_PATH, encoding='utf-8') as f:
        for line in f:
            m = _LINE.match(line.strip())
            if m:
                out.setdefault(m.group(1), {})[m.group(2)] = m.group(3)
    return out


_CACHE = None


def known_ids(prop):
    global _CACHE
    if _CACHE is None:
        _CACHE = load()
    return _CACHE.get(prop, {})


def report(r, prop, tag, case, observed=None, expected=None, monitor='oracle', detail=None):
    """A violating case was seen. `tag` is the recogniser's mechanism id (or None).
    Downgrade to a known finding only if that id is listed; otherwise it is a violation."""
    if tag and tag in known_ids(prop):
        r.known_finding(tag, case, observed, expected)
    else:
        r.violation(monitor, case, observed, expected, detail if detail is not None else ({'unlisted_tag': tag} if tag else None))
