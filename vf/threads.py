"""Evaluation-side concurrency workloads (runtime monitoring of schedules, not enumeration).

Several threads query cells of one loaded class at the same time - each thread through an Executor of its own on the same class
object, or all of them through ONE Executor - with a tiny interpreter switch interval, and every observed value is compared with
the value the same query gave single-threaded before.  The evidence records how much really overlapped: every query is stamped with
its start and end (one monotonic clock), and the number of query pairs of different threads whose intervals intersect is reported;
a run in which nothing overlapped is inconclusive for the schedule clause, not held."""
import sys
import threading
import time

from . import pipeline


def concurrent_queries(cls, cells, *, threads=4, rounds=300, shared_executor=False, overrides=None, seed=0):
    """cells: [(sheet_idx, row, col)] 1-based.  -> dict(baseline, mismatches=[(thread, cell, got, want)], queries, overlapping_pairs)"""
    import random

    def make():
        ex = pipeline.Executor().set_executed_class(class_object=cls)
        if overrides:
            ex.set_cells([pipeline.ncell(s, r_, c_, v) for (s, r_, c_, v) in overrides])
        return ex

    def ask(ex, cell):
        try:
            v = ex.get_cell(pipeline.ncell(*cell)).value
            return ('V', type(v).__name__, repr(v))
        except RecursionError:
            return ('E', 'RecursionError', '')
        except BaseException as e:  # noqa: B902 - every failure is an observation
            return ('E', type(e).__name__, str(e)[:80])

    base_ex = make()
    baseline = {c: ask(base_ex, c) for c in cells}
    one = make() if shared_executor else None
    stamps = [[] for _ in range(threads)]
    mism = []
    lock = threading.Lock()
    barrier = threading.Barrier(threads)

    def work(i):
        rng = random.Random(seed * 1009 + i)
        ex = one if shared_executor else make()
        barrier.wait()
        for _ in range(rounds):
            c = rng.choice(cells)
            t0 = time.perf_counter_ns()
            got = ask(ex, c)
            t1 = time.perf_counter_ns()
            stamps[i].append((t0, t1))
            if got != baseline[c]:
                with lock:
                    if len(mism) < 50:
                        mism.append((i, c, got, baseline[c]))

    old = sys.getswitchinterval()
    sys.setswitchinterval(1e-6)
    try:
        ths = [threading.Thread(target=work, args=(i,)) for i in range(threads)]
        for t in ths:
            t.start()
        for t in ths:
            t.join(600)
        alive = any(t.is_alive() for t in ths)
    finally:
        sys.setswitchinterval(old)
    # overlapping query pairs between different threads (sweep over sorted intervals)
    events = []
    for i, st in enumerate(stamps):
        for (a, b) in st:
            events.append((a, 1, i))
            events.append((b, -1, i))
    events.sort()
    open_by_thread = [0] * threads
    overlaps = 0
    for (_, kind, i) in events:
        if kind == 1:
            overlaps += sum(1 for j, n in enumerate(open_by_thread) if j != i and n)
            open_by_thread[i] += 1
        else:
            open_by_thread[i] -= 1
    return {'baseline': baseline, 'mismatches': mism, 'queries': sum(len(s) for s in stamps), 'overlapping_pairs': overlaps, 'unfinished': alive}
