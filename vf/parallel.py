"""Shard runner: one fresh interpreter per shard (subprocess.run with timeout), <= VERIF_JOBS at a time.
Never multiprocessing.Pool (hangs when a child dies)."""
import json
import os
import subprocess
import sys
import threading
import time
from concurrent.futures import ThreadPoolExecutor

from . import env


def run_worker(check_id, shard_index, shard, tier, seed, workroot, timeout, extra_env=None):
    wd = os.path.join(workroot, f'shard{shard_index}')
    os.makedirs(wd, exist_ok=True)
    fin, fout = os.path.join(wd, 'in.json'), os.path.join(wd, 'out.json')
    with open(fin, 'w') as f:
        json.dump({'check': check_id, 'shard': shard, 'shard_index': shard_index, 'tier': tier, 'seed': seed,
                   'workdir': wd}, f)
    e = dict(os.environ)
    e.setdefault('PYTHONHASHSEED', '0')
    if extra_env:
        e.update({k: str(v) for k, v in extra_env.items()})
    e['PYTHONPATH'] = os.pathsep.join([env.VERIF, env.DEPS, env.REPO])
    e['PYTHONDONTWRITEBYTECODE'] = '1'
    if extra_env and extra_env.get('VERIF_WRITE_BYTECODE'):
        # the way most programs run: Python writes bytecode files (kept out of the source trees, under the shard's work directory)
        e.pop('PYTHONDONTWRITEBYTECODE')
        e['PYTHONPYCACHEPREFIX'] = os.path.join(wd, 'pycache')
    t0 = time.time()
    try:
        p = subprocess.run([env.PY, '-W', 'ignore::SyntaxWarning', '-X', 'faulthandler', '-m', 'vf.worker', fin, fout],
                           env=e, cwd=env.VERIF, timeout=timeout, stdout=subprocess.PIPE, stderr=subprocess.PIPE)
    except subprocess.TimeoutExpired:
        return {'status': 'timeout', 'wall': time.time() - t0, 'shard_index': shard_index}
    if p.returncode != 0 or not os.path.exists(fout):
        return {'status': 'crash', 'rc': p.returncode, 'stderr': p.stderr.decode(errors='replace')[-1500:],
                'wall': time.time() - t0, 'shard_index': shard_index}
    with open(fout) as f:
        d = json.load(f)
    return {'status': 'ok', 'result': d, 'wall': time.time() - t0, 'shard_index': shard_index,
            'stderr': p.stderr.decode(errors='replace')[-400:]}


def run_all(check_id, shards, tier, seed, workroot, timeout):
    """shards: list of JSON-able specs; a spec may carry '_env': {...} for per-shard environment
    (PYTHONHASHSEED, TZ)."""
    out = [None] * len(shards)

    def job(i):
        sh = shards[i]
        out[i] = run_worker(check_id, i, sh, tier, seed, workroot, timeout,
                            extra_env=sh.get('_env') if isinstance(sh, dict) else None)

    with ThreadPoolExecutor(max_workers=env.jobs()) as ex:
        list(ex.map(job, range(len(shards))))
    return out
