"""Shard worker process:  python -m vf.worker in.json out.json"""
import faulthandler
import importlib
import json
import random
import shutil
import sys
import time

from . import env
from .result import Result


class Ctx:
    def __init__(self, d):
        self.check = d['check']
        self.tier = d['tier']
        self.seed = d['seed']
        self.shard_index = d['shard_index']
        self.workdir = d['workdir']
        self.rng = random.Random(self.seed * 1000003 + self.shard_index)
        self.r = Result()


def main():
    fin, fout = sys.argv[1], sys.argv[2]
    with open(fin) as f:
        d = json.load(f)
    faulthandler.enable()
    reason = env.check_repo_import()
    ctx = Ctx(d)
    t0 = time.time()
    if reason:
        ctx.r.inconcl(reason)
    else:
        mod = importlib.import_module(f'vf.checks.{d["check"].lower()}')
        mod.run_shard(d['shard'], ctx)
    out = ctx.r.to_json()
    out['wall'] = time.time() - t0
    with open(fout, 'w') as f:
        json.dump(out, f)
    # leave only in/out json behind
    import os
    for n in os.listdir(ctx.workdir):
        p = os.path.join(ctx.workdir, n)
        if n not in ('in.json', 'out.json'):
            shutil.rmtree(p, ignore_errors=True) if os.path.isdir(p) else os.remove(p)


if __name__ == '__main__':
    main()
