"""L2 - translation-time monitors, applied by wrapping attributes of the imported library (no source hooks).

* lexer conservation  : the pieces consumed by the accepted tokens, separated only by whitespace, are the formula text
* parser conservation : code is emitted for a formula only if EntryPointToken.get returned a token and an empty rest
* grammar reach / step counter : CompositeBaseToken.get calls, classes that matched
* translation stack   : depth and repeated uid in CellTranslator._set_cell_to_context (cycle being followed)
"""
import functools

from .. import env

env.setup()

from excel2pycl.src.tokens.regexp_base_token import RegexpBaseToken  # noqa: E402
from excel2pycl.src.tokens.composite_base_token import CompositeBaseToken  # noqa: E402
from excel2pycl.src import lexer as _lexer_mod  # noqa: E402
from excel2pycl.src.context import Context  # noqa: E402
from excel2pycl.src.translators.cell_translator import CellTranslator  # noqa: E402


_NUMBER = __import__('re').compile(r'\d+(\.\d+)?([eE][+-]?\d+)?')


class TranslateMonitor:
    _installed = None

    def __init__(self, r):
        self.r = r
        self.events = []            # conservation violations (dicts)
        self._lex = None            # current lexer session: list of pieces
        self._pending = {}          # id(cell) -> (token_none, rest, n_tokens)
        self.stack = []
        self.max_depth = 0
        self.cycle_seen = 0
        self.composite_calls = 0
        self.cells_set = 0
        self._sessions = []         # open formula translations: {'id': id(cell), 'tokens': [...], 'codes': [...]}

    @classmethod
    def install(cls, r):
        """idempotent per process; re-targets the counters to r"""
        if cls._installed is not None:
            cls._installed.r = r
            return cls._installed
        mon = cls(r)
        cls._installed = mon
        mon._wrap_regexp_get()
        mon._wrap_lexer()
        mon._wrap_composite_get()
        mon._wrap_set_cell()
        mon._wrap_set_sub_cell()
        mon._wrap_set_cell_to_context()
        return mon

    # -- lexer ------------------------------------------------------------------------------------
    def _wrap_regexp_get(self):
        mon = self
        orig = RegexpBaseToken.__dict__['get'].__func__

        def get(cls, expression, in_cell):
            tok, rest = orig(cls, expression, in_cell)
            if tok is not None and mon._lex is not None and cls.__name__ != 'WhitespaceToken':
                # whitespace at the very end of the formula may be dropped on the way ('$' also matches before a final line break): it
                # is whitespace, not a part of the formula - the remainder has to be a suffix up to that
                if isinstance(rest, str) and expression.rstrip().endswith(rest.rstrip()):
                    piece = expression[:len(expression.rstrip()) - len(rest.rstrip())]
                    mon._lex.append(piece)
                    if cls.__name__ == 'LiteralToken' and piece[:1].isdigit() and not _NUMBER.fullmatch(piece):
                        # a numeric literal is digits[.digits][e[sign]digits]: a piece like "2e" or "1.5e+" swallowed a character
                        # that is not part of any number (it vanishes from the formula without breaking the piece count)
                        mon.r.counters['numeric_literal_shape_broken'] += 1
                        mon.events.append({'type': 'literal-shape', 'text': expression, 'piece': piece})
                else:
                    mon._lex.append(None)
            return tok, rest
        RegexpBaseToken.get = classmethod(get)

    def _wrap_lexer(self):
        mon = self
        Lexer = _lexer_mod.Lexer
        orig = Lexer.__dict__['parse'].__func__

        def parse(cls, expression, in_cell):
            mon._lex = []
            try:
                toks = orig(cls, expression, in_cell)
                pieces = mon._lex
            finally:
                mon._lex = None
            mon.r.counters['lexer_sessions'] += 1
            mon._sessions.append({'id': id(in_cell), 'tokens': list(toks), 'codes': []})
            del mon._sessions[:-64]
            ok = len(pieces) == len(toks) and None not in pieces
            if ok:
                rest = expression
                for p in pieces:
                    rest = rest.lstrip()
                    if not rest.startswith(p):
                        ok = False
                        break
                    rest = rest[len(p):]
                ok = ok and rest.strip() == ''
            if not ok:
                mon.r.counters['lexer_conservation_broken'] += 1
                mon.events.append({'type': 'lexer', 'text': expression, 'pieces': pieces})
            return toks
        Lexer.parse = classmethod(parse)

    # -- parser -----------------------------------------------------------------------------------
    def _wrap_composite_get(self):
        mon = self
        orig = CompositeBaseToken.__dict__['get'].__func__

        def get(cls, expression, in_cell):
            mon.composite_calls += 1
            res = orig(cls, expression, in_cell)
            tok, rest = res
            if tok is not None:
                mon.r.sets.setdefault('grammar_classes_matched', set()).add(cls.__name__)
            if cls.__name__ == 'EntryPointToken':
                mon.r.counters['entrypoint_parses'] += 1
                mon._pending[id(in_cell)] = (tok is None, list(rest) if rest else [], len(expression), in_cell)
            return res
        CompositeBaseToken.get = classmethod(get)

    def _wrap_set_cell(self):
        mon = self
        orig = Context.set_cell

        @functools.wraps(orig)
        def set_cell(ctx, cell, code):
            mon.cells_set += 1
            p = mon._pending.pop(id(cell), None)
            if p is not None and (p[0] or p[1]):
                mon.r.counters['parser_conservation_broken'] += 1
                mon.events.append({'type': 'parser', 'text': getattr(cell, 'value', None), 'token_none': p[0],
                                   'unconsumed': [repr(t)[:60] for t in p[1][:6]], 'code': str(code)[:120]})
            elif p is not None:
                mon.r.counters['parser_conservation_ok'] += 1
            mon._operand_conservation(cell, code)
            return orig(ctx, cell, code)
        Context.set_cell = set_cell

    def _operand_conservation(self, cell, code):
        """every reference token the lexer produced for this formula was resolved by the translator, and every literal
        token left its code in what was emitted (cell code + sub-cell codes of the session) - otherwise a part of the
        formula was dropped on the way from tokens to code"""
        sess = None
        for i in range(len(self._sessions) - 1, -1, -1):
            if self._sessions[i]['id'] == id(cell):
                sess = self._sessions.pop(i)
                break
        if sess is None:
            return
        emitted = str(code) + '\n' + '\n'.join(sess['codes'])
        dropped = []
        for tok in sess['tokens']:
            cn = tok.__class__.__name__
            d = getattr(tok, '__dict__', {})
            if cn == 'CellIdentifierToken':
                if '_cell' not in d:
                    self.r.sets.setdefault('unreached_state', set()).add('CellIdentifierToken._cell')
                    continue
                c = d['_cell']
                if c is None or not c.has_handled_identifiers():
                    dropped.append('ref:' + str(tok.value[0])[:30])
            elif cn == 'MatrixOfCellIdentifiersToken':
                if '_matrix' not in d:
                    self.r.sets.setdefault('unreached_state', set()).add('MatrixOfCellIdentifiersToken._matrix')
                    continue
                m = d['_matrix']
                if not m or m[0] is None or not m[0].has_handled_identifiers():
                    dropped.append('area:' + str(tok.value[0])[:30])
            elif cn == 'LiteralToken':
                v = str(tok.value)
                if v and v not in emitted:
                    dropped.append('literal:' + v[:30])
            elif cn == 'PatternToken':
                v = repr(str(tok.value[0])[1:-1]) if tok.value else ''
                if v and v not in emitted:
                    dropped.append('pattern:' + v[:30])
        self.r.counters['operand_conservation_checked'] += 1
        if dropped and 'TEXT(' in str(getattr(cell, 'value', '')).replace(' ', '').replace('\t', '').replace('\n', ''):
            # TEXT(value, format) is a stub that returns its value: the whole format ARGUMENT is ignored by design (not a C05 matter)
            self.r.counters['operand_conservation_text_format_exempt'] += 1
            dropped = []
        if dropped:
            self.r.counters['operand_conservation_broken'] += 1
            self.events.append({'type': 'operand', 'text': getattr(cell, 'value', None), 'dropped': dropped[:6], 'code': str(code)[:160]})

    def _wrap_set_sub_cell(self):
        mon = self
        orig = Context.set_sub_cell

        @functools.wraps(orig)
        def set_sub_cell(ctx, cell, code):
            for sess in mon._sessions:
                if len(sess['codes']) < 4000:
                    sess['codes'].append(str(code))
            return orig(ctx, cell, code)
        Context.set_sub_cell = set_sub_cell

    def _wrap_set_cell_to_context(self):
        mon = self
        orig = CellTranslator.__dict__['_set_cell_to_context'].__func__

        def _set(cls, cell, excel, context):
            key = None
            try:
                key = (cell.title, cell.column, cell.row)
            except Exception:
                pass
            if key in mon.stack:
                mon.cycle_seen += 1
            mon.stack.append(key)
            mon.max_depth = max(mon.max_depth, len(mon.stack))
            try:
                return orig(cls, cell, excel, context)
            finally:
                mon.stack.pop()
        CellTranslator._set_cell_to_context = classmethod(_set)

    def drain(self):
        ev, self.events = self.events, []
        self._pending.clear()
        return ev
