"""L2 - translation-time monitors, applied by wrapping attributes of the imported library (no source hooks).

* lexer conservation  : the pieces consumed by the accepted tokens, separated only by whitespace, are the formula text
* parser conservation : code is emitted for a formula only if EntryPointToken.get returned a token and an empty rest
* grammar reach / step counter : CompositeBaseToken.get calls, classes that matched
* translation stack   : depth and repeated uid in CellTranslator._set_cell_to_context (cycle being followed)
"""
import functools

from .. import env

env.setup()

from excel2pycl.src.tokens.regexp_base_token import RegexpBaseToken  # noqa: E402
from excel2pycl.src.tokens.composite_base_token import CompositeBaseToken  # noqa: E402
from excel2pycl.src import lexer as _lexer_mod  # noqa: E402
from excel2pycl.src.context import Context  # noqa: E402
from excel2pycl.src.translators.cell_translator import CellTranslator  # noqa: E402


class TranslateMonitor:
    _installed = None

    def __init__(self, r):
        self.r = r
        self.events = []            # conservation violations (dicts)
        self._lex = None            # current lexer session: list of pieces
        self._pending = {}          # id(cell) -> (token_none, rest, n_tokens)
        self.stack = []
        self.max_depth = 0
        self.cycle_seen = 0
        self.composite_calls = 0
        self.cells_set = 0

    @classmethod
    def install(cls, r):
        """idempotent per process; re-targets the counters to r"""
        if cls._installed is not None:
            cls._installed.r = r
            return cls._installed
        mon = cls(r)
        cls._installed = mon
        mon._wrap_regexp_get()
        mon._wrap_lexer()
        mon._wrap_composite_get()
        mon._wrap_set_cell()
        mon._wrap_set_cell_to_context()
        return mon

    # -- lexer ------------------------------------------------------------------------------------
    def _wrap_regexp_get(self):
        mon = self
        orig = RegexpBaseToken.__dict__['get'].__func__

        def get(cls, expression, in_cell):
            tok, rest = orig(cls, expression, in_cell)
            if tok is not None and mon._lex is not None and cls.__name__ != 'WhitespaceToken':
                if isinstance(rest, str) and expression.endswith(rest):
                    mon._lex.append(expression[:len(expression) - len(rest)])
                else:
                    mon._lex.append(None)
            return tok, rest
        RegexpBaseToken.get = classmethod(get)

    def _wrap_lexer(self):
        mon = self
        Lexer = _lexer_mod.Lexer
        orig = Lexer.__dict__['parse'].__func__

        def parse(cls, expression, in_cell):
            mon._lex = []
            try:
                toks = orig(cls, expression, in_cell)
                pieces = mon._lex
            finally:
                mon._lex = None
            mon.r.counters['lexer_sessions'] += 1
            ok = len(pieces) == len(toks) and None not in pieces
            if ok:
                rest = expression
                for p in pieces:
                    rest = rest.lstrip()
                    if not rest.startswith(p):
                        ok = False
                        break
                    rest = rest[len(p):]
                ok = ok and rest.strip() == ''
            if not ok:
                mon.r.counters['lexer_conservation_broken'] += 1
                mon.events.append({'type': 'lexer', 'text': expression, 'pieces': pieces})
            return toks
        Lexer.parse = classmethod(parse)

    # -- parser -----------------------------------------------------------------------------------
    def _wrap_composite_get(self):
        mon = self
        orig = CompositeBaseToken.__dict__['get'].__func__

        def get(cls, expression, in_cell):
            mon.composite_calls += 1
            res = orig(cls, expression, in_cell)
            tok, rest = res
            if tok is not None:
                mon.r.sets.setdefault('grammar_classes_matched', set()).add(cls.__name__)
            if cls.__name__ == 'EntryPointToken':
                mon.r.counters['entrypoint_parses'] += 1
                mon._pending[id(in_cell)] = (tok is None, list(rest) if rest else [], len(expression), in_cell)
            return res
        CompositeBaseToken.get = classmethod(get)

    def _wrap_set_cell(self):
        mon = self
        orig = Context.set_cell

        @functools.wraps(orig)
        def set_cell(ctx, cell, code):
            mon.cells_set += 1
            p = mon._pending.pop(id(cell), None)
            if p is not None and (p[0] or p[1]):
                mon.r.counters['parser_conservation_broken'] += 1
                mon.events.append({'type': 'parser', 'text': getattr(cell, 'value', None), 'token_none': p[0],
                                   'unconsumed': [repr(t)[:60] for t in p[1][:6]], 'code': str(code)[:120]})
            elif p is not None:
                mon.r.counters['parser_conservation_ok'] += 1
            return orig(ctx, cell, code)
        Context.set_cell = set_cell

    def _wrap_set_cell_to_context(self):
        mon = self
        orig = CellTranslator.__dict__['_set_cell_to_context'].__func__

        def _set(cls, cell, excel, context):
            key = None
            try:
                key = (cell.title, cell.column, cell.row)
            except Exception:
                pass
            if key in mon.stack:
                mon.cycle_seen += 1
            mon.stack.append(key)
            mon.max_depth = max(mon.max_depth, len(mon.stack))
            try:
                return orig(cls, cell, excel, context)
            finally:
                mon.stack.pop()
        CellTranslator._set_cell_to_context = classmethod(_set)

    def drain(self):
        ev, self.events = self.events, []
        self._pending.clear()
        return ev
