"""L0 - call/return recorder and icontract contracts on the public facade (Parser, Executor).

Contracts are record-only: a condition notes a disagreement in the shard result and returns True, so an observed
execution is never aborted by its observer.  Every contract counts its evaluations (zero => the check must not claim it).
Private attributes are looked up softly: absent => 'unreached', never a violation."""
import copy
import itertools

import icontract

from .. import env

env.setup()

from excel2pycl import Parser, Executor  # noqa: E402

_state = {'r': None, 'installed': False, 'events': [], 'seq': itertools.count(), 'disagreements': []}


def events():
    return _state['events']


def disagreements():
    return _state['disagreements']


def reset():
    _state['events'] = []
    _state['disagreements'] = []


def _r():
    return _state['r']


def _note(name, detail):
    _r().counters['contract_disagree:' + name] += 1
    if len(_state['disagreements']) < 50:
        _state['disagreements'].append({'contract': name, 'detail': detail})


# ---- observable executor state ---------------------------------------------------------------------
def _cells_of(ex):
    c = getattr(ex, '_cells', None)
    if c is None:
        return None
    if isinstance(c, dict):
        c = c.values()
    out = []
    for cell in c:
        try:
            out.append((cell.uid, repr(cell.value)))
        except Exception:
            out.append((repr(cell), ''))
    return sorted(out)


def _sizes_of(ex):
    s = getattr(ex, '_sheets_size', None)
    return copy.deepcopy(s) if s is not None else None


def executor_state(self):
    return {'cells': _cells_of(self), 'sizes': _sizes_of(self)}


def query_leaves_state(self, OLD):
    _r().counters['contract_evals:query_leaves_state'] += 1
    now = executor_state(self)
    if OLD.st['cells'] is None or OLD.st['sizes'] is None:
        _r().sets.setdefault('unreached_state', set()).add('Executor._cells/_sheets_size')
        return True
    if now != OLD.st:
        _note('query_leaves_state', {'before': OLD.st, 'after': now})
    return True


def set_cells_post(self, cells, OLD):
    _r().counters['contract_evals:set_cells_post'] += 1
    now = executor_state(self)
    if now['sizes'] is not None and OLD.st['sizes'] is not None:
        for a, b in zip(OLD.st['sizes'], now['sizes']):
            if b.get('last_row', 0) < a.get('last_row', 0) or b.get('last_column', 0) < a.get('last_column', 0):
                _note('set_cells_sizes_monotone', {'before': OLD.st['sizes'], 'after': now['sizes']})
                break
        for cell in cells:
            try:
                s = now['sizes'][cell.title]
                if s['last_row'] < cell.row + 1 or s['last_column'] < cell.column + 1:
                    _note('set_cells_sizes_cover_cell', {'cell': repr(cell), 'sizes': s})
            except Exception:
                pass
    if now['cells'] is not None:
        have = {u for u, _ in now['cells']}
        for cell in cells:
            try:
                if cell.uid not in have:
                    _note('set_cells_cell_present', {'cell': repr(cell)})
            except Exception:
                pass
    return True


def translation_is_loadable_text(result):
    _r().counters['contract_evals:translation_is_text'] += 1
    if not isinstance(result, str):
        _note('translation_is_text', {'type': type(result).__name__})
        return True
    try:
        compile(result, '<translation>', 'exec')
    except SyntaxError as e:
        _note('translation_compiles', {'error': str(e)[:160]})
    return True


class ContractBroken(Exception):
    pass


def _record(cls, name):
    orig = getattr(cls, name)

    def w(self, *a, **k):
        seq = next(_state['seq'])
        ev = {'seq': seq, 'obj': id(self), 'cls': cls.__name__, 'op': name, 'args': [repr(x)[:80] for x in a]}
        if len(_state['events']) < 200000:
            _state['events'].append(ev)
        _r().counters[f'boundary:{cls.__name__}.{name}'] += 1
        try:
            res = orig(self, *a, **k)
        except BaseException as e:
            ev['raise'] = type(e).__name__
            raise
        ev['return'] = type(res).__name__
        return res
    w.__name__ = name
    w.__wrapped__ = orig
    setattr(cls, name, w)


def install(r):
    """idempotent per process"""
    _state['r'] = r
    if _state['installed']:
        return
    _state['installed'] = True
    for name in ('get_cell', 'get_cells', 'get_sheet'):
        f = getattr(Executor, name)
        f = icontract.ensure(query_leaves_state, error=ContractBroken, enabled=True)(f)
        f = icontract.snapshot(executor_state, name="st", enabled=True)(f)
        setattr(Executor, name, f)
    f = Executor.set_cells
    f = icontract.ensure(set_cells_post, error=ContractBroken, enabled=True)(f)
    f = icontract.snapshot(executor_state, name="st", enabled=True)(f)
    Executor.set_cells = f
    Parser.get_translation = icontract.ensure(translation_is_loadable_text, error=ContractBroken, enabled=True)(Parser.get_translation)
    for cls, names in ((Executor, ('set_executed_class', 'set_cells', 'get_cell', 'get_cells', 'get_sheet')),
                       (Parser, ('set_excel_file_path', 'set_entrypoint_cell', 'enable_safety_check', 'disable_safety_check',
                                 'get_translation', 'write_translation'))):
        for n in names:
            _record(cls, n)
