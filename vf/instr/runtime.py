"""L1 - monitors on the loaded generated class (applied after exec, before the Executor instantiates it).

Everything here is *soft*: a helper that is not found is reported as unreached, never as a violation, and
helper-level disagreements are diagnostics attached to formula-level verdicts (a correct refactoring may
rename or re-shape a helper)."""
import copy
import functools
import re

_HELPER = re.compile(r'^_[a-z]')


class RuntimeMonitor:
    def __init__(self, r, posts=None, record_args=None, trace=False, prefix='helper'):
        self.r = r
        self.posts = posts or {}          # name -> fn(args, result, exc) -> None | str (disagreement)
        self.record_args = record_args    # None | list to append (name, args) deep copies to
        self.trace_on = trace
        self.trace = []                   # (uid, source)
        self.prefix = prefix
        self.disagreements = []

    def _wrap(self, name, fn, is_static):
        mon = self
        post = self.posts.get(name)

        @functools.wraps(fn)
        def w(*args, **kw):
            mon.r.counters[f'{mon.prefix}:{name}'] += 1
            call_args = args if is_static else args[1:]
            if mon.record_args is not None and len(mon.record_args) < 200000:
                try:
                    mon.record_args.append((name, copy.deepcopy(call_args)))
                except Exception:
                    pass
            try:
                res = fn(*args, **kw)
            except BaseException as e:
                if post:
                    d = post(call_args, None, e)
                    if d:
                        mon._disagree(name, call_args, d)
                raise
            if post:
                d = post(call_args, res, None)
                if d:
                    mon._disagree(name, call_args, d)
            return res
        return w

    def _disagree(self, name, args, d):
        self.r.counters[f'{self.prefix}_post_disagree:{name}'] += 1
        if len(self.disagreements) < 20:
            self.disagreements.append({'helper': name, 'args': repr(args)[:200], 'detail': d})

    def install(self, cls):
        found = set()
        for name, attr in list(cls.__dict__.items()):
            if not _HELPER.match(name):
                continue
            if name == '_cell_preprocessor':
                if self.trace_on:
                    setattr(cls, name, self._wrap_preprocessor(attr))
                continue
            if isinstance(attr, staticmethod):
                setattr(cls, name, staticmethod(self._wrap(name, attr.__func__, True)))
                found.add(name)
            elif callable(attr) and not isinstance(attr, type):
                setattr(cls, name, self._wrap(name, attr, False))
                found.add(name)
        for name in self.posts:
            if name not in found:
                self.r.seen('unreached_helpers', name)
        return cls

    def _wrap_preprocessor(self, fn):
        mon = self

        @functools.wraps(fn)
        def w(inst, uid, *a, **k):
            args = getattr(inst, '_arguments', None)
            if isinstance(args, dict) and uid in args:
                src = 'override'
            elif uid in type(inst).__dict__ or uid in inst.__dict__:
                src = 'method'
            else:
                src = 'miss'
            if len(mon.trace) < 100000:
                mon.trace.append((uid, src))
            mon.r.counters['trace:' + src] += 1
            return fn(inst, uid, *a, **k)
        return w
