"""L3 - interpreter-level monitors: a logical step budget through sys.monitoring (PY_START events = Python function
entries).  "Never hangs" cannot be decided by a finite run; it is restated as bounded progress: a translation must
finish within a budget of logical steps.  Wall-clock time is never a verdict (only the shard watchdog, inconclusive)."""
import sys


class StepBudgetExceeded(BaseException):
    """BaseException on purpose: no `except Exception` of the observed code may swallow it."""


TOOL = 4


class StepBudget:
    def __init__(self, budget, allowance=None, persistent=False):
        """allowance: optional callable -> extra steps earned so far (e.g. proportional to the number of cells translated,
        so that a formula over a legitimately huge area is not mistaken for a hang)"""
        self.budget = budget
        self.allowance = allowance
        # persistent: keep raising at every further function entry once the budget is spent - observed code with a bare `except:` (the
        # runtime's IFERROR) swallows the first one and would go on for ever
        self.persistent = persistent
        self.steps = 0
        self.tripped = False
        self._on = False

    def _cb(self, code, offset):
        if code is StepBudget.__exit__.__code__:
            return          # the way out must stay open (persistent mode)
        self.steps += 1
        if self.steps > self.budget and (self.persistent or not self.tripped):
            if self.allowance is not None and self.steps <= self.budget + self.allowance():
                return
            self.tripped = True
            raise StepBudgetExceeded(f'{self.steps} PY_START events (budget {self.budget})')

    def __enter__(self):
        mon = sys.monitoring
        try:
            mon.use_tool_id(TOOL, 'vf-step-budget')
        except ValueError:
            mon.free_tool_id(TOOL)
            mon.use_tool_id(TOOL, 'vf-step-budget')
        mon.register_callback(TOOL, mon.events.PY_START, self._cb)
        mon.set_events(TOOL, mon.events.PY_START)
        self._on = True
        return self

    def __exit__(self, *exc):
        mon = sys.monitoring
        mon.set_events(TOOL, 0)
        mon.register_callback(TOOL, mon.events.PY_START, None)
        mon.free_tool_id(TOOL)
        self._on = False
        return False
