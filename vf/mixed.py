"""'mixed' shards of the semantic checks: typed random nests over the whole function set (vf/gen/exprs.py), judged by vf/xlref.
Each check asks for formulas that use at least one of its own functions; the result of one function flowing into another is what
the per-function templates never write down."""
from . import wbspec
from .gen import exprs
from .refcheck import judge_book
from .xlref.values import Err, ERROR_TEXTS


def _is_err(o):
    return isinstance(o, Err) or (isinstance(o, str) and o in ERROR_TEXTS)


def run_mixed(ctx, prop, books, per_book=40, depth=3, exact=False):
    r, rng = ctx.r, ctx.rng
    own = exprs.FUNCS_BY_PROPERTY[prop]
    g = exprs.Gen(rng, prefer=own)
    for b in range(books):
        cells = dict(exprs.BLOCK)
        targets, meta = [], {}
        tries = 0
        while len(targets) < per_book and tries < per_book * 30:
            tries += 1
            typ = rng.choice('NNNTTBD') if prop not in ('C17',) else rng.choice('TTTNB')
            if prop == 'C15':
                typ = rng.choice('DDNNB')
            f, used = g.formula(typ, rng.choice([2, depth, depth]))
            if not (used & set(own)) or len(f) > 240 or f in meta.values():
                continue
            a = wbspec.a1(len(targets) % 40 + 1, 10 + len(targets) // 40)
            cells[a] = f
            meta[a] = f
            targets.append((0, a))
            for fn in used:
                r.count('mixed_fn:' + fn)
        r.count('mixed_formulas', len(targets))
        vals = [[(0, a, v) for a, v in val] for val in exprs.VALUATIONS] + [[(0, a, v) for a, v in exprs.random_valuation(rng)] for _ in range(3)]

        def unjudged(formula, outs):
            # an error value flowing through enclosing functions/operators is outside the statements (C13/C17 notes): only
            # reference outcomes that are values are judged here
            return any(_is_err(o) for o in outs)
        # every third book cell by cell through the entry-point API (the slice of each formula's own precedents)
        per_cell = b % 3 == 2
        if per_cell:
            r.count('mixed_books_translated_by_entry_cells')
        judge_book(ctx, prop, wbspec.spec(wbspec.sheet('S', cells)), targets, vals[:3] if per_cell else vals, exact=exact, name=f'mx{b}',
                   monitor='mixed-expression-reference', strict_text=True, nontrivial=lambda case, outs: True, unjudged=unjudged, flag_consistency=False,
                   empty_text_is_blank=True, per_cell=per_cell)
    r.sample({'mixed_formulas': list(meta.values())[:6]})
