"""C17 - text functions obey the substring algebra.

Oracle: Python slicing / case-folded wildcard search (vf/xlref) on the same texts; the law LEFT(t,n)&MID(t,n+1,len)=t
is checked on the library's own results.  Every slicing result is observed raw AND wrapped as "["&x&"]", so that an
empty text represented by the blank object becomes visible.  Texts, counts and positions are supplied through cells
and swept through overrides; a sample is also embedded as literals."""
import itertools
import json

import datetime as dt

from .. import pipeline, wbspec
from ..findings import report
from ..refcheck import judge_book, replay_case
from ..xlref import evalr
from ..xlref.values import norm

ID = 'C17'
LEVEL = 'exploration'
ALPHA = ['a', 'B', 'c', 'Я', ' ', '?', '*', '~', '.', '(', '[', '\\', '+', 'ß', '\ufb01', '\u0149']      # ß, the ligature fi, 'n: their upper() is two letters
RULE = ('texts over {a B c Я blank ? * ~ . ( [ \\ +}: all of length <=2 and a sample of length 3 (thorough: all of length <=3) plus random '
        'texts up to length 8; LEFT/RIGHT/MID with counts and positions in [-2..len+2] (and defaults), each raw and wrapped in "["&..&"]"; '
        'the rebuild law LEFT(t,n)&MID(t,n+1,len)=t for 0<=n<len; SEARCH with needles = substrings, case variants, wildcard patterns '
        '(? * ~? ~* ~~), regex-special texts, absent needles, start positions 0..len+1, through cells and as literals; & and '
        'CONCATENATE over text, integer, boolean, blank, integral float and simple decimal operands; VALUE over signed/decimal/exponent/'
        'padded numeric texts. Non-trivial: a text of length >= 2 or containing a wildcard/regex-special character, or a non-text '
        'operand of & / CONCATENATE; distinct by (formula, valuation)')
ASSUMPTIONS = ['vf/xlref slicing / wildcard search = the clauses of the statement', 'first arguments of LEFT/RIGHT/MID/SEARCH are texts; counts are integers',
               'text form of floats with more than 15 digits / exponent is not generated', '#VALUE! is demanded exactly for SEARCH misses']
HOST_SETTINGS = {'shards': lambda shards: [0, 3, 8, 14, 15], 'env': {'VERIF_HOST_DECIMAL': '3'}}
FLOORS = {'quick': {'evaluations': 20000, 'nontrivial': 10000, 'counters': {'rebuild_law_checked': 500}},
          'thorough': {'evaluations': 600000, 'nontrivial': 300000, 'counters': {'rebuild_law_checked': 15000}}}

FORMS = {
    'F1': '=LEFT(A1,C1)', 'F2': '=RIGHT(A1,C1)', 'F3': '=MID(A1,D1,C1)', 'F4': '=LEFT(A1)', 'F5': '=RIGHT(A1)',
    'F6': '="["&LEFT(A1,C1)&"]"', 'F7': '="["&RIGHT(A1;C1)&"]"', 'F8': '="["&MID(A1,D1,C1)&"]"', 'F9': '=LEFT(A1,C1)&MID(A1,C1+1,H1)',
    'F10': '=SEARCH(B1,A1)', 'F11': '=SEARCH(B1,A1,E1)', 'F12': '=CONCATENATE(A1,B1)', 'F13': '=CONCATENATE(A1,"-",C1,I1)', 'F14': '=A1&C1',
    'F15': '=A1&I1', 'F16': '=I1&"|"&A1', 'F17': '=CONCATENATE(I1,A1,I1)', 'F18': '=MID(A1,D1,C1)&RIGHT(A1,C1)', 'F19': '="["&LEFT(A1)&RIGHT(A1)&"]"',
    'F20': '=VALUE(L1)', 'F21': '=VALUE(L1)+1',
    # Z9 is never written: a blank cell counts as 0 wherever a number is expected, it is not an omitted argument
    # counts and positions that arrive as numbers stored as text: a quoted literal, a text cell (M1), the result of a text function
    'F26': '="["&LEFT(A1,"2")&"]"', 'F27': '="["&MID(A1,"2","3")&"]"', 'F28': '="["&RIGHT(A1,LEFT("25",1))&"]"', 'F29': '="["&LEFT(A1,M1)&"]"',
    'F30': '="["&MID(A1,M1,MID("x1y",2,1))&"]"', 'F31': '="["&RIGHT(A1,M1&"")&"]"',
    'F22': '="["&LEFT(A1,Z9)&"]"', 'F23': '="["&RIGHT(A1,Z9)&"]"', 'F24': '=LEFT(A1,Z9)&MID(A1,Z9+1,H1)', 'F25': '="["&MID(A1,D1,Z9)&"]"',
}
SLICERS = ['F1', 'F2', 'F3', 'F4', 'F5', 'F6', 'F7', 'F8', 'F9', 'F18', 'F19', 'F22', 'F23', 'F24', 'F25', 'F26', 'F27', 'F28', 'F29', 'F30', 'F31']
SEARCHERS = ['F10', 'F11']
JOINERS = ['F12', 'F13', 'F14', 'F15', 'F16', 'F17']
VALUERS = ['F20', 'F21']
BASE = {'A1': 'abc', 'B1': 'b', 'C1': 1, 'D1': 1, 'E1': 1, 'H1': 3, 'I1': 1, 'L1': '12', 'M1': '2'}
OPERANDS = [5, -3, 0, 12345, True, 1.0, False, 0.0, 1, None, 2.0, -7.0, 2.5, 0.1, -0.25, 'x', 'Yz', '', -0.0, 1e15, 123456789012345.0,
            # doubles whose shortest Python spelling is not what a cell shows: 15 significant digits, no exponent between 1e-9 and 1e15
            0.1 + 0.2, 1 / 3, 2 / 3, -1 / 7, 1e-5, 1.5e-7, 123456.789, 0.1 * 3, 1.1 * 1.1, 100 * 1.1, 4.35 * 100, 1e-9, 2.5e-9, 99999999999999.9, 0.000123456789012345678,
            dt.datetime(2024, 3, 1), dt.datetime(2024, 3, 1, 12, 0), dt.datetime(2024, 3, 1, 6, 30, 15)]      # None = blank cell (override '' is the empty text)
NUMTEXTS = ['1_0', '1_000', 'inf', 'nan', 'Infinity', '-inf', '\u0663', '\uff11\uff12', '1__0', '12', ' 12 ', '-3.5', '+7', '1e3', '1E3', '.5', '007', '1.50', '0', '-0', '3.', ' -4', '1e-2', '123456789012',
            # percentages, year-month-day dates (day serial), times of day as exact binary fractions, texts that denote no number
            '50%', '12.34%', '5.6%', '250.75%', '-3%', '0.5%', '100%', '7.125%', ' 8% ', '33.333%', '0.07%', '12345.678%', '2024-01-31', '1900-03-01', '2023-12-31',
            '12:00', '06:00', '18:00:00', '03:00', '00:00', '12:30', 'abc', 'x y', '%', 'e', '-', 'twelve']


def texts(rng, tier):
    out = ['']
    out += [''.join(p) for n in (1, 2) for p in itertools.product(ALPHA, repeat=n)]
    l3 = [''.join(p) for p in itertools.product(ALPHA, repeat=3)]
    if tier == 'quick':
        out = rng.sample(out, 60) + [''] + rng.sample(l3, 60)
    else:
        out += l3
    for _ in range(60 if tier == 'quick' else 1500):
        out.append(''.join(rng.choice(ALPHA + ['a', 'B', 'c']) for _ in range(rng.randrange(4, 9))))
    return out


def needles(rng, t):
    out = []
    n = len(t)
    for _ in range(3):
        if n:
            i = rng.randrange(n)
            j = rng.randrange(i + 1, n + 1)
            sub = t[i:j]
            out.append(sub)
            out.append(sub.swapcase())
            if len(sub) >= 2:
                k = rng.randrange(len(sub))
                out.append(sub[:k] + '?' + sub[k + 1:])
                out.append(sub[:k] + '*' + sub[rng.randrange(k, len(sub)) + 1:])
            out.append('*' + sub[-1:])
            out.append(sub[:1] + '*')
    out += ['zz', '?', '*', '~?', '~*', '~~', '.', '(', '[', '\\', '+', 'a.', '?' * (n + 1), '?' * max(n, 1), 'a~', '~a', 'A', 'я', '**', '?*', '.*', '\\d', '[a]', '(a)']
    return [x for x in dict.fromkeys(out) if x != '']


def _plan(tier, seed):
    return [{'kind': 'slice', 'part': p, 'parts': 8} for p in range(8)] + [{'kind': 'search', 'part': p, 'parts': 6} for p in range(6)] + \
           [{'kind': 'join'}, {'kind': 'literal'}, {'kind': 'shared-text'}]


def nontrivial(case, outs):
    ov = {a: v for (_, a, v) in case['overrides']}
    t = ov.get('A1', '')
    return (isinstance(t, str) and (len(t) >= 2 or any(ch in t for ch in '?*~.([\\+'))) or case['cell'] in JOINERS + VALUERS


def classify(case, out, outs):
    return None


def run_slice(shard, ctx):
    import random
    r = ctx.r
    ts = texts(random.Random(ctx.seed), ctx.tier)
    mine = [t for i, t in enumerate(ts) if i % shard['parts'] == shard['part']]
    cells = dict(BASE)
    for a in SLICERS:
        cells[a] = FORMS[a]
    spec = wbspec.spec(wbspec.sheet('S', cells))
    vals = []
    for t in mine:
        n = len(t)
        for c in range(-2, n + 3):
            for d in ([1, n] if c not in (0, 1, n) else range(-1, n + 3)):
                vals.append([(0, 'A1', t), (0, 'C1', c), (0, 'D1', d), (0, 'H1', n)])
    results = {}

    def on_result(case, out, outs, ok):
        if case['cell'] == 'F9':
            ov = {a: v for (_, a, v) in case['overrides']}
            t, c = ov['A1'], ov['C1']
            if 0 <= c < len(t):
                r.count('rebuild_law_checked')
                if not (out.ok and norm(out.value) == t):
                    report(r, ID, None, dict(case, law='LEFT(t,n)&MID(t,n+1,len)=t', spec=spec), out.brief(), t, monitor='rebuild-law')

    # an error value delivered into an enclosing & is not this property's claim: the wrapped forms are judged only where
    # the slicing itself is defined (count >= 0, position >= 1)
    ok_vals = [v for v in vals if v[1][2] >= 0 and v[2][2] >= 1]
    err_vals = [v for v in vals if not (v[1][2] >= 0 and v[2][2] >= 1)]
    judge_book(ctx, ID, spec, [(0, a) for a in SLICERS], ok_vals, exact=True, classify=classify, nontrivial=nontrivial, name='slice',
               monitor='slicing-reference', on_result=on_result, empty_text_is_blank=True)
    raw = [(0, 'F1'), (0, 'F2')]
    judge_book(ctx, ID, spec, raw, [v for v in err_vals if v[1][2] < 0], exact=True, classify=classify, nontrivial=nontrivial, name='slice_e',
               monitor='slicing-reference', empty_text_is_blank=True)
    judge_book(ctx, ID, spec, [(0, 'F3')], err_vals, exact=True, classify=classify, nontrivial=nontrivial, name='slice_m',
               monitor='slicing-reference', empty_text_is_blank=True)
    r.sample({'texts': mine[:8], 'formulas': [FORMS[a] for a in SLICERS[:6]]})


def run_search(shard, ctx):
    import random
    r, rng = ctx.r, ctx.rng
    ts = texts(random.Random(ctx.seed), ctx.tier)
    ts = [t for t in ts if t]
    rng.shuffle(ts)
    ts = ts[:40 if ctx.tier == 'quick' else 900]
    mine = [t for i, t in enumerate(ts) if i % shard['parts'] == shard['part']]
    cells = dict(BASE)
    for a in SEARCHERS:
        cells[a] = FORMS[a]
    spec = wbspec.spec(wbspec.sheet('S', cells))
    vals = []
    for t in mine:
        for f in needles(rng, t):
            for s in ([1] + rng.sample(range(0, len(t) + 2), min(3, len(t) + 2))):
                vals.append([(0, 'A1', t), (0, 'B1', f), (0, 'E1', s)])
        # a blank cell as the text to find (and, once, as the text to search in)
        vals.append([(0, 'A1', t), (0, 'B1', None), (0, 'E1', rng.randrange(1, len(t) + 1))])
    vals.append([(0, 'A1', None), (0, 'B1', 'a'), (0, 'E1', 1)])
    judge_book(ctx, ID, spec, [(0, a) for a in SEARCHERS], vals, exact=True, err_exact=True, classify=classify, nontrivial=nontrivial,
               name='search', monitor='search-reference')
    r.sample({'search': [[v[0][2], v[1][2], v[2][2]] for v in vals[:8]]})


def run_join(shard, ctx):
    r, rng = ctx.r, ctx.rng
    cells = dict(BASE)
    for a in JOINERS + VALUERS:
        cells[a] = FORMS[a]
    cells['K1'] = '=A1&N1&"|"'          # N1 is never written: a truly blank cell
    cells['K2'] = '=CONCATENATE("<",N1,">")'
    cells['K3'] = '=""&I1'
    cells['K4'] = '=TRUE()&(2/2)&FALSE&(C1*0)'
    cells['K5'] = '=CONCATENATE(I1,"|",I1*1,"|",I1=I1)'
    spec = wbspec.spec(wbspec.sheet('S', cells))
    vals = []
    for t in ['ab', '', 'Я ?', 'x']:
        for op in OPERANDS:
            for c in (0, 7, -12):
                if op is None:
                    continue
                vals.append([(0, 'A1', t), (0, 'I1', op), (0, 'C1', c), (0, 'B1', 'q')])
    rng.shuffle(vals)      # TRUE before 1.0 in one process, 1.0 before TRUE in another (seed): text forms remembered by == collide
    for nt in NUMTEXTS:
        vals.append([(0, 'L1', nt)])
    judge_book(ctx, ID, spec, [(0, a) for a in JOINERS + VALUERS + ['K1', 'K2', 'K3', 'K4', 'K5']], vals, exact=True, classify=classify,
               nontrivial=lambda case, outs: True, name='join', monitor='text-form-reference')
    # two laws without a model. (a) a whole number of 16 or more digits has ONE text form whether it arrives as an int or as the float of
    # the same value; (b) CONCATENATE(a,b) is one operand: next to any operator it behaves like (a&b)
    cells2 = {'I1': 1, 'J1': 'x', 'P1': '=I1&""', 'P2': '=CONCATENATE("<",I1,">")', 'P3': '=LEFT(I1&"",4)'}
    ops = ['*2', '/2', '-1', '%', '=J1&"2"', '&"z"', '<>J1', '+0']
    for i, op in enumerate(ops):
        cells2[f'Q{i + 1}'] = f'=CONCATENATE(J1,"2"){op}'
        cells2[f'R{i + 1}'] = f'=(J1&"2"){op}'
        cells2[f'S{i + 1}'] = f'=-CONCATENATE(J1,"2")' if i == 0 else f'=2*CONCATENATE(J1,"2")' if i == 1 else f'=CONCATENATE(J1,"2")'
        cells2[f'T{i + 1}'] = f'=-(J1&"2")' if i == 0 else f'=2*(J1&"2")' if i == 1 else f'=(J1&"2")'
    book2 = pipeline.Book(wbspec.spec(wbspec.sheet('S', cells2)), ctx.workdir, name='laws')

    def same(o1, o2):
        return (o1.ok == o2.ok) and ((o1.ok and type(o1.value) is type(o2.value) and o1.value == o2.value) or (not o1.ok and o1.exc_name == o2.exc_name))
    for n in (10 ** 15, 10 ** 16, 123456789012345678, -(10 ** 15), 2 ** 60, 10 ** 15 + 1, 999999999999999):
        for a in ('P1', 'P2', 'P3'):
            oi, of = book2.value(0, a, [(0, 'I1', n)]), book2.value(0, a, [(0, 'I1', float(n))])
            r.ev(2)
            r.count('int_vs_float_text_form_checks')
            r.nt(('intfloat', n, a))
            if float(n) == n and not same(oi, of):
                report(r, ID, None, {'formula': cells2[a], 'cell': a, 'sheet': 0, 'overrides': [[0, 'I1', n]], 'what': 'the same whole number as int and as float'},
                       {'as_int': oi.brief(), 'as_float': of.brief()}, 'one text form', monitor='text-form-reference')
    for j1 in ('1', 'x', '12', ''):
        for i in range(len(ops)):
            for ca, cb in ((f'Q{i + 1}', f'R{i + 1}'), (f'S{i + 1}', f'T{i + 1}')):
                oa, ob = book2.value(0, ca, [(0, 'J1', j1)]), book2.value(0, cb, [(0, 'J1', j1)])
                r.ev(2)
                r.count('concatenate_as_operand_checks')
                r.nt(('concat-operand', j1, ca))
                if not same(oa, ob):
                    report(r, ID, None, {'formula': cells2[ca], 'cell': ca, 'sheet': 0, 'overrides': [[0, 'J1', j1]], 'what': 'CONCATENATE(a,b) next to an operator against (a&b)'},
                           {'CONCATENATE': oa.brief(), 'ampersand': ob.brief()}, 'the same outcome', monitor='text-form-reference')
    r.sample({'operands': [wbspec.enc(o) for o in OPERANDS], 'numeric_texts': NUMTEXTS})


def lit(t):
    return '"' + t.replace('"', '""') + '"'


def run_literal(shard, ctx):
    """the same functions with the texts embedded as literals (no wildcard characters: such literals lex as patterns)"""
    r, rng = ctx.r, ctx.rng
    plain = [t for t in texts(rng, 'quick') if t and not any(ch in t for ch in '?*~"')]
    rng.shuffle(plain)
    cells, targets = dict(BASE), []
    i = 0
    for t in plain[:40 if ctx.tier == 'quick' else 400]:
        n = len(t)
        for f in (f'=LEFT({lit(t)},{rng.randrange(0, n + 2)})', f'=RIGHT({lit(t)},{rng.randrange(0, n + 2)})',
                  f'=MID({lit(t)},{rng.randrange(1, n + 2)},{rng.randrange(0, n + 2)})', f'=SEARCH({lit(t[rng.randrange(n):][:2])},{lit(t)})',
                  f'=SEARCH({lit(t[:1].swapcase())},{lit(t)},1)', f'={lit(t)}&{lit(t[::-1])}', f'=CONCATENATE({lit(t)},1,TRUE)'):
            i += 1
            a = wbspec.a1((i - 1) % 50 + 1, 16 + (i - 1) // 50)
            cells[a] = f
            targets.append((0, a))
    spec = wbspec.spec(wbspec.sheet('S', cells))
    judge_book(ctx, ID, spec, targets, [[]], exact=True, err_exact=lambda case: 'SEARCH' in case['formula'], classify=classify,
               nontrivial=lambda case, outs: True, name='lit', monitor='literal-reference', empty_text_is_blank=True)
    r.sample({'literal_formulas': [cells[a] for _, a in targets[:6]]})


def run_shared_text(shard, ctx):
    """the SAME text used as a SEARCH needle and as a criterion of SUMIF / COUNTIFS / SUMIFS / AVERAGEIFS in one generated class: what SEARCH
    answers does not depend on whether a criteria function met that text before (and the other way round).  Two class objects are loaded
    from one translation; one is asked the criteria cells first, the other the SEARCH cells first; every cell must agree."""
    from excel2pycl import Executor, Cell
    r, rng = ctx.r, ctx.rng
    needles = ['an', 'a', 'na', 'b?n', 'a*a', '~*', 'AN', 'x', 'ban', 'ana', '?', '*']
    for k in range(6 if ctx.tier == 'quick' else 60):
        n1, n2 = rng.sample(needles, 2)
        cells = {'A1': 'banana', 'A2': rng.choice(['an', 'bandana', 'x*y', 'AN']), 'A3': n1, 'A4': rng.choice(['', 'a', 'nab']) or 'z', 'B1': n1, 'B2': n2,
                 'C1': 1, 'C2': 10, 'C3': 100, 'C4': 1000,
                 'F1': '=SEARCH(B1,A1)', 'F2': '=SEARCH(B1,A1,2)', 'F3': f'=SEARCH("{n1}",A1)', 'F4': '=SEARCH(B2,A2)', 'F5': f'=IFERROR(SEARCH("{n2}",A1,3),-1)',
                 'G1': '=COUNTIFS(A1:A4,B1)', 'G2': '=SUMIF(A1:A4,B1,C1:C4)', 'G3': f'=SUMIFS(C1:C4,A1:A4,"{n1}")', 'G4': f'=COUNTIFS(A1:A4,"{n2}")',
                 'G5': '=IFERROR(AVERAGEIFS(C1:C4,A1:A4,B2),-1)'}
        book = pipeline.Book(wbspec.spec(wbspec.sheet('S', cells)), ctx.workdir, name=f'shared{k}')
        if book.cls is None or book.whole is None or not book.whole.ok:
            r.violation('translate', {'spec': 'shared-text'}, book.whole.brief() if book.whole is not None else 'no text', 'a loadable class')
            continue
        searchers, criteria = ['F1', 'F2', 'F3', 'F4', 'F5'], ['G1', 'G2', 'G3', 'G4', 'G5']
        seen = {}
        for label, order in (('criteria first', criteria + searchers), ('search first', searchers + criteria)):
            cls_o = pipeline.load_text(book.whole.value)
            if not cls_o.ok:
                continue
            ex = Executor().set_executed_class(class_object=cls_o.value)
            for a in order:
                rr, cc = wbspec.rc(a)
                o = pipeline.guarded(lambda: ex.get_cell(Cell(0, cc - 1, rr - 1)).value, 'evaluate')
                r.ev()
                r.count('shared_text_observations')
                seen.setdefault(a, {})[label] = o
        for a, d in seen.items():
            if len(d) == 2:
                x, y = d['criteria first'], d['search first']
                r.nt(('shared-text', k, a))
                if json.dumps(x.brief(), sort_keys=True, default=str) != json.dumps(y.brief(), sort_keys=True, default=str):
                    report(r, ID, None, {'formula': cells[a], 'cell': a, 'needle_cells': [cells['B1'], cells['B2']], 'shared_text_law': True},
                           {'asked after the criteria cells': x.brief(), 'asked before them': y.brief()}, 'the same value in both orders', monitor='search-depends-on-earlier-criteria')
    r.sample({'shared_text': 'SEARCH and criteria functions over the same needle text in one class, asked in both orders on two class objects'})


def run_shard(shard, ctx):
    if isinstance(shard, dict) and 'mixed' in shard:
        from ..mixed import run_mixed
        return run_mixed(ctx, ID, shard['n'])
    if 'replay' in shard and shard['replay'].get('shared_text_law'):
        return run_shared_text({}, ctx)
    if 'replay' in shard:
        c = shard['replay']
        return replay_case(ctx, ID, c, exact=True, err_exact='SEARCH' in (c.get('formula') or ''), classify=classify, empty_text_is_blank=True)
    {'slice': run_slice, 'search': run_search, 'join': run_join, 'literal': run_literal, 'shared-text': run_shared_text}[shard['kind']](shard, ctx)


def finish(r, tier, seed):
    from ..refcheck import flag_consistency_verdict
    extra = flag_consistency_verdict(r, ID)
    return {**extra, 'helper_calls': {k: v for k, v in r.counters.items() if k.startswith('helper:_') and any(
        x in k for x in ('left', 'right', 'mid', 'search', 'value', 'excel_value'))}}


def plan(tier, seed):
    # 'mixed': nests over the whole function set that use at least one function of this property (vf/mixed.py)
    return _plan(tier, seed) + [{'mixed': k, 'n': 3 if tier == 'quick' else 60} for k in range(3 if tier == 'quick' else 8)]
