"""C13 - IF / IFS / IFERROR choose the right branch and contain errors.

Oracle: vf/xlref with lazy IF/IFS/IFERROR (IF default else-branch FALSE, IFS -> #N/A when no condition holds, IFERROR ->
fallback iff the first argument is an error value or fails).  Every skeleton of nested constructs is placed in ten
contexts; its conditions are cells, so every truth assignment is swept through overrides.
L1 monitor: the evaluation trace of _cell_preprocessor - canary cells referenced only from an untaken IF branch must not
be evaluated (checked on formulas made of IF only, where the statement demands it)."""
import itertools
import re

from .. import pipeline, wbspec
from ..findings import report
from ..instr.runtime import RuntimeMonitor
from ..instr.translate import TranslateMonitor
from ..xlref import evalr
from ..xlref.parser import ParseError
from ..xlref.values import outcome_matches, Err, ERROR_TEXTS

ID = 'C13'
LEVEL = 'exploration'
RULE = ('skeletons = IF(c,a,b) | IF(c,a) | IFS(c,a) | IFS(c,a,c,b) | IFERROR(a,b) with every value slot a leaf or a nested skeleton: all 125 '
        'skeletons of depth <=2 (thorough: + sampled depth 3), each in 10 contexts (bare, X+1, 1+X, X*2, X&"z", "z"&X, X>1, SUM(X,1), '
        'ROUND(X,0), LEFT(X,1), IF(X>0,"p","q")); leaves from {number, text, canary formula cells, failing 1/0, failing cell =1/0, error '
        'texts #N/A #VALUE! #DIV/0! #REF! #NULL! #NUM!, lookups that miss, and expressions failing in other ways: MONTH/YEAR/DAY of a text, '
        'VLOOKUP column beyond the table, INDEX beyond the area, MID position 0, LEFT count -1}; conditions are distinct cells swept over ALL truth assignments (<=32) with '
        '0/1, FALSE/TRUE and other non-zero numbers. Non-trivial: the formula has >= 2 conditions or a failing/error leaf in a '
        'branch that is not taken under the assignment; distinct by (formula, assignment)')
ASSUMPTIONS = ['vf/xlref lazy semantics = the clauses of the statement; text conditions are not generated',
               'an evaluation that raises stands for "an error value"; #N/A is demanded exactly for IFS without a true condition',
               'laziness (untaken branch not evaluated) is asserted for formulas made of IF only']
FLOORS = {'quick': {'evaluations': 15000, 'nontrivial': 8000, 'counters': {'laziness_traces_checked': 2000, 'deepstack:value': 10, 'deepstack:RecursionError': 4, 'area_condition_checks': 8, 'context:rich-condition': 40}},
          'thorough': {'evaluations': 400000, 'nontrivial': 150000, 'counters': {'laziness_traces_checked': 10000, 'deepstack:value': 30, 'deepstack:RecursionError': 10, 'area_condition_checks': 60, 'context:rich-condition': 200}}}

CONDS = [f'C{i}' for i in range(1, 9)]
# canary cells (formula cells, so that both the library trace and the reference see their evaluation)
CANARY = {'N1': '=100+1', 'N2': '=200+2', 'N3': '=300+3', 'T1': '="ab"&"c"', 'T2': '="xy"&"z"', 'T3': '="#"&"77"', 'E1': '=1/0', 'E2': '=1/0'}
BASE = {'K1': 1, 'L1': 10, 'K2': 2, 'L2': 20, **CANARY}
NUM_OK = ['7', '2.5', 'N1', 'N2', 'N3', 'VLOOKUP(2,K1:L2,2,FALSE)', '0', '12', 'N1*2', '(N2-1)']
NUM_ERR = ['1/0', 'E1', 'E2', 'VLOOKUP(99,K1:L2,2,FALSE)', '"#N/A"', '"#DIV/0!"', 'MONTH(T1)', 'YEAR(T2)', 'VLOOKUP(2,K1:L2,5,FALSE)', 'INDEX(K1:L2,5,1)',
           'MATCH(99,K1:K2,0)', 'SEARCH("z","abc")', 'DAY("abc")']
TXT_OK = ['"t"', '"uv"', 'T1', 'T2', 'LEFT("qrs",2)', '"w"&"x"', '"#1"', '"#42"', '"#TOP"', '"#A/B"', '"N/A"', '"#"', '"#n/a"', 'T3']
TXT_ERR = ['1/0', 'E1', '"#VALUE!"', '"#REF!"', '"#NULL!"', '"#NUM!"', 'MID("abc",0,1)', 'LEFT("abc",-1)', 'MONTH(T1)', 'VLOOKUP(2,K1:L2,5,FALSE)']


class Leaves:
    def __init__(self, ok, err):
        self.ok, self.err = ok, err


NUM_LEAVES, TXT_LEAVES = Leaves(NUM_OK, NUM_ERR), Leaves(TXT_OK, TXT_ERR)
CONTEXTS = [('bare', '{}', 'any'), ('add_l', '{}+1', 'num'), ('add_r', '1+{}', 'num'), ('mul', '{}*2', 'num'), ('amp_l', '{}&"z"', 'txt'),
            ('amp_r', '"z"&{}', 'txt'), ('cmp', '{}>1', 'num'), ('sum', 'SUM({},1)', 'num'), ('round', 'ROUND({},0)', 'num'),
            ('left', 'LEFT({},1)', 'txt'), ('ifcond', 'IF({}>0,"p","q")', 'num'),
            # the nest handed through TEXT (which passes its first argument on), then used as an operand; signs and percent at the nest
            ('text_add', 'TEXT({},"0")+10', 'num'), ('add_text', '10+TEXT({},"0")', 'num'), ('text_neg', '-TEXT({},"0")', 'num'), ('text_mul', 'TEXT({},"0")*2', 'num'),
            ('pct', '{}%', 'num'), ('neg', '-{}', 'num'), ('pct_mul', '{}%*2+1', 'num'), ('div', '12/{}', 'num')]
KINDS = ['IF3', 'IF2', 'IFS1', 'IFS2', 'IFERROR']


def if_only(depth):
    if depth == 0:
        return ['L']
    sub = ['L'] + [x for x in if_only(depth - 1) if x != 'L']
    return [('IF3', a, b) for a in sub for b in sub] + [('IF2', a) for a in sub]


def skeletons(depth):
    """value slots are 'L' (leaf) or nested skeleton tuples"""
    if depth == 0:
        return ['L']
    sub = skeletons(depth - 1)
    out = ['L'] if depth > 1 else []
    res = []
    opts = sub if depth > 1 else ['L']
    opts = (['L'] + [s for s in sub if s != 'L']) if depth > 1 else ['L']
    for k in KINDS:
        n = {'IF3': 2, 'IF2': 1, 'IFS1': 1, 'IFS2': 2, 'IFERROR': 2}[k]
        for combo in itertools.product(opts, repeat=n):
            res.append((k,) + combo)
    return res


# a condition is a cell most of the time, otherwise an expression over that cell (also ones that START with a literal)
COND_FORMS = ['{c}'] * 12 + ['{c}>0', '{c}<>0', 'TRUE={c}', 'FALSE<>{c}', '{c}=TRUE', '{c}<>FALSE', '1={c}', '{c}=1', '({c})', '{c}+0', '0+{c}', '{c}*1', '-{c}',
                             '{c}={c}', '{c}<>{c}', 'FALSE+{c}', 'TRUE*{c}', '1*{c}', '0<{c}', '0={c}', 'TRUE', 'FALSE', '1', '0', '0.5', 'TRUE=TRUE', 'FALSE=({c})']


class _Conds:
    def __init__(self, it, rng):
        self.it, self.rng = it, rng

    def __next__(self):
        return self.rng.choice(COND_FORMS).format(c=next(self.it))


def render(sk, rng, leaves, conds):
    """-> text; conds: iterator of condition cells"""
    if not isinstance(conds, _Conds):
        conds = _Conds(conds, rng)
    if sk == 'L':
        return rng.choice(leaves.ok) if rng.random() < 0.7 else rng.choice(leaves.err)
    k = sk[0]
    v = [render(s, rng, leaves, conds) for s in sk[1:]]
    if k == 'IF3':
        return f'IF({next(conds)}{rng.choice([",", ";"])}{v[0]},{v[1]})'
    if k == 'IF2':
        return f'IF({next(conds)},{v[0]})'
    if k == 'IFS1':
        return f'IFS({next(conds)},{v[0]})'
    if k == 'IFS2':
        return f'IFS({next(conds)},{v[0]},{next(conds)},{v[1]})'
    return f'IFERROR({v[0]},{v[1]})'


def depth_of(sk):
    return 0 if sk == 'L' else 1 + max(depth_of(s) for s in sk[1:])


def build_items(rng, tier):
    sks = [s for s in skeletons(2)]
    sks = list(dict.fromkeys(sks + skeletons(1)))
    if tier == 'thorough':
        d3 = skeletons(3)
        rng.shuffle(d3)
        sks += d3[:1500]
    items = []
    ifs3 = [x for x in if_only(3) if depth_of(x) == 3]
    rng.shuffle(ifs3)
    for sk in ifs3[:60 if tier == 'quick' else 182]:
        for (cname, ctpl, ckind) in (CONTEXTS[0], CONTEXTS[1], CONTEXTS[4]):
            leaves = NUM_LEAVES if ckind == 'num' else TXT_LEAVES if ckind == 'txt' else rng.choice([NUM_LEAVES, TXT_LEAVES])
            body = render(sk, rng, leaves, itertools.cycle(CONDS))
            items.append(('=' + ctpl.format(body), cname, 3, body))
    for sk in sks:
        for (cname, ctpl, ckind) in CONTEXTS:
            reps = 5 if tier == "quick" else 9
            for _ in range(reps):
                leaves = NUM_LEAVES if ckind == 'num' else TXT_LEAVES if ckind == 'txt' else rng.choice([NUM_LEAVES, TXT_LEAVES])
                conds = itertools.cycle(CONDS)
                body = render(sk, rng, leaves, conds)
                items.append(('=' + ctpl.format(body), cname, depth_of(sk), body))
    return items


def assignments(rng, used):
    n = len(used)
    combos = list(itertools.product([0, 1], repeat=n))
    if len(combos) > 32:
        combos = rng.sample(combos, 32)
    out = []
    for ci, combo in enumerate(combos):
        style = ci % 3
        val = []
        for c, bit in zip(used, combo):
            if style == 0:
                v = bit
            elif style == 1:
                v = bool(bit)
            else:
                v = rng.choice([5, -2, 0.5]) if bit else 0
            val.append((0, c, v))
        out.append(val)
    return out


_IFONLY = re.compile(r'IFS|IFERROR')


def run_items(ctx, items, tag):
    r, rng = ctx.r, ctx.rng
    tmon = TranslateMonitor.install(r)
    per = 60
    for off in range(0, len(items), per):
        batch = items[off:off + per]
        cells = dict(BASE)
        for c in CONDS:
            cells[c] = 1
        where = {}
        inner = {}
        for i, (f, cname, d, body) in enumerate(batch):
            a = f'P{i + 1}'
            cells[a] = f
            where[a] = (f, cname, d)
            inner[a] = (f'Z{i + 1}', '=' + body)
        spec = wbspec.spec(wbspec.sheet('S', cells))
        # reference-only copy of the workbook that also holds every nest on its own (never given to the library)
        spec_ref = wbspec.spec(wbspec.sheet('S', {**cells, **{z: b for z, b in inner.values()}}))
        tmon.drain()
        book = pipeline.Book(spec, ctx.workdir, name=f'{tag}{off}')
        r.count('books:' + book.mode)
        mon = None
        if book.cls is not None:
            mon = RuntimeMonitor(r, trace=True)
            mon.install(book.cls)
        for a, (f, cname, d) in where.items():
            used = [c for c in CONDS if re.search(rf'\b{c}\b', f)]
            r.count('context:' + cname)
            r.count(f'depth:{d}')
            for val in assignments(rng, used):
                env_ = evalr.Env(spec_ref, {('S', *wbspec.rc(c)): v for (_, c, v) in val})
                try:
                    if cname != 'bare':
                        vin, _ = evalr.evaluate_once(env_, 'S', inner[a][0], strict_text=True)
                        if isinstance(vin, Err) or (isinstance(vin, str) and vin in ERROR_TEXTS):
                            # what an enclosing operator or function does with an error value is not this property's claim
                            r.count('error_value_into_context_unjudged')
                            continue
                    v0, ev0 = evalr.evaluate_once(env_, 'S', a, strict_text=True)
                    outs = [v0]
                except (evalr.NoOpinion, ParseError, evalr.Cycle) as e:
                    r.count('ref_no_opinion')
                    r.seen('ref_no_opinion_reasons', str(e)[:50])
                    continue
                if mon:
                    mon.trace = []
                out = book.value(0, a, val)
                r.ev()
                case = {'formula': f, 'cell': a, 'sheet': 0, 'overrides': val, 'context': cname}
                # the statement names the error value only for IFS without a true condition
                err_exact = (cname == 'bare' and 'IFS' in f and isinstance(v0, Err) and v0.kind == '#N/A'
                             and '"#N/A"' not in f and 'VLOOKUP(99' not in f)
                if not outcome_matches(out, outs, exact=False, err_exact=err_exact):
                    case['spec'] = {'sheets': [wbspec.sheet('S', {**BASE, **{c: 1 for c in CONDS}, a: f})]}
                    report(r, ID, classify(f, out, outs), case, out.brief(), outs, monitor='branch-reference')
                # laziness: canaries evaluated by the library but not by the lazy reference
                if mon and out.ok and not _IFONLY.search(f):
                    ref_touched = {wbspec.a1(rr, cc) for (_, rr, cc) in ev0.touched}
                    lib_touched = set()
                    for uid, src in mon.trace:
                        m = re.match(r'^_0_(\d+)_(\d+)$', uid)
                        if m:
                            lib_touched.add(wbspec.a1(int(m.group(2)) + 1, int(m.group(1)) + 1))
                    extra = (lib_touched & set(CANARY)) - ref_touched
                    r.count('laziness_traces_checked')
                    if extra:
                        case['spec'] = {'sheets': [wbspec.sheet('S', {**BASE, **{c: 1 for c in CONDS}, a: f})]}
                        report(r, ID, None, case, sorted(extra), 'cells of the untaken branch are not evaluated', monitor='untaken-branch-evaluated')
                hidden_fail = bool(re.search(r'1/0|E1|E2|"#|MONTH|YEAR|DAY|,5,|,5\)|\(99|"z"|,0,1|-1\)', f))
                if len(used) >= 2 or hidden_fail:
                    r.nt((f, repr(val)))
    r.sample({'formulas': [i[0] for i in items[:8]]})


LISTS = ['K5:L7', 'K5:K7', 'K6:L6', 'INDEX(K5:L7,0,1)', 'INDEX(K5:L7,0,2)', 'INDEX(K5:L7,2,0)', 'INDEX(K5:L7,3,0)', 'L5:L7', 'K5:L5']
AGGS = ['SUM', 'MAX', 'MIN', 'COUNT', 'AVERAGE']
LIST_FORMS = ['{g}(IFERROR({l},{fb}))', '{g}(IFERROR({l},{fb}),{n})', 'IF(C1,{g}(IFERROR({l},{fb})),-5)', 'IFERROR({g}(IFERROR({l},{fb}))/C2,"div")',
              '{g}(IFERROR({l},{fb}))+IFERROR(1/0,7)', 'IFS(C1,{g}(IFERROR({l},{fb})),C2,"second")', '{g}(IFERROR({l},{fb}),IFERROR(VLOOKUP(99,K1:L2,2,FALSE),{n}))',
              'IFERROR({g}(IFERROR({l},{fb})),"outer")', '{g}(IF(C1,IFERROR({l},{fb}),{n}))', 'IFERROR({g}({l}),{fb})']
LIST_CELLS = ['K5', 'L5', 'K6', 'L6', 'K7', 'L7']


def run_lists(ctx):
    """IFERROR whose first argument is a whole area or a row/column taken by INDEX, consumed by an aggregate: the value of the
    first argument is a list and, holding no error value, it is what IFERROR hands on."""
    from ..refcheck import judge_book
    r, rng = ctx.r, ctx.rng
    nb = 3 if ctx.tier == 'quick' else 24
    for b in range(nb):
        cells = dict(BASE)
        cells.update({'C1': 1, 'C2': 1})
        for i, c in enumerate(LIST_CELLS):
            cells[c] = (i + 1) * 3 + b
        targets = []
        for i in range(60):
            f = rng.choice(LIST_FORMS).format(g=rng.choice(AGGS), l=rng.choice(LISTS), fb=rng.choice(['0', '-1', '"fb"', 'N1']), n=rng.choice(['1', '4', 'N2']))
            cells[f'P{i + 1}'] = '=' + f
            targets.append((0, f'P{i + 1}'))
            r.count('context:list-in-aggregate')
        vals = [[]]
        for _ in range(5 if ctx.tier == 'quick' else 10):
            v = [(0, c, rng.choice([0, 1, 2.5, -4, 17, 100, None, None, 'x', '', '#N/A' if rng.random() < 0.15 else 8])) for c in LIST_CELLS if rng.random() < 0.8]
            v += [(0, 'C1', rng.choice([0, 1, True, False])), (0, 'C2', rng.choice([0, 1, 2]))]
            vals.append(v)
        judge_book(ctx, ID, wbspec.spec(wbspec.sheet('S', cells)), targets, vals, exact=False, name=f'l{b}', monitor='branch-reference',
                   strict_text=True, nontrivial=lambda case, outs: True)


COND_CELLS = ['K5', 'L5', 'K6', 'L6', 'K7', 'L7']
RICH_FORMS = [
    # conditions made by AND / OR over cells and areas that may hold blanks: a blank cell has no truth value
    'IF(AND(K5:L7),"all","not")', 'IF(OR(K5:K7),1,2)', 'IF(AND(C1,K5:L6),N1,N2)', 'IFS(AND(K5,L5),"a",OR(K6:L6),"b",TRUE,"c")', 'IF(OR(K5:L5,K7:L7),"some","none")',
    'IF(AND(K5:K7,L5:L7),1)', 'IFERROR(IF(AND(K6:L7),1/C2,"f"),"e")', 'IF(AND(K5,K6,K7),IF(OR(L5:L7),"x","y"),"z")', 'IF(AND(K5:L5),1,0)+IF(OR(K6:L6),10,0)+IF(AND(K7:L7),100,0)',
    # IFS stops at the first true condition: a later condition - also one that is nothing but a reference to a failing flag cell - is never looked at
    'IFS(C1,"first",E1,"second")', 'IFERROR(IFS(C1,"first",E1,"second"),"fallback")', 'IFS(C1,"first",E2,"x",TRUE,"y")&"!"', 'IFS(C2>0,N1,E1,N2,TRUE,N3)',
    'IF(C1,"t",E1)', 'IFS(C1,1,C2,E1,TRUE,3)', 'IFS(K5,"k",E1,"e")',
    # a product too large for a cell is an error value for IFERROR
    'IFERROR(Q1*10,"ovf")', 'IFERROR(Q1*10-Q1*10,"ovf")', 'IFERROR(Q1*Q2,0)', 'IF(IFERROR(Q1*Q2,-1)=-1,"o","f")', 'IFERROR(IFERROR(Q1*Q2,1/0),"both")', 'IFERROR(Q1*Q2*0,"nan")',
    'IFERROR((0-Q1)*Q2,"neg")', 'IFS(IFERROR(Q1*Q2,0)=0,"zero",TRUE,"fine")',
    # the difference of two dates is a number of days
    'IF(D2-D1>30,"late","ok")', 'IF(D2-D1=5,"five","other")', 'IFS(D2-D1<0,"neg",D2-D1<=30,"month",TRUE,"more")', 'IF(D1-D2>=0,1,2)', 'IFERROR(IF(D2-D1<>0,"diff","same"),"e")',
    'IF(D2-D1>C2,"gt","le")', 'IF(30<D2-D1,"late","ok")',
]


def run_conds(ctx):
    """conditions that are more than a cell: AND / OR over partly filled areas, products that overflow inside IFERROR, differences of dates"""
    import datetime as dt
    from ..refcheck import judge_book
    r, rng = ctx.r, ctx.rng
    nb = 3 if ctx.tier == 'quick' else 20
    d0 = dt.datetime(2024, 1, 1)
    for b in range(nb):
        cells = dict(BASE)
        cells.update({'C1': 1, 'C2': 1, 'Q1': 1e308, 'Q2': 10, 'D1': d0, 'D2': d0 + dt.timedelta(days=5)})
        for i, c in enumerate(COND_CELLS):
            cells[c] = 1
        targets = []
        for i, f in enumerate(RICH_FORMS):
            cells[f'P{i + 1}'] = '=' + f
            targets.append((0, f'P{i + 1}'))
            r.count('context:rich-condition')
        vals = [[]]
        for _ in range(12 if ctx.tier == 'quick' else 40):
            v = [(0, c, rng.choice([0, 1, 1, True, False, None, None, 2.5, -1])) for c in COND_CELLS if rng.random() < 0.85]
            v += [(0, 'C1', rng.choice([0, 1, True, False])), (0, 'C2', rng.choice([0, 1, 2, 30])),
                  (0, 'Q1', rng.choice([1e308, 1.7e308, 1e300, 5, -1e308, 1e154])), (0, 'Q2', rng.choice([10, 1e10, 0.1, 1e154, -10, 1])),
                  (0, 'D1', d0 + dt.timedelta(days=rng.randrange(0, 400))), (0, 'D2', d0 + dt.timedelta(days=rng.choice([0, 5, 30, 31, 200, 1000, rng.randrange(0, 400)])))]
            vals.append(v)
        judge_book(ctx, ID, wbspec.spec(wbspec.sheet('S', cells)), targets, vals, exact=False, name=f'rc{b}', monitor='branch-reference',
                   strict_text=True, nontrivial=lambda case, outs: True)
    r.sample({'rich_conditions': RICH_FORMS[:4] + RICH_FORMS[9:11] + RICH_FORMS[17:19]})


def run_areacond(ctx):
    """a condition that compares an AREA with a value (the array form {=SUM(IF(A1:A3>1,B1:B3,0))}): array evaluation is not supported, so
    the evaluation may fail or be refused - but when a value comes out it must be the value of the element-wise evaluation, never that of
    ONE truth value applied to the whole area"""
    r, rng = ctx.r, ctx.rng
    forms = [('=SUM(IF(K5:K7>{t},L5:L7,0))', lambda ks, ls, t: sum(l for k, l in zip(ks, ls) if k > t)),
             ('=SUM(IF(K5:K7<{t},L5:L7,0))', lambda ks, ls, t: sum(l for k, l in zip(ks, ls) if k < t)),
             ('=MAX(IF(K5:K7<={t},L5:L7,0))', lambda ks, ls, t: max([l for k, l in zip(ks, ls) if k <= t] + [0] * any(k > t for k in ks))),
             ('=SUM(IF({t}<K5:K7,L5:L7,0))', lambda ks, ls, t: sum(l for k, l in zip(ks, ls) if t < k))]
    for b in range(4 if ctx.tier == 'quick' else 30):
        ks = [rng.randrange(1, 9) for _ in range(3)]
        ls = [rng.randrange(10, 99) for _ in range(3)]
        cells = {'K5': ks[0], 'K6': ks[1], 'K7': ks[2], 'L5': ls[0], 'L6': ls[1], 'L7': ls[2]}
        exp = {}
        for i, (f, model) in enumerate(forms):
            t = rng.randrange(1, 9)
            cells[f'P{i + 1}'] = f.format(t=t)
            exp[f'P{i + 1}'] = model(ks, ls, t)
        spec = wbspec.spec(wbspec.sheet('S', cells))
        book = pipeline.Book(spec, ctx.workdir, name=f'ac{b}')
        for a, want in exp.items():
            out = book.value(0, a)
            r.ev()
            r.count('area_condition_checks')
            r.nt((cells[a], tuple(ks), tuple(ls)))
            if out.ok and not (isinstance(out.value, str) and out.value in ERROR_TEXTS) and not outcome_matches(out, [want]):
                report(r, ID, None, {'formula': cells[a], 'spec': spec, 'cell': a}, out.brief(), f'{want} (element by element), an error value or a failure',
                       monitor='area-condition-one-truth-value')
    r.sample({'area_conditions': [f for f, _ in forms]})


def run_deepstack(ctx):
    """IFERROR at the end of a long chain of dependent cells, asked from callers of different stack depth: the answer is the chain's value
    or a loud failure (RecursionError), never the fallback - the fallback would make the value depend on who asks"""
    import sys
    r = ctx.r
    for n in ((120, 150) if ctx.tier == 'quick' else (80, 100, 120, 150, 170, 190)):
        cells = {'A1': 1}
        for i in range(2, n + 1):
            cells[f'A{i}'] = f'=A{i - 1}+1'
        cells['B1'] = f'=IFERROR(A{n},"fallback")'
        cells['B2'] = f'=IF(IFERROR(A{n},-1)>0,"chain","fallback")'
        spec = wbspec.spec(wbspec.sheet('S', cells))
        book = pipeline.Book(spec, ctx.workdir, name=f'ds{n}')
        if book.cls is None:
            r.count('deepstack_translation_refused')
            continue
        inst = book.cls()

        def ask(uid, extra):
            if extra > 0:
                return ask(uid, extra - 1)
            return inst.exec_function_in(uid)

        limit = sys.getrecursionlimit()
        for uid, want in (('_0_1_0', n), ('_0_1_1', 'chain')):
            seen = set()
            for extra in (0, 100, 250, 400, 550, 700, 800, 850, 900, 930):
                if extra > limit - 60:
                    continue
                try:
                    got = ask(uid, extra)
                    kind = 'value'
                except RecursionError:
                    got, kind = None, 'RecursionError'
                except Exception as e:
                    got, kind = None, type(e).__name__
                r.ev()
                r.count('deepstack_queries')
                r.count('deepstack:' + kind)
                seen.add(kind)
                r.nt((n, uid, extra))
                if kind == 'value' and got != want:
                    report(r, ID, None, {'formula': cells['B1'] if uid.endswith('0') else cells['B2'], 'chain_rows': n, 'extra_frames': extra}, repr(got),
                           f'{want!r} or RecursionError', monitor='iferror-swallows-recursionerror')
            r.count('deepstack_outcome_kinds:' + '+'.join(sorted(seen)))
    r.sample({'deep_stack': '=IFERROR(A<n>,"fallback") over A1..A<n> = 1, A1+1, ...; asked with 0..930 extra caller frames'})


def run_threads(ctx):
    """IF / IFS / IFERROR cells over a small dependency chain, queried by several threads at once - through ONE Executor (a shared model
    object behind a web handler) and through an Executor per thread on one class: every value equals the single-threaded one; a failure
    inside another thread's bookkeeping must not become an IFERROR fallback"""
    from .. import threads as vthreads
    r = ctx.r
    cells = {'A1': 5, 'A2': 0, 'D1': -1}
    for i in range(1, 41):
        cells[f'B{i}'] = f'=A1*{i}+{i}' if i == 1 else f'=B{i - 1}+A1*{i}'
    # queries of very different length (a chain of 40 cells, a single cell): a short one starts and ends inside a long one and the other way round
    forms = ['=IFERROR(B40*10,D1+0)', '=IF(B36>0,"pos","neg")', '=IFERROR(B6*10,D1+0)', '=IF(B4>0,"pos","neg")', '=IFERROR(IF(B30>B29,B30-B29,1/0),-7)', '=IF(A1>0,1,2)', '=IFS(B3<0,"a",B5>100,"b",TRUE,"c")', '=IFERROR(B2/A2,"div")', '=IF(IFERROR(B7/A2,0)=0,B8,B9)',
             '=IFERROR(IF(B10>B9,B10-B9,1/0),-7)', '=IF(A2,"nz",IF(B12>B11,"up","down"))', '=IFERROR(VLOOKUP(99,B1:B5,1,FALSE),B5)', '=IFS(A2,1,B1,2)', '=IFERROR(IFERROR(1/A2,B6),"x")&"|"&B3']
    where = []
    for i, f in enumerate(forms):
        cells[f'F{i + 1}'] = f
        where.append((0, i + 1, 6))
    book = pipeline.Book(wbspec.spec(wbspec.sheet('S', cells)), ctx.workdir, name='thr')
    if book.cls is None:
        r.violation('translate', {'spec': 'threads'}, book.whole.brief(), 'a loadable class')
        return
    from ..xlref import evalr as _ev
    for shared in (True, False):
        res = vthreads.concurrent_queries(book.cls, where, threads=6, rounds=(1200 if ctx.tier == 'quick' else 8000), shared_executor=shared, seed=ctx.seed)
        key = 'one_executor' if shared else 'executor_per_thread'
        r.ev(res['queries'])
        r.counters[f'concurrent_queries:{key}'] = r.counters.get(f'concurrent_queries:{key}', 0) + res['queries']
        r.counters[f'overlapping_query_pairs:{key}'] = r.counters.get(f'overlapping_query_pairs:{key}', 0) + res['overlapping_pairs']
        r.nt(('threads', key))
        for (i, cell, got, want) in res['mismatches'][:5]:
            report(r, ID, None, {'formula': forms[cell[1] - 1], 'how': f'thread {i} of 6, {key.replace("_", " ")}'}, got, want, monitor='concurrent-evaluation')
        if res['unfinished']:
            r.inconcl('thread shard did not finish within its watchdog')
        if shared:
            # the single-threaded baseline itself is judged by the reference once
            env_ = _ev.Env(wbspec.spec(wbspec.sheet('S', cells)), {})
            for i, f in enumerate(forms):
                try:
                    outs, _ = _ev.outcomes(env_, 'S', f'F{i + 1}', strict_text=True)
                except (_ev.NoOpinion, ParseError, _ev.Cycle):
                    continue
                b = res['baseline'][(0, i + 1, 6)]
                o = pipeline.Outcome(pipeline.VALUE, eval(b[2])) if b[0] == 'V' else None
                if o is not None and not outcome_matches(o, outs, exact=False):
                    report(r, ID, None, {'formula': f, 'how': 'single-threaded baseline of the thread shard'}, b, outs, monitor='branch-reference')
    r.sample({'threads': 6, 'formulas': forms[:4]})


def classify(f, out, outs):
    return None


def _plan(tier, seed):
    n = 16
    return ([{'part': p, 'parts': n} for p in range(n)] + [{'lists': i} for i in range(2 if tier == 'quick' else 8)]
            + [{'conds': i} for i in range(2 if tier == 'quick' else 6)] + [{'areacond': 0}, {'deepstack': 0}] + [{'threads': i} for i in range(2 if tier == 'quick' else 6)])


def run_shard(shard, ctx):
    if isinstance(shard, dict) and 'mixed' in shard:
        from ..mixed import run_mixed
        return run_mixed(ctx, ID, shard['n'])
    import random
    if 'replay' in shard:
        c = shard['replay']
        from ..refcheck import replay_case
        return replay_case(ctx, ID, c, exact=False, strict_text=True)
    if 'lists' in shard:
        return run_lists(ctx)
    if 'conds' in shard:
        return run_conds(ctx)
    if 'areacond' in shard:
        return run_areacond(ctx)
    if 'deepstack' in shard:
        return run_deepstack(ctx)
    if 'threads' in shard:
        return run_threads(ctx)
    items = build_items(random.Random(ctx.seed), ctx.tier)
    mine = [it for i, it in enumerate(items) if i % shard['parts'] == shard['part']]
    run_items(ctx, mine, 'n')


def finish(r, tier, seed):
    return {'contexts': {k: v for k, v in r.counters.items() if k.startswith('context:')},
            'depths': {k: v for k, v in r.counters.items() if k.startswith('depth:')},
            'exhaustive': False, 'exhaustive_subspaces': ['all 125 skeletons of IF/IFS/IFERROR nests of depth <= 2 x 11 contexts x all truth assignments (<=32) of their condition cells']}


def plan(tier, seed):
    # 'mixed': nests over the whole function set that use at least one function of this property (vf/mixed.py)
    return _plan(tier, seed) + [{'mixed': k, 'n': 3 if tier == 'quick' else 60} for k in range(3 if tier == 'quick' else 8)]
