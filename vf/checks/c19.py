"""C19 - the safety gate reports exactly the Python-like cells.

Oracle by construction: suspicious texts are assembled from identifier(args-without-parens) fragments, so the expected
report (true sheet title + A1 address -> fragments) is known without re-implementing the library's regex."""
import datetime as dt

from openpyxl.utils import get_column_letter
from openpyxl.worksheet.formula import ArrayFormula

from .. import pipeline, wbspec
from ..findings import report
from ..instr import boundary

ID = 'C19'
LEVEL = 'exploration'
RULE = ('workbooks with 1-4 sheets (titles with blanks, digits, non-ASCII), 1-6 suspicious cells (lower-case identifier '
        'immediately followed by a parenthesised argument list, in constants and inside formulas, one or two fragments per '
        'cell) and 0-20 innocent cells (upper-case Excel calls, text with a blank before the bracket, numbers, dates) at random '
        '(sheet, column <= AAA, row <= 2000) - in particular row != position within its row; half of the suspicious texts repeated in '
        'the same row / same column / same address of another sheet; gate enabled and disabled on fresh parsers and toggled disabled -> enabled -> disabled on ONE parser; plus '
        'all-innocent workbooks. Non-trivial: a planted suspicious cell whose row differs from its 1-based position in the '
        'row and from 1; distinct by (workbook index, cell)')
ASSUMPTIONS = ['cells mixing upper-case calls and lower-case calls in one text are not generated (outside the precondition)',
               'openpyxl writes the cell where the generator says']
FLOORS = {'quick': {'evaluations': 300, 'nontrivial': 150, 'counters': {'safety_exceptions_seen': 100, 'innocent_accepted': 20}},
          'thorough': {'evaluations': 6000, 'nontrivial': 3000, 'counters': {'safety_exceptions_seen': 2000, 'innocent_accepted': 400}}}

IDENTS = ['eval', 'exec', 'system', 'open', '__import__', 'getattr', 'foo_bar', 'a1', 'print', 'compile', 'x', 'os_2',
          # names that END in capitals or digits: the tail of a name is no Excel function
          'getX', 'evAL', 'run_A', 'loadURL', 'toJSON', 'sha256_B2', 'aB', 'xSUM']
PREFIX = ['', '', 'os.', 'run ', 'x=', '__builtins__.', '1+', '"', "it's ",
          # brackets of the surrounding prose, closing ones before the first opening one included
          '1) ', ':) then ', 'a) b) ', ') ', '( ', '(( ', '] ) ', 'ok :( ', 'step 2) use ', '}) ', ')))']
ARGS = ['', '1', '1+1', 'a, b', "'ls -l'", '"rm"', 'x.y', '__name__', 'A1:B2', '1, 2, 3', '1,\n2', "\n'ls'\n", 'a,\n\tb']
# argument lists with bracket groups of their own: the cell has to be reported; which fragment text a (lazy or greedy) pattern cuts out of
# it is not fixed by the statement, so only the address is judged for these
NESTED_ARGS = ['(1+2)*3', '("ls")', '(1, 2)', 'a, (b)', '[1, (2)]', '((x))']
SUFFIX = ['', '', ' # c', '.x', ' + 1', ';', '"', ' (', ' )', ' :)', ' ((', ' ) (']
TITLES = ['S1', 'Data_2', 'my sheet', 'Лист1', '2024', 'a.b', 'Q (1)', 'x-y', 'T', 'Rates {2024}', 'a}b', '{{tpl}}', '{0}', '%s %(x)d', 'it''s', 'tab\there', '100%', '#ref', 'a,b;c']
INNOCENT = ['SUM(A1:A3)', 'hello (world)', 'IF(A1>1, "a", "b")', 'text', 'a (b) c', 42, 3.5, True, dt.datetime(2024, 5, 1),
            '=SUM(A1:A3)', '=IF(A1>1,"a","b")', '=A1+1', '=ROUND(A1,1)', 'MAX(1, 2) and MIN(3)', '()', 'f ()', '(x)', 'A(',
            # a number in front of a bracket is no identifier: phone numbers, quantities, implicit products
            'call 555(1234)', 'tel. 8(800)555-35-35', '2(3)', '100(ok)', '12 (pcs)', '3(a+b)', '7(8)9(10)', '=A1*(2)', '№5(б)',
            # upper-case function names with digits in them
            '=LOG10(100)', 'ATAN2(1,1)', '=DAYS360(A1,B1)', 'HEX2DEC("FF") and SUMX2MY2(A1:A2,B1:B2)', '=IF(LOG10(A1)>1,"a","b")', 'T2(1)']


def make_suspicious(rng, in_formula):
    n = 1 if rng.random() < 0.75 else 2
    parts, frags = [], []
    for _ in range(n):
        ident = rng.choice(IDENTS)
        nested = rng.random() < 0.15
        args = rng.choice(NESTED_ARGS) if nested else rng.choice(ARGS)
        pre = rng.choice(PREFIX)
        parts.append(pre + ident + '(' + args + ')')
        frags.append(None if nested else ident + '(' + args + ')')
    text = rng.choice([' ', ' and ', '; ']).join(parts) + rng.choice(SUFFIX)
    if in_formula:
        text = '=' + text
    elif rng.random() < 0.12:
        # a long note (a cell holds up to 32767 characters): the fragment stands far behind the start, or straddles a round offset
        filler = 'lorem ipsum dolor sit amet, ' * 1200
        at = rng.choice([255, 1024, 4096, 8190, 8192, 8200, 16384, 20000, 32000 - len(text)])
        body = text
        text = (filler[:at - rng.choice([0, 3, len(body) // 2])] + ' . ' + body + ' . ' + filler)[:32700]
        if body not in text:
            text = filler[:at] + ' . ' + body
    return text, frags


def make_workbook(rng, n_susp, n_inn):
    ns = rng.randrange(1, 5)
    titles = rng.sample(TITLES, ns)
    sheets = [{} for _ in range(ns)]
    planted = {}
    used = set()
    clones = []

    def place():
        while True:
            s = rng.randrange(ns)
            far = rng.random() < 0.08
            col = rng.randrange(1, 704) if far else rng.randrange(1, 40)
            row = rng.randrange(1, 2001) if rng.random() < 0.2 else rng.randrange(1, 60)
            if (s, row, col) not in used:
                used.add((s, row, col))
                return s, row, col
    for _ in range(n_susp):
        s, row, col = place()
        text, frags = make_suspicious(rng, rng.random() < 0.3)
        if text.startswith('=') and rng.random() < 0.4:
            # the same formula text entered as an array formula: openpyxl hands it over as an object carrying the text
            text = ArrayFormula(wbspec.a1(row, col), text)
        elif text.startswith('=') and rng.random() < 0.5:
            # ... or typed with a leading apostrophe: a TEXT cell whose text starts with = (it is scanned like any other text)
            text = wbspec.TextCell(text)
        sheets[s][wbspec.a1(row, col)] = text
        planted[(s, row, col)] = frags
    # the same suspicious text again: in the same row, in the same column, at the same address of another sheet
    # (a report keyed by value or by position-in-row would merge or misplace such cells)
    for (s, row, col), frags in list(planted.items()):
        if rng.random() < 0.5:
            continue
        text = sheets[s][wbspec.a1(row, col)]
        for _ in range(rng.randrange(1, 3)):
            mode = rng.choice(['row', 'row', 'col', 'sheet'])
            if mode == 'row':
                key = (s, row, rng.randrange(1, 40))
            elif mode == 'col':
                key = (s, rng.randrange(1, 60), col)
            else:
                key = (rng.randrange(ns), row, col)
            if key in used:
                continue
            used.add(key)
            sheets[key[0]][wbspec.a1(key[1], key[2])] = text
            planted[key] = frags
            clones.append(mode)
    for _ in range(n_inn):
        s, row, col = place()
        sheets[s][wbspec.a1(row, col)] = rng.choice(INNOCENT)
    for s in range(ns):
        sheets[s].setdefault('A1', 1)
    order = [wbspec.sheet(t, c) for t, c in zip(titles, sheets)]
    # chart tabs between the worksheets (a tab without cells: it must not shift the titles the report names) and hidden worksheets
    for i in range(rng.choice([0, 0, 1, 1, 2])):
        order.insert(rng.randrange(1, len(order) + 1), wbspec.sheet(f'Diagram{i}', chart=True))
    for sh in order[1:]:
        if not sh.get('chart') and rng.random() < 0.15:
            sh['state'] = rng.choice(['hidden', 'veryHidden'])
    spec = wbspec.spec(*order)
    expected = {f"'{titles[s]}'{get_column_letter(col)}{row}": frags for (s, row, col), frags in planted.items()}
    return spec, expected, planted, clones


def plan(tier, seed):
    n = 200 if tier == 'quick' else 5000
    parts = 8 if tier == 'quick' else 32
    return [{'n': n // parts} for _ in range(parts)]


def observe(spec, path_dir, name):
    from excel2pycl import E2PyclSafetyException
    import os
    os.makedirs(path_dir, exist_ok=True)
    path = os.path.join(path_dir, name + '.xlsx')
    wbspec.write(spec, path)
    if hash(name) % 2 == 0:
        on = pipeline.translate(path, safety=True)
        off = pipeline.translate(path, safety=False)
    else:
        # the same Parser object: first with the gate disabled, then enabled (no other setter in between), then disabled again -
        # the gate has to follow the switch, not the moment the workbook was first read
        p = pipeline.make_parser(path, safety=False)
        off = pipeline.guarded(lambda: p.get_translation(), 'translate')
        p.enable_safety_check()
        on = pipeline.guarded(lambda: p.get_translation(), 'translate')
        on.second = pipeline.guarded(lambda: p.get_translation(), 'translate') if on.kind == pipeline.LIB_EXC else None
        p.disable_safety_check()
        off2 = pipeline.guarded(lambda: p.get_translation(), 'translate')
        if off.ok and not (off2.ok and off2.value == off.value):
            off = off2
    # the same report has to arrive through write_translation - onto a fresh path and onto a path that already holds a translation
    # (of the harmless variant: gate disabled) - and the refused write must leave that file alone
    if on.kind == pipeline.LIB_EXC and off.ok:
        target = os.path.join(path_dir, name + '_out.py')
        for existing in (False, True):
            if existing:
                with open(target, 'w', encoding='utf-8') as f:
                    f.write(off.value)
            elif os.path.exists(target):
                os.remove(target)
            pw = pipeline.make_parser(path, safety=True)
            w = pipeline.guarded(lambda: pw.write_translation(target), 'translate')
            if not (w.kind == pipeline.LIB_EXC and isinstance(w.exc, E2PyclSafetyException) and isinstance(on.exc, E2PyclSafetyException)
                    and dict(w.exc.suspicious_cells) == dict(on.exc.suspicious_cells)):
                on.second = w if w.kind != pipeline.LIB_EXC or not isinstance(w.exc, E2PyclSafetyException) else pipeline.Outcome(
                    pipeline.VALUE, 'write_translation(existing=%s) reported %r' % (existing, dict(getattr(w.exc, 'suspicious_cells', {}))))
                break
            if existing:
                with open(target, encoding='utf-8') as f:
                    if f.read() != off.value:
                        on.second = pipeline.Outcome(pipeline.VALUE, 'the refused write_translation changed the existing file')
    return on, off, E2PyclSafetyException


def judge(r, spec, expected, planted, on, off, SafetyExc, idx):
    r.ev(2)
    case = {'spec': spec, 'expected_report': expected}
    if expected:
        if not (on.kind == 'LIB_EXC' and isinstance(on.exc, SafetyExc)):
            report(r, ID, None, case, on.brief(), 'E2PyclSafetyException', monitor='gate-rejects')
        else:
            r.count('safety_exceptions_seen')
            got = dict(on.exc.suspicious_cells)
            if set(got) != set(expected):
                report(r, ID, None, case, {'reported_cells': sorted(got)}, {'planted_cells': sorted(expected)}, monitor='gate-addresses')
            else:
                bad = {k: (got[k], expected[k]) for k in expected if None not in expected[k] and list(got[k]) != list(expected[k])}
                if bad:
                    report(r, ID, None, case, bad, 'planted fragments', monitor='gate-fragments')
        for (s, row, col) in planted:
            if row != 1 and row != col:
                r.nt((idx, s, row, col))
    else:
        if on.kind == 'LIB_EXC' and isinstance(on.exc, SafetyExc):
            report(r, ID, None, case, {'reported_cells': sorted(on.exc.suspicious_cells)}, 'accepted (only innocent cells)',
                   monitor='gate-innocent')
        else:
            r.count('innocent_accepted')
        r.nt((idx, 'innocent'))
    rep = pipeline.refusal_repeatable(on)
    if rep:
        report(r, ID, None, case, rep, 'the same safety exception with the same report (asked again / through write_translation)', monitor='gate-repeatable')
    if off.kind == 'LIB_EXC' and isinstance(off.exc, SafetyExc):
        report(r, ID, None, case, off.brief(), 'no safety exception with the gate disabled', monitor='gate-disabled')
    else:
        r.count('disabled_gate_silent')


def run_shard(shard, ctx):
    r, rng = ctx.r, ctx.rng
    if 'replay' in shard:
        c = shard['replay']
        spec, expected = c['spec'], c['expected_report']
        on, off, SE = observe(spec, ctx.workdir, 'replay')
        planted = {}
        return judge(r, spec, expected, planted, on, off, SE, 0)
    boundary.install(r)
    for i in range(shard['n']):
        innocent_only = rng.random() < 0.2
        n_s = 0 if innocent_only else rng.randrange(1, 7)
        spec, expected, planted, clones = make_workbook(rng, n_s, rng.randrange(0, 21))
        for m in clones:
            r.count('duplicate_text_clones:' + m)
        on, off, SE = observe(spec, ctx.workdir, f'w{i}')
        judge(r, spec, expected, planted, on, off, SE, (ctx.shard_index, i))
        if i == 0:
            r.sample({'sheets': [s['title'] for s in spec['sheets']], 'expected_report': expected})
