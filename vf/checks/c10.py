"""C10 - comparisons are exact and lawful.

Oracles: fractions.Fraction for numbers; the algebraic laws themselves (offline over the recorded grid of ordered
pairs) for texts, dates/date-times and blank; explicit table for the blank clauses."""
import datetime as dt
import re
from fractions import Fraction

from .. import pipeline, wbspec
from ..findings import report
from ..instr.runtime import RuntimeMonitor

ID = 'C10'
LEVEL = 'exploration'
RULE = ('all ordered pairs of one kind (numbers / texts / dates+date-times) from value grids x 6 operators, supplied '
        'as Executor overrides (dense), as workbook constants and as inline literals (sampled); blank-vs-X tables in '
        'both operand orders; every result recorded, then numbers checked against exact rational comparison and every '
        'kind against trichotomy, <> = not =, <= = not >, >= = not <, a<b iff b>a. A pair is non-trivial when the two '
        'operands are different grid entries (i != j); distinct = distinct (kind, i, j, supply)')
ASSUMPTIONS = ['fractions.Fraction(float) is the exact value of a double', 'texts: only the laws are asserted, not an ordering',
               'numeric-looking texts may be compared as numbers or as texts (statement silent) - laws only']
FLOORS = {'quick': {'evaluations': 30000, 'nontrivial': 4000, 'counters': {'law_checks': 4000, 'exact_checks': 10000}},
          'thorough': {'evaluations': 400000, 'nontrivial': 60000, 'counters': {'law_checks': 60000, 'exact_checks': 200000}}}

OPS = ['<', '=', '>', '<>', '<=', '>=']
PYOP = {'<': lambda a, b: a < b, '=': lambda a, b: a == b, '>': lambda a, b: a > b, '<>': lambda a, b: a != b,
        '<=': lambda a, b: a <= b, '>=': lambda a, b: a >= b}
CELLS = dict(zip(OPS, ['C2', 'D2', 'E2', 'F2', 'G2', 'H2']))

NUMS_Q = [0, 1, -1, 2, -2, 3, 9, 10, 99, 100, -100, 2 ** 53 - 1, 2 ** 53, 2 ** 53 + 1, -(2 ** 53) - 1,
          1.2, 1.5, -1.2, -1.5, 1.0, 1.9999999999999998, 2.0000000000000004, 0.1 + 0.2, 0.3, 0.30000000000000004,
          2.5, 2.4999, 0.5, -0.5, 0.49999999999999994, 1e-9, -1e-9, 5e-324, -5e-324, 0.0, -0.0, 1e15 + 0.5, 1e15,
          1e308, -1e308, 123.456, 123.4561, 99.99, 100.01, 7.25, 7.75, -7.25, -7.75, 0.001, 0.0011, 3.0, 3.14, 2.71,
          1e-3, 12345678.9, 12345678.91, 0.9999999999999999, 1.0000000000000002, 42, 42.5]
TEXTS_Q = ['', 'a', 'b', 'A', 'B', 'ab', 'aB', 'Ab', 'abc', 'abd', 'ABC', 'x', ' x', 'x ', 'Z', 'z', 'Я', 'я', 'é',
           '10', '9', '09', '1e3', '1000', '1.5', '1.50', 'nan', 'NaN', 'inf', '-inf', 'Infinity', 'TRUE', 'true',
           '0', '-5', '1_0', ' 7 ', 'a1', 'a10', 'a2', '#N/A?',
           # spellings only Python's int() / float() read as numbers: plain texts for a spreadsheet
           '1_0', '1_000', '\u0663', '\uff11\uff10', 'infinity', '1__0', '0x10', '1e1_0',
           # whole numbers of more digits than a double holds, written as texts (account numbers, ids): two of them that differ in the last digit differ
           '12345678901234567890', '12345678901234567891', '9007199254740993', '9007199254740992', '0012345678901234567890', '-12345678901234567890', '-12345678901234567891']
D0 = dt.datetime(2024, 1, 1)
DATES_Q = [D0, dt.date(2024, 1, 1), D0 + dt.timedelta(hours=1, minutes=10, seconds=10), dt.datetime(2024, 1, 1, 23, 59, 59),
           dt.datetime(2024, 1, 2), dt.date(2024, 1, 2), dt.datetime(2023, 12, 31, 23, 59, 59), dt.date(2023, 12, 31),
           dt.datetime(1900, 1, 1), dt.date(1900, 1, 1), dt.datetime(1999, 12, 31), dt.datetime(2000, 2, 29),
           dt.date(2000, 2, 29), dt.datetime(2000, 2, 29, 12), dt.datetime(2100, 3, 1), dt.date(2100, 3, 1),
           dt.datetime(2024, 2, 29), dt.datetime(2024, 2, 29, 0, 0, 1), dt.date(2024, 2, 29), dt.datetime(2024, 3, 1),
           dt.datetime(9999, 12, 31), dt.date(9999, 12, 31), dt.datetime(1970, 1, 1), dt.date(1970, 1, 1),
           dt.datetime(2024, 6, 15, 8, 30), dt.datetime(2024, 6, 15, 8, 30, 1), dt.date(2024, 6, 15),
           dt.datetime(2024, 12, 31), dt.date(2024, 12, 31), dt.datetime(2025, 1, 1)]


def grids(tier, rng):
    nums, texts, dates = list(NUMS_Q), list(TEXTS_Q), list(DATES_Q)
    if tier == 'thorough':
        while len(nums) < 200:
            k = rng.random()
            if k < 0.3:
                nums.append(rng.randrange(-1000, 1000))
            elif k < 0.7:
                ip = rng.choice([0, 1, 2, 7, 12, 123])
                nums.append(float(f'{rng.choice(["", "-"])}{ip}.{rng.randrange(10000):04d}'))
            else:
                nums.append(rng.uniform(-10, 10))
        al = 'aAbBzZ09 .-eЯ'
        while len(texts) < 120:
            texts.append(''.join(rng.choice(al) for _ in range(rng.randrange(1, 5))))
        while len(dates) < 80:
            d = D0 + dt.timedelta(days=rng.randrange(-800, 800), seconds=rng.choice([0, 0, 1, 3600, 86399]))
            dates.append(d if rng.random() < 0.6 else d.date())
    return {'num': nums, 'text': texts, 'date': dates}


def sem(kind, v):
    """semantic value used only to decide which laws/expectations apply"""
    if kind == 'num':
        return Fraction(v)
    if kind == 'date':
        return v if isinstance(v, dt.datetime) else dt.datetime(v.year, v.month, v.day)
    return v


def _plan(tier, seed):
    shards = []
    for kind, parts in (('num', 6), ('text', 3), ('date', 2)):
        for p in range(parts):
            shards.append({'kind': kind, 'part': p, 'parts': parts, 'supply': 'override'})
    shards.append({'kind': 'num', 'supply': 'placed', 'n': 1200 if tier == 'quick' else 12000})
    shards.append({'kind': 'text', 'supply': 'placed', 'n': 800 if tier == 'quick' else 8000})
    shards.append({'kind': 'blank', 'supply': 'table'})
    shards.append({'kind': 'date', 'supply': 'datecall'})
    shards.append({'kind': 'date', 'supply': 'datediff'})
    shards.append({'kind': 'date', 'supply': 'isodates', 'n': 2 if tier == 'quick' else 30})
    return shards


# rows 3-6: the SAME cell on both sides, spelled in different ways (reflexivity: = <= >= hold, < > <> do not, whatever the value)
SELF_FORMS = {3: 'A2{op}A2', 4: '$A$2{op}A2', 5: 'S1!A2{op}A$2', 6: "B2{op}'S1'!$B$2"}
SELF_CELLS = {(row, op): f'{c[0]}{row}' for row in SELF_FORMS for op, c in CELLS.items()}
# a negation written in the sheet (the library has no NOT): two comparisons in one formula group from the left, (A2 op B2)=FALSE
NEG_FORMS = {8: ('A2{op}B2=FALSE', True), 9: ('A2{op}B2<>TRUE', True), 10: ('A2{op}B2=TRUE', False), 11: ('(A2{op}B2)=(B2{op}A2)', None)}
NEG_CELLS = {(row, op): f'{c[0]}{row}' for row in NEG_FORMS for op, c in CELLS.items()}
SWEEP_SPEC = wbspec.spec(wbspec.sheet('S1', {'A2': 1, 'B2': 2, **{c: f'=A2{op}B2' for op, c in CELLS.items()},
                                             **{NEG_CELLS[(row, op)]: '=' + form.format(op=op) for row, (form, _) in NEG_FORMS.items() for op in OPS},
                                             **{SELF_CELLS[(row, op)]: '=' + form.format(op=op) for row, form in SELF_FORMS.items() for op in OPS}}))


def _as_bool(out):
    return out.value if out.ok and isinstance(out.value, bool) else None


_INTTXT = re.compile(r'\s*[+-]?\d+\s*', re.ASCII)
_NUMTXT = re.compile(r'\s*[+-]?(\d+\.?\d*|\.\d+)([eE][+-]?\d+)?\s*', re.ASCII)


def check_pair_laws(r, kind, a, b, res_ab, res_ba, case):
    """res_xy: dict op -> bool|None as observed"""
    r.count('law_checks')
    bad = []
    if any(v is None for v in res_ab.values()):
        bad.append('a comparison of two operands of one kind failed or did not return a boolean')
    else:
        if [res_ab['<'], res_ab['='], res_ab['>']].count(True) != 1:
            bad.append('trichotomy: not exactly one of <,=,> holds')
        if res_ab['<>'] != (not res_ab['=']):
            bad.append('<> is not the negation of =')
        if res_ab['<='] != (not res_ab['>']):
            bad.append('<= is not the negation of >')
        if res_ab['>='] != (not res_ab['<']):
            bad.append('>= is not the negation of <')
        if res_ba is not None and res_ba.get('>') is not None and res_ab['<'] != res_ba['>']:
            bad.append('a<b differs from b>a')
        if kind == 'text' and _INTTXT.fullmatch(a) and _INTTXT.fullmatch(b):
            # two texts that spell whole numbers compare as those whole numbers, however many digits they have
            if res_ab['='] != (int(a) == int(b)) or res_ab['<'] != (int(a) < int(b)):
                bad.append('two texts spelling whole numbers do not compare as these numbers')
        if kind == 'text' and res_ab['='] and a.casefold() != b.casefold() and not (_NUMTXT.fullmatch(a) and _NUMTXT.fullmatch(b)):
            # two numeric texts may be the same number in two spellings; a text that is no number equals only itself
            bad.append('two different texts, at least one of them no number, compare equal')
    return bad


def nan_text(v):
    if not isinstance(v, str):
        return False
    try:
        return float(v) != float(v)
    except ValueError:
        return False


def classify(kind, a, b, bad):
    """recogniser for recorded findings (by mechanism)"""
    if kind == 'text' and (nan_text(a) or nan_text(b)) and any('trichotomy' in x or 'negation' in x for x in bad):
        return 'KF-C10-nan-parsable-text'
    return None


def run_override(shard, ctx):
    r = ctx.r
    kind = shard['kind']
    vals = grids(ctx.tier, ctx.rng.__class__(ctx.seed))[kind]
    book = pipeline.Book(SWEEP_SPEC, ctx.workdir)
    if book.cls is None:
        r.violation('translate', {'spec': 'SWEEP_SPEC'}, book.whole.brief(), 'a loadable class')
        return
    mon = RuntimeMonitor(r)
    mon.install(book.cls)
    n = len(vals)
    results = {}
    rows = [i for i in range(n) if i % shard['parts'] == shard['part']]
    if 'only' in shard:
        rows = [shard['only'][0]]
    addrs = [CELLS[op] for op in OPS]

    def observe(i, j):
        outs = book.values(0, addrs, [(0, 'A2', vals[i]), (0, 'B2', vals[j])])
        r.ev(6)
        return {op: _as_bool(o) for op, o in zip(OPS, outs)}, outs

    for i in rows:
        cols = range(n) if 'only' not in shard else [shard['only'][1]]
        for j in cols:
            res, outs = observe(i, j)
            results[(i, j)] = res
            a, b = vals[i], vals[j]
            case = {'kind': kind, 'a': a, 'b': b, 'i': i, 'j': j, 'supply': 'override'}
            bad = []
            if kind in ('num', 'date'):
                fa, fb = sem(kind, a), sem(kind, b)
                for op in OPS:
                    r.count('exact_checks')
                    exp = PYOP[op](fa, fb)
                    if res[op] is not exp:
                        bad.append(f'{op}: observed {outs[OPS.index(op)].brief()}, exact comparison gives {exp}')
            # swapped pair: evaluated here too unless it belongs to this shard's rows anyway
            res_ba = results.get((j, i))
            if res_ba is None and i != j:
                res_ba, _ = observe(j, i)
            bad += check_pair_laws(r, kind, a, b, res, res_ba, case)
            if (i + j) % 3 == 0 or i == j:
                # the same cell on both sides of the operator, on the same instance, for this pair of values
                keys = sorted(SELF_CELLS)
                so = book.values(0, [SELF_CELLS[k] for k in keys], [(0, 'A2', vals[i]), (0, 'B2', vals[j])])
                r.ev(len(keys))
                r.count('reflexive_checks', len(keys))
                for (row, op), o in zip(keys, so):
                    if _as_bool(o) is not EQ_ROW[op] and not (kind == 'text' and nan_text(vals[i] if row < 6 else vals[j])):
                        bad.append(f'reflexivity: {SELF_FORMS[row].format(op=op)} gives {o.brief()}')
            if (i * 7 + j) % 4 == 0 and all(v is not None for v in res.values()):
                keys = sorted(k for k in NEG_CELLS if k[0] != 11)
                so = book.values(0, [NEG_CELLS[k] for k in keys], [(0, 'A2', vals[i]), (0, 'B2', vals[j])])
                r.ev(len(keys))
                r.count('negation_in_sheet_checks', len(keys))
                for (row, op), o in zip(keys, so):
                    want = (not res[op]) if NEG_FORMS[row][1] else res[op]
                    if _as_bool(o) is not want:
                        bad.append(f'{NEG_FORMS[row][0].format(op=op)} gives {o.brief()} although A2{op}B2 is {res[op]}')
            if bad:
                report(r, ID, classify(kind, a, b, bad), case, {op: res[op] for op in OPS}, bad[:4], monitor='compare-laws')
            if i != j:
                r.nt((kind, i, j, 'override'))
    r.sample({'kind': kind, 'pair': [vals[rows[0]], vals[min(3, n - 1)]], 'ops': OPS})


def lit(kind, v):
    if kind == 'num':
        return repr(v)
    return '"' + v + '"'


def run_placed(shard, ctx):
    """same pairs as workbook constants and as inline literals"""
    r, rng = ctx.r, ctx.rng
    kind = shard['kind']
    vals = grids(ctx.tier, rng.__class__(ctx.seed))[kind]
    if kind == 'num':
        lit_ok = [v for v in vals if v >= 0 and 'e' not in repr(v) and repr(v) != '-0.0']
    else:
        lit_ok = [v for v in vals if '"' not in v and '?' not in v and '*' not in v]
    # a workbook stores doubles written with 15-16 significant digits: only values that survive that are placed
    cell_ok = [v for v in vals if kind != 'num' or (abs(v) < 2 ** 53 and float(f'{v:.15g}') == v)]
    todo, bi = shard['n'], 0
    while todo > 0:
        cells, meta = {}, []
        for row in range(1, 61):
            a, b = (rng.choice(cell_ok), rng.choice(cell_ok))
            la, lb = rng.choice(lit_ok), rng.choice(lit_ok)
            op = rng.choice(OPS)
            if a != '':
                cells[f'A{row}'] = a
            if b != '':
                cells[f'B{row}'] = b
            cells[f'C{row}'] = f'=A{row}{op}B{row}'
            cells[f'D{row}'] = f'={lit(kind, la)}{op}{lit(kind, lb)}'
            meta.append((row, op, a, b, la, lb))
        book = pipeline.Book(wbspec.spec(wbspec.sheet('S1', cells)), ctx.workdir, name=f'p{bi}')
        bi += 1
        r.count('placed_books:' + book.mode)
        for (row, op, a, b, la, lb) in meta:
            for how, cell, x, y in (('cell', f'C{row}', a, b), ('literal', f'D{row}', la, lb)):
                if how == 'cell' and kind == 'text' and ('' in (x, y)):
                    continue  # an empty text constant is stored as a blank cell: that is the blank table's business
                out = book.value(0, cell)
                r.ev()
                got = _as_bool(out)
                case = {'kind': kind, 'a': x, 'b': y, 'op': op, 'supply': how, 'formula': cells[cell]}
                if kind == 'num':
                    r.count('exact_checks')
                    # a literal (like a workbook cell) denotes the double nearest to its decimal text: 2^53+1 written out IS 2^53;
                    # Python ints supplied through overrides stay exact (that is the override shard's business)
                    fx, fy = ((float(x), float(y)) if how == 'literal' else (x, y))
                    exp = PYOP[op](Fraction(fx), Fraction(fy))
                    if got is not exp:
                        report(r, ID, None, case, out.brief(), exp, monitor='exact-rational')
                else:
                    if got is None:
                        report(r, ID, None, case, out.brief(),
                               'a boolean', monitor='compare-laws')
                    elif x == y and got is not PYOP[op](0, 0):
                        # identical operands: = <= >= must be TRUE, the others FALSE
                        report(r, ID, classify(kind, x, y, ['trichotomy']), case, out.brief(), PYOP[op](0, 0),
                               monitor='compare-laws')
                if x != y:
                    r.nt((kind, repr(x), repr(y), op, how))
        todo -= 60
    r.sample({'placed': [cells['C1'], cells.get('A1'), cells.get('B1'), cells['D1']]})


BLANK_X = {
    'zero': [0, 0.0], 'empty_text': [''], 'false': [False],
    'positive': [1, 0.5, 5e-324, 1e308, 2 ** 53 + 1], 'text': ['a', 'A', ' ', 'abc', 'Я', '0x', 'z'],
    'numeric_text': ['5', '0.5', '1e3'], 'neg_numeric_text': ['-5'],
    'date': [dt.datetime(1900, 1, 1), dt.datetime(2024, 1, 1), dt.date(2024, 1, 1), dt.datetime(2024, 1, 1, 12), dt.datetime(9999, 12, 31),
             # "every date": also the ones no workbook cell can hold (serial 0 and below), reachable by overrides and by date arithmetic
             dt.datetime(1899, 12, 31), dt.datetime(1899, 12, 30), dt.datetime(1899, 12, 29), dt.datetime(1850, 6, 15), dt.date(1600, 2, 29), dt.datetime(1, 1, 1)],
}
EQ_ROW = {'<': False, '=': True, '>': False, '<>': False, '<=': True, '>=': True}
LT_ROW = {'<': True, '=': False, '>': False, '<>': True, '<=': True, '>=': False}
GT_ROW = {'<': False, '=': False, '>': True, '<>': True, '<=': False, '>=': True}


def run_blank(shard, ctx):
    """A3/A4 are never written (blank). B2 is swept by overrides; also literal spellings =A3=0, =A3="", =A3=FALSE."""
    r = ctx.r
    cells = {'B2': 1}
    col = 3
    fwd, bwd, bb = {}, {}, {}
    for op in OPS:
        fwd[op] = wbspec.a1(5, col); cells[fwd[op]] = f'=A3{op}B2'
        bwd[op] = wbspec.a1(6, col); cells[bwd[op]] = f'=B2{op}A3'
        bb[op] = wbspec.a1(7, col); cells[bb[op]] = f'=A3{op}A4'
        col += 1
    lits = {'K1': ('=A3=0', True), 'K2': ('=A3=""', True), 'K3': ('=A3=FALSE', True), 'K4': ('=0=A3', True),
            'K5': ('=A3<1', True), 'K6': ('=A3<"a"', True), 'K7': ('=A3>0', False), 'K8': ('=A3<>0', False),
            'K9': ('=A3<0.5', True), 'K10': ('=1>A3', True), 'K11': ('=A3=FALSE()', True), 'K12': ('=A3<>""', False)}
    for k, (f, _) in lits.items():
        cells[k] = f
    book = pipeline.Book(wbspec.spec(wbspec.sheet('S1', cells)), ctx.workdir)
    if book.cls is None:
        r.count('blank_book_per_cell')
    for k, (f, exp) in lits.items():
        out = book.value(0, k)
        r.ev()
        r.count('blank_clause_checks')
        if _as_bool(out) is not exp:
            report(r, ID, None, {'kind': 'blank', 'formula': f}, out.brief(), exp, monitor='blank-table')
        r.nt(('blank-lit', f))
    for op in OPS:
        out = book.value(0, bb[op])
        r.ev()
        if _as_bool(out) is not EQ_ROW[op]:
            report(r, ID, None, {'kind': 'blank', 'formula': f'=A3{op}A4'}, out.brief(), EQ_ROW[op], monitor='blank-table')
    for cls, xs in BLANK_X.items():
        for x in xs:
            exp_f = EQ_ROW if cls in ('zero', 'empty_text', 'false') else LT_ROW
            exp_b = EQ_ROW if cls in ('zero', 'empty_text', 'false') else GT_ROW
            for table, exp, sp in ((fwd, exp_f, 'blank op x'), (bwd, exp_b, 'x op blank')):
                outs = book.values(0, [table[op] for op in OPS], [(0, 'B2', x)])
                r.ev(6)
                r.count('blank_clause_checks', 6)
                got = {op: _as_bool(o) for op, o in zip(OPS, outs)}
                if got != exp:
                    # recogniser: input class + outcome predicted by the defect model "numeric-looking text is a number"
                    tag = None
                    if cls == 'neg_numeric_text':
                        pred = {op: (PYOP[op](0, float(x)) if sp == 'blank op x' else PYOP[op](float(x), 0)) for op in OPS}
                        if got == pred:
                            tag = 'KF-C10-blank-vs-negative-numeric-text'
                    report(r, ID, tag, {'kind': 'blank', 'x': x, 'class': cls, 'order': sp}, got, exp, monitor='blank-table')
            r.nt(('blank', cls, repr(x)))
    r.sample({'blank_vs': BLANK_X['positive'][:2] + BLANK_X['text'][:2], 'formulas': ['=A3<B2', '=B2>A3', '=A3=""']})


def run_datecall(shard, ctx):
    """a DATE(...) / TODAY() call as DIRECT operand of a comparison, the other operand a cell holding a date-time, a plain date
    (overrides may be datetime.date objects), or a blank cell: the same exact ordering, 'date = its midnight date-time' and
    'blank is smaller than every date' as for two cells"""
    r = ctx.r
    D = dt.datetime(2024, 1, 15)
    cells = {'A2': dt.datetime(2024, 1, 15)}
    col = 3
    f1, f2, b1, b2, t1 = {}, {}, {}, {}, {}
    for op in OPS:
        f1[op] = wbspec.a1(5, col); cells[f1[op]] = f'=A2{op}DATE(2024,1,15)'
        f2[op] = wbspec.a1(6, col); cells[f2[op]] = f'=DATE(2024;1;15){op}A2'
        b1[op] = wbspec.a1(7, col); cells[b1[op]] = f'=A3{op}DATE(2024,1,15)'
        b2[op] = wbspec.a1(8, col); cells[b2[op]] = f'=DATE(2024,1,15){op}A3'
        t1[op] = wbspec.a1(9, col); cells[t1[op]] = f'=A3{op}TODAY()'
        col += 1
    book = pipeline.Book(wbspec.spec(wbspec.sheet('S1', cells)), ctx.workdir, name='datecall')
    xs = [dt.datetime(2024, 1, 15), dt.date(2024, 1, 15), dt.datetime(2024, 1, 15, 0, 0, 1), dt.datetime(2024, 1, 14, 23, 59, 59), dt.date(2024, 1, 14),
          dt.date(2024, 1, 16), dt.datetime(2023, 12, 31), dt.date(2025, 2, 28), dt.datetime(2024, 1, 15, 12, 0), dt.date(1999, 12, 31)]
    for x in xs:
        sx = sem('date', x)
        for table, order in ((f1, 'cell op DATE()'), (f2, 'DATE() op cell')):
            outs = book.values(0, [table[op] for op in OPS], [(0, 'A2', x)])
            got = {op: _as_bool(o) for op, o in zip(OPS, outs)}
            exp = {op: (PYOP[op](sx, D) if order.startswith('cell') else PYOP[op](D, sx)) for op in OPS}
            r.ev(6)
            r.count('date_call_operand_checks', 6)
            if got != exp:
                report(r, ID, None, {'kind': 'datecall', 'x': x, 'order': order, 'type': type(x).__name__}, got, exp, monitor='date-call-operand')
            r.nt(('datecall', repr(x), order))
    for table, exp, order in ((b1, LT_ROW, 'blank op DATE()'), (b2, GT_ROW, 'DATE() op blank'), (t1, LT_ROW, 'blank op TODAY()')):
        outs = book.values(0, [table[op] for op in OPS], None)
        got = {op: _as_bool(o) for op, o in zip(OPS, outs)}
        r.ev(6)
        r.count('date_call_operand_checks', 6)
        if got != exp:
            report(r, ID, None, {'kind': 'datecall', 'x': 'blank', 'order': order}, got, exp, monitor='date-call-operand')
        r.nt(('datecall', 'blank', order))
    r.sample({'date_call_operands': [cells[f1['<']], cells[b1['<']], cells[t1['>=']]]})


def run_isodates(shard, ctx):
    """dates as CELLS of a workbook that stores them in ISO 8601 form (date-only cells are read back as datetime.date): date-only
    against date-time cells and overrides, exact order, a date equals the date-time at its midnight"""
    r, rng = ctx.r, ctx.rng
    days = [D0.date() + dt.timedelta(days=k) for k in (-1, 0, 0, 1, 30, 366, -400)]
    moments = [D0 + dt.timedelta(days=k, seconds=s_) for k in (-1, 0, 1, 30) for s_ in (0, 1, 43200, 86399)]
    for b in range(shard.get('n', 2)):
        cells, where = {}, []
        for i in range(1, 13):
            a, bb = rng.choice(days), rng.choice(moments + days)
            cells[f'A{i}'], cells[f'B{i}'] = a, bb
            for k, op in enumerate(OPS):
                for (x, y, tag) in ((f'A{i}', f'B{i}', 'ab'), (f'B{i}', f'A{i}', 'ba')):
                    addr = wbspec.a1(i, 4 + 2 * k + (tag == 'ba'))
                    cells[addr] = f'={x}{op}{y}'
                    where.append((addr, op, x, y))
        spec = wbspec.spec(wbspec.sheet('S1', cells))
        spec['iso_dates'] = True
        book = pipeline.Book(spec, ctx.workdir, name=f'iso{b}')
        r.count('iso_date_books')
        for val in ([], [(0, f'A{rng.randrange(1, 13)}', rng.choice(moments)) for _ in range(3)], [(0, f'B{rng.randrange(1, 13)}', rng.choice(days)) for _ in range(3)]):
            cur = {**{k: v for k, v in cells.items() if not isinstance(v, str)}, **{a: v for (_, a, v) in val}}
            outs = book.values(0, [w[0] for w in where], val)
            for (addr, op, x, y), o in zip(where, outs):
                r.ev()
                r.count('exact_checks')
                exp = PYOP[op](sem('date', cur[x]), sem('date', cur[y]))
                if _as_bool(o) is not exp:
                    report(r, ID, None, {'kind': 'isodates', 'formula': cells[addr], 'left': cur[x], 'right': cur[y], 'overrides': val, 'spec': spec}, o.brief(), exp,
                           monitor='compare-laws')
                r.nt(('iso', b, addr, len(val)))


def run_datediff(shard, ctx):
    """the difference of two date-times is a NUMBER (of days, with the time of day as its fraction): compared with a number it obeys the
    same exact law as any other number - down to the milliseconds a workbook cell keeps and the microseconds an override may carry"""
    r, rng = ctx.r, ctx.rng
    base = dt.datetime(2024, 3, 1, 8, 0, 0)
    offsets = [dt.timedelta(0), dt.timedelta(microseconds=400000), dt.timedelta(milliseconds=1), dt.timedelta(seconds=1), dt.timedelta(hours=12),
               dt.timedelta(hours=12, milliseconds=1), dt.timedelta(days=1), dt.timedelta(days=1, microseconds=500000), dt.timedelta(days=5),
               dt.timedelta(hours=6), dt.timedelta(days=2, hours=18), -dt.timedelta(milliseconds=250), -dt.timedelta(days=1, hours=12), dt.timedelta(microseconds=1)]
    numbers = [0, 0.5, 1, 0.25, 5, -1.5, 2.75, 1e-9, -0.25]
    cells = {'A2': base, 'B2': base + dt.timedelta(hours=12), 'C2': 0.5}
    forms = {}
    for i, op in enumerate(OPS):
        forms[f'E{i + 1}'] = f'=(B2-A2){op}C2'
        forms[f'F{i + 1}'] = f'=C2{op}(B2-A2)'
        forms[f'G{i + 1}'] = f'=B2-A2{op}C2'
    cells.update(forms)
    book = pipeline.Book(wbspec.spec(wbspec.sheet('S1', cells)), ctx.workdir, name='ddiff')
    for td in offsets:
        for c in numbers:
            ov = [(0, 'B2', base + td), (0, 'C2', c)]
            days = Fraction(td.days) + Fraction(td.seconds, 86400) + Fraction(td.microseconds, 86400 * 10 ** 6)
            # the library turns the difference into the double nearest to the number of days: a comparison is decided unless the two
            # sides are closer than that rounding
            if days != Fraction(c) and abs(days - Fraction(c)) < Fraction(1, 10 ** 10):
                continue
            outs = book.values(0, list(forms), ov)
            for (addr, f), out in zip(forms.items(), outs):
                op = OPS[int(addr[1:]) - 1]
                left_is_diff = addr[0] in 'EG'
                exp = PYOP[op](days, Fraction(c)) if left_is_diff else PYOP[op](Fraction(c), days)
                r.ev()
                r.count('date_difference_checks')
                got = _as_bool(out)
                if td.microseconds:
                    r.nt(('datediff', str(td), c, addr))
                if got is not exp:
                    report(r, ID, None, {'kind': 'datediff', 'formula': f, 'a': base, 'b': base + td, 'c': c, 'op': op}, out.brief(), exp, monitor='exact-rational')
    r.sample({'date_differences': [str(o) for o in offsets[:6]], 'against': numbers})


def run_shard(shard, ctx):
    if isinstance(shard, dict) and 'mixed' in shard:
        from ..mixed import run_mixed
        return run_mixed(ctx, ID, shard['n'])
    if shard.get('supply') == 'isodates':
        return run_isodates(shard, ctx)
    if 'replay' in shard:
        c = shard['replay']
        if c.get('kind') == 'isodates':
            return run_isodates({'n': 2}, ctx)
        if c.get('kind') == 'datecall':
            return run_datecall({}, ctx)
        if c.get('kind') == 'datediff':
            return run_datediff({}, ctx)
        if c.get('kind') == 'blank':
            return run_blank({}, ctx)
        if c.get('supply') == 'override':
            return run_override({'kind': c['kind'], 'part': 0, 'parts': 1, 'only': (c['i'], c['j'])}, ctx)
        return run_placed({'kind': c['kind'], 'n': 600}, ctx)
    if shard['supply'] == 'override':
        run_override(shard, ctx)
    elif shard['supply'] == 'placed':
        run_placed(shard, ctx)
    elif shard['supply'] == 'datecall':
        run_datecall(shard, ctx)
    elif shard['supply'] == 'datediff':
        run_datediff(shard, ctx)
    else:
        run_blank(shard, ctx)


def finish(r, tier, seed):
    return {'helper_calls': {k: v for k, v in r.counters.items() if k.startswith('helper:')},
            'exhaustive': False,
            'exhaustive_subspaces': ['all ordered pairs of the listed value grids (numbers, texts, dates) x 6 operators via overrides']}


def plan(tier, seed):
    # 'mixed': operators and comparisons over the results of functions (vf/mixed.py)
    return _plan(tier, seed) + [{'mixed': k, 'n': 3 if tier == 'quick' else 60} for k in range(2 if tier == 'quick' else 8)]
