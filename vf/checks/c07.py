"""C07 - workbook text never becomes executable code.

Monitors: (a) token/AST monitor on the generated source: every planted string carries a unique marker, which may
only occur inside STRING tokens, and the module must parse; (b) sys.addaudithook armed while the module is loaded
and cells are evaluated + harmless canary side effects that an injected payload would trigger; (c) round trip of
constant text cells and plain literals."""
import ast
import builtins
import io
import os
import sys
import tokenize

from .. import pipeline, wbspec
from ..findings import report

ID = 'C07'
LEVEL = 'exploration'
RULE = ('strings over an alphabet with \' " \\ newline tab # { } % ( ) , ; * ? ~ = + and Python call syntax (length 0-40, each with a '
        'unique marker, a third of them carrying a payload that creates a canary file or sets a builtin when executed) placed in: '
        'constant cells, plain formula literals, literals inside LEFT/CONCATENATE/IF, criterion position of SUMIF/SUMIFS/COUNTIFS/'
        'AVERAGEIFS (plain, operator-prefixed, &-assembled), wildcard-pattern position incl. a wildcard literal followed by further '
        'literals, whole-formula payloads, and sheet titles; safety check off and on. Non-trivial: a string containing at least '
        'one of \' " \\ newline { } # or a payload; distinct by (string, placement)')
ASSUMPTIONS = ['CPython audit events cover the side effects of interest (os.system, subprocess, open for writing, exec/compile/import, socket, ctypes)',
               'payloads are harmless (touch a canary file inside the work directory / set a builtins attribute)']
FLOORS = {'quick': {'evaluations': 2000, 'nontrivial': 1200, 'counters': {'audit_events_seen': 1000, 'sources_tokenized': 300, 'round_trips': 500}},
          'thorough': {'evaluations': 50000, 'nontrivial': 30000, 'counters': {'audit_events_seen': 20000, 'sources_tokenized': 6000, 'round_trips': 10000}}}

ALPHA = list('\'"\\\n\t#{}%(),;*?~=+ -.:!$&<>|/[]@^`') + list('abXY019_') + ['""', "''", '\\\\', '{0}', '{titles}', '{functions}', '%s', '\\n', '\\x41', "\\'", '__', ' or ', '#!']
# modules the runtime helpers import lazily on first use (datetime.strptime -> _strptime, dateutil's parser tables): loaded here, so
# that an import (marshal.loads + exec of a standard-library module) does not happen inside an armed window
import _strptime  # noqa: E402,F401
import dateutil.parser  # noqa: E402,F401
import dateutil.relativedelta  # noqa: E402,F401
import calendar  # noqa: E402,F401
import decimal  # noqa: E402,F401
import locale  # noqa: E402,F401
__import__("datetime").datetime.strptime("2024-01-31", "%Y-%m-%d")
dateutil.parser.parse('2024-01-31')

ALLOW_IMPORT = ('datetime', 'dateutil', 'math', 'typing', 'calendar', 're', 'itertools', 'decimal', 'string', '_strptime', 'time', 'locale',
                'encodings', 'six', 'collections', 'functools', 'operator', 'enum', 'abc', 'sre_', '_', 'warnings', 'fractions', 'numbers', 'copy',
                'bisect', 'heapq', 'keyword', 'reprlib', 'types', 'weakref', 'contextlib', 'zoneinfo', 'importlib', 'struct', 'tzdata', 'sysconfig', 'os', 'posixpath', 'stat', 'genericpath', 'io', 'sys')
DENY_PREFIX = ('os.system', 'os.exec', 'os.posix_spawn', 'os.spawn', 'os.fork', 'subprocess.', 'socket.', 'ctypes.', 'shutil.', 'os.remove', 'os.rename',
               'os.mkdir', 'os.rmdir', 'os.chmod', 'os.chown', 'os.kill', 'os.putenv', 'os.unsetenv', 'webbrowser.', 'urllib.', 'ftplib.', 'smtplib.', 'http.', 'pty.',
               'builtins.input', 'os.symlink', 'os.link', 'os.truncate', 'tempfile.', 'glob.', 'os.listdir', 'os.scandir', 'marshal.', 'pickle.', 'code.', 'setattr')


class Audit:
    inst = None

    def __init__(self, r):
        self.r = r
        self.armed = None       # None | 'load' | 'evaluate'
        self.bad = []
        self.execs = 0
        sys.addaudithook(self.hook)

    def hook(self, event, args):
        if self.armed is None:
            return
        self.r.counters['audit_events_seen'] += 1
        why = None
        if event.startswith(DENY_PREFIX):
            why = 'denied event'
        elif event == 'open':
            mode = args[1] if len(args) > 1 else None
            if isinstance(mode, str) and any(c in mode for c in 'wax+'):
                why = 'open for writing'
        elif event == 'import':
            mod = args[0]
            if not any(mod == a or mod.startswith(a + '.') or (a.endswith('_') and mod.startswith(a)) for a in ALLOW_IMPORT):
                why = 'import outside the allow-list'
        elif event in ('exec', 'compile'):
            if self.armed == 'evaluate':
                why = 'exec/compile while evaluating a cell'
            elif event == 'exec':
                self.execs += 1
                if self.execs > 1:
                    why = 'more than the one exec of the module under test'
        if why and len(self.bad) < 20:
            self.bad.append({'event': event, 'args': repr(args)[:120], 'why': why, 'phase': self.armed})

    def window(self, phase):
        a = self

        class W:
            def __enter__(self_):
                a.armed, a.execs = phase, 0

            def __exit__(self_, *e):
                a.armed = None
        return W()


def gen_string(rng, idx, canary_dir):
    marker = f'MK{idx:05d}'
    n = rng.randrange(0, 12)
    body = ''.join(rng.choice(ALPHA) for _ in range(n))
    if rng.random() < 0.25:
        # fragments with a meaning of their own somewhere on the way to the class text: template placeholders, format fields,
        # characters outside the BMP (a JSON-style escape would split them), BOM, line separators
        frag = rng.choice(['{titles}', '{sheets_size}', '{functions}', '{0}', '{name}', '%(x)s', '\U0001F680', '\U0001D518', '\ufeff', '\u2028', '\u0085',
                           '\\u0041', '\\N{BULLET}',
                           # words that mean something to the file format, to Excel or to the generated class - inside a text they mean nothing
                           '_xlfn.', '_xlfn.IFS(', '_xlws.', '_xludf.', '_xlpm.x', 'self.', '_cell_preprocessor', 'EmptyCell()', 'lambda: ', 'return ', 'def _0_0_0',
                           'TRUE', 'FALSE', 'R1C1', 'Sheet1!A1', '$A$1', '#REF!', '&amp;', '&lt;b&gt;', '[#This Row]', '@A1', 'A1:B2', 'SUM(A1)', '=A1', ' AND ', 'C:\\Users\\x',
                           '\\Ufoo', '\\x4', "'''", '"""'])
        cut = rng.randrange(0, len(body) + 1)
        body = body[:cut] + frag + body[cut:]
    payload = None
    k = rng.random()
    canary = os.path.join(canary_dir, f'CANARY_{idx}')
    if k < 0.12:
        payload = f"'+__import__('os').system('touch {canary}')+'"
    elif k < 0.2:
        payload = f"'+str(open('{canary}','w'))+'"
    elif k < 0.26:
        payload = f"\\'+str(setattr(__import__('builtins'),'PWNED_{idx}',1))+\\'"
    elif k < 0.30:
        payload = f"'''+str(setattr(__import__('builtins'),'PWNED_{idx}',1))+'''"
    elif k < 0.34:
        payload = f"\\\n__import__('os').system('touch {canary}')\n#"
    elif k < 0.40:
        # closes a literal of either quote style and comments the rest of the line out
        payload = rng.choice(["'", '"', "'''"]) + f"+str(setattr(__import__('builtins'),'PWNED_{idx}',1))#"
    elif k < 0.43:
        payload = rng.choice(["'", '"']) + f"+str(open('{canary}','w'))#" + rng.choice(["'", '"', ''])
    elif k < 0.50:
        # a bare expression (no quote to close): harmless unless some helper evaluates the text itself
        payload = rng.choice(['', '+', '-0+', '*', ' and ', ' if ']) + rng.choice([f"(setattr(__import__('builtins'),'PWNED_{idx}',1) is None)",
                                                                                   f"(__import__ ('os').mkdir ('{canary}') is None)", f"open('{canary}','w').close()"])
    pos = rng.randrange(0, len(body) + 1)
    s = body[:pos] + marker + (payload or '') + body[pos:]
    if rng.random() < 0.06:
        s = '=' + s          # a text that looks like a formula (as a constant it is written as a text cell)
    return s, marker, idx, payload is not None


def q(s):
    """Excel spelling of a text literal (quotes doubled)"""
    return '"' + s.replace('"', '""') + '"'


PLACEMENTS = ['const', 'literal', 'left', 'concat', 'if', 'sumif', 'countifs', 'countifs_op', 'countifs_amp', 'sumifs', 'averageifs', 'pattern',
              'pattern_then_literal', 'search', 'whole_formula', 'crit_amp_cell', 'crit_op_amp_cell', 'crit_amp_literal', 'crit_amp_number',
              'amp_left', 'amp_right', 'amp_plain_then', 'amp_quote_then', 'amp_three',
              'value_fn', 'value_fn_lead', 'year_fn', 'text_fn', 'search_fn_lead', 'round_fn', 'datedif_fn']


def place(rng, s, how):
    """-> (cell text, expected round-trip value or None)"""
    if how == 'const':
        if s.startswith('='):
            # stored as TEXT (typed with a leading apostrophe): a constant like any other text, never a formula
            return wbspec.TextCell(s), s
        return s, s
    if how == 'literal':
        return '=' + q(s), s
    if how == 'left':
        return f'=LEFT({q(s)},200)', (s if s else None)
    if how == 'concat':
        return f'=CONCATENATE({q(s)},"|")', s + '|'
    if how == 'if':
        return f'=IF(TRUE,{q(s)},"n")', s
    if how == 'sumif':
        return f'=SUMIF(A1:A3,{q(s)},B1:B3)', None
    if how == 'countifs':
        return f'=COUNTIFS(A1:A3,{q(s)})', None
    if how == 'countifs_op':
        return f'=COUNTIFS(A1:A3,{q(rng.choice([">", "<>", "=", "<="]) + s)})', None
    if how == 'countifs_amp':
        return f'=COUNTIFS(A1:A3,">"&{q(s)})', None
    if how == 'sumifs':
        return f'=SUMIFS(B1:B3,A1:A3,{q(s)},A1:A3,{q("x" + s)})', None
    if how == 'averageifs':
        return f'=AVERAGEIFS(B1:B3,A1:A3,{q(s)})', None
    if how == 'pattern':
        return f'=COUNTIFS(A1:A3,{q(rng.choice(["*", "?", "a*", "*?"]) + s)})', None
    if how == 'pattern_then_literal':
        return f'=COUNTIFS(A1:A3,{q("*" + s)})&{q(s)}&{q("*")}', None
    if how == 'search':
        return f'=SEARCH({q("?" + s)},{q("x" + s)})', None
    # two or three literals joined directly by & (each literal may be emitted in another quote style than its neighbour)
    if how == 'amp_left':
        return f'={q(s)}&"z"', s + 'z'
    if how == 'amp_right':
        return f'="z"&{q(s)}', 'z' + s
    if how == 'amp_plain_then':
        return f'="x"&{q(s)}&"#"', 'x' + s + '#'
    if how == 'amp_quote_then':
        return f'="it\'s"&{q(s)}', "it's" + s
    if how == 'amp_three':
        return f'={q(s)}&{q(s)}&"\'"', s + s + "'"
    # runtime helpers that INTERPRET a text (number, fraction, percentage, date and time notations): whatever they do with it, the text
    # must not run. A lead-in makes the text start like something such a helper may try to understand
    lead = rng.choice(['1/2 ', '3 1/2', '1/2-0+', '12:30 ', '50% ', '2024-01-31 ', '1e3', '0x1f', '1_000', '-7 ', '31/01/2024 ', '1,5 ', '(1)', '1 2/3*'])
    if how == 'value_fn':
        return f'=VALUE({q(s)})', None
    if how == 'value_fn_lead':
        return f'=VALUE({q(lead + s)})', None
    if how == 'year_fn':
        return f'=YEAR({q(lead + s)})+MONTH({q(s)})', None
    if how == 'text_fn':
        return f'=TEXT({q(lead + s)},{q(s)})', None
    if how == 'search_fn_lead':
        return f'=SEARCH({q(lead + s)},{q(s)},1)', None
    if how == 'round_fn':
        return f'=ROUND({q(lead + s)},{q(lead)})', None
    if how == 'datedif_fn':
        return f'=DATEDIF({q(lead + s)},{q(s)},{q(s)})', None
    if how == 'crit_amp_cell':
        # "text"&expression criteria: the criterion text is put together when the cell is evaluated
        return f'=COUNTIFS(A1:A3,{q(s)}&B1)', None
    if how == 'crit_op_amp_cell':
        return f'=SUMIF(A1:A3,{q(rng.choice([">", "<>", "=", "<=", ""]) + s)}&B2,B1:B3)', None
    if how == 'crit_amp_literal':
        return f'=SUMIFS(B1:B3,A1:A3,{q(s)}&{q("z" + s)})', None
    if how == 'crit_amp_number':
        return f'=AVERAGEIFS(B1:B3,A1:A3,{q(s)}&1,A1:A3,{q("<>" + s)}&A1)', None
    if how == 'whole_formula':
        # the text itself is the formula: a pattern literal, arithmetic on calls, a closing literal
        return '="*"+' + s.replace("'", '"') + '+"*"', None
    raise KeyError(how)


def marker_tokens_ok(src, markers):
    """every marker occurrence sits inside a STRING token; -> list of offending (marker, token type, text)"""
    bad = []
    try:
        toks = list(tokenize.generate_tokens(io.StringIO(src).readline))
    except (tokenize.TokenError, SyntaxError, IndentationError) as e:
        return [('<tokenize>', type(e).__name__, str(e)[:80])]
    ok_types = {tokenize.STRING}
    for name in ('FSTRING_MIDDLE',):
        if hasattr(tokenize, name):
            ok_types.add(getattr(tokenize, name))
    for t in toks:
        if 'MK' in t.string and t.type not in ok_types:
            for m in markers:
                if m in t.string:
                    bad.append((m, tokenize.tok_name[t.type], t.string[:60]))
    return bad


def plan(tier, seed):
    n = 400 if tier == 'quick' else 10000
    parts = 12 if tier == 'quick' else 48
    shards = [{'n': n // parts, 'safety': (p % 4 == 3)} for p in range(parts)]
    shards.append({'titles': True})
    shards.append({'twins': True})
    return shards


def run_batch(ctx, audit, strings, hows, safety, bi):
    r, rng = ctx.r, ctx.rng
    per = 30
    items = []
    for (s, marker, idx, has_payload) in strings:
        for how in hows:
            text, exp = place(rng, s, how)
            items.append((text, exp, s, marker, idx, has_payload, how))
    for off in range(0, len(items), per):
        batch = items[off:off + per]
        cells = {'A1': 'apple', 'A2': 'bee', 'A3': 'Mk', 'B1': 1, 'B2': 2, 'B3': 3}
        meta = {}
        for i, it in enumerate(batch):
            a = f'D{i + 1}'
            cells[a] = it[0]
            meta[a] = it
        spec = wbspec.spec(wbspec.sheet('S1', cells))
        book = pipeline.Book(spec, ctx.workdir, name=f'b{bi}_{off}', per_cell=True, cells_of_interest=[], safety=safety)
        for a, (text, exp, s, marker, idx, has_payload, how) in meta.items():
            case = {'string': s, 'placement': how, 'cell_text': text, 'safety_check': safety}
            # translate (not armed: the translator itself may import/compile regexes), then load + evaluate under the hook
            t = pipeline.translate(book.path, entry=pipeline.entry_cell('S1', a), safety=safety)
            r.ev()
            r.count('outcome:translate:' + (t.kind if not t.ok else 'text'))
            nontrivial = has_payload or any(c in s for c in '\'"\\\n{}#')
            if nontrivial:
                r.nt((s, how, safety))
            if not t.ok:
                continue    # rejected (parser / safety exception) or a foreign translation failure (C06's business): nothing was generated
            src = t.value
            r.count('sources_tokenized')
            if (idx + len(how)) % 4 == 0:
                # the class is ALSO written by write_translation onto a path that already holds a longer file ending in text taken from
                # the workbook (an earlier, longer class): what can be loaded afterwards is the new class and nothing else
                gen = os.path.join(ctx.workdir, 'generated_class.py')
                with open(gen, 'w', encoding='utf-8', newline='') as f0:
                    f0.write(src + '\n' + 'x' * 40 + '\n' + s + '\n' + text + '\n')
                w = pipeline.guarded(lambda: pipeline.make_parser(book.path, pipeline.entry_cell('S1', a), safety).write_translation(gen), 'translate')
                r.count('classes_written_over_longer_files')
                now = open(gen, encoding='utf-8', newline='').read() if os.path.exists(gen) else None
                if not w.ok or now != src:
                    report(r, ID, None, case, w.brief() if not w.ok else {'file_len': len(now or ''), 'text_len': len(src), 'tail': (now or '')[len(src):][:80]},
                           'the file holds the returned class and nothing of what was there before', monitor='written-file-equals-text')
            bad = marker_tokens_ok(src, [marker])
            if bad:
                report(r, ID, None, case, {'marker_outside_string_tokens': bad[:3]}, 'workbook text only inside string constants', monitor='source-token-monitor')
                continue
            with audit.window('load'):
                ld = pipeline.load_text(src)
            if not ld.ok:
                report(r, ID, None, case, ld.brief(), 'a module that loads', monitor='source-token-monitor')
                continue
            rr, cc = wbspec.rc(a)
            with audit.window('evaluate'):
                out = pipeline.query(ld.value, 0, rr, cc)
            if audit.bad:
                report(r, ID, None, case, audit.bad[:3], 'no audit event caused by workbook text', monitor='audit-hook')
                audit.bad = []
            side = [f for f in os.listdir(ctx.workdir) if f.startswith('CANARY_')] + [n for n in dir(builtins) if n.startswith('PWNED_')]
            if side:
                report(r, ID, None, case, {'side_effects': side[:3]}, 'no canary', monitor='canary')
                for f in side:
                    if f.startswith('CANARY_'):
                        os.remove(os.path.join(ctx.workdir, f))
                    else:
                        delattr(builtins, f)
            if exp is not None:
                r.count('round_trips')
                if not (out.ok and isinstance(out.value, str) and out.value == exp):
                    tag = None
                    # defect model "a literal with an unescaped ? or * is passed through the wildcard->regexp conversion"
                    import re as _re
                    report(r, ID, tag, case, out.brief(), exp, monitor='round-trip')
    return


def run_titles(ctx, audit):
    r, rng = ctx.r, ctx.rng
    titles = ["it's", 'a"b', '{titles}', 'x{0}y', "'; import os #", 'a\'+b', '%s', 'q"""q', "MK'+__import__('os').getpid()+'", 'new line', 'tab\tt', 'Ünï', 'a b', "''", '""']
    for i, t in enumerate(titles):
        t = t[:31]
        spec = wbspec.spec(wbspec.sheet(t, {'A1': 1, 'B1': '=A1+1'}), wbspec.sheet('Other', {'A1': "='" + t.replace("'", "''") + "'!A1*2" if "'" not in t else '=1'}))
        case = {'sheet_title': t}
        try:
            book = pipeline.Book(spec, ctx.workdir, name=f't{i}', per_cell=True, cells_of_interest=[])
        except Exception as e:
            r.count('title_not_writable_by_openpyxl')
            continue
        tr = pipeline.translate(book.path)
        r.ev()
        r.nt(('title', t))
        if not tr.ok:
            r.count('outcome:translate:' + tr.kind)
            continue
        bad = marker_tokens_ok(tr.value, ['MK'])
        if bad:
            report(r, ID, None, case, bad[:3], 'title only inside string constants', monitor='source-token-monitor')
            continue
        r.count('sources_tokenized')
        with audit.window('load'):
            ld = pipeline.load_text(tr.value)
        if not ld.ok:
            report(r, ID, None, case, ld.brief(), 'a module that loads', monitor='source-token-monitor')
            continue
        with audit.window('evaluate'):
            try:
                got = list(ld.value().get_titles())
            except Exception as e:
                got = [repr(e)]
        if audit.bad:
            report(r, ID, None, case, audit.bad[:3], 'no audit event', monitor='audit-hook')
            audit.bad = []
        r.count('round_trips')
        if t not in got:
            report(r, ID, None, case, got, [t, 'Other'], monitor='round-trip')
    r.sample({'sheet_titles': titles[:6]})


def run_twins(ctx):
    """a TEXT cell (typed with a leading apostrophe) whose text is, character for character, the text of a FORMULA elsewhere in the workbook
    - the column that documents the formulas next to it: the text stays a text and the formula a formula, whichever comes first in
    reading order (earlier row, earlier column of the same row, earlier sheet) and whatever the safety setting"""
    r, rng = ctx.r, ctx.rng
    formulas = ['=B1+B2', '=SUM(B1:B2)*2', '=IF(B1>0,"yes","no")', '=B1&"|"&B2', '=-B2', '=LEFT("abc",B1)']
    values = [3, 6, 'yes', '1|2', -2, 'a']
    for layout in range(6 if ctx.tier == 'quick' else 24):
        f_i = layout % len(formulas)
        f, v = formulas[f_i], values[f_i]
        s1 = {'B1': 1, 'B2': 2}
        s2 = {'B1': 1, 'B2': 2}
        text_first = layout % 2 == 1
        # same row (C1 / E1), another row (C4 / E4), another sheet (same address)
        if text_first:
            s1['C1'], s1['E1'] = wbspec.TextCell(f), f
            s1['C4'], s1['C6'] = wbspec.TextCell(f), f
            s2['C1'] = f
        else:
            s1['C1'], s1['E1'] = f, wbspec.TextCell(f)
            s1['C4'], s1['C6'] = f, wbspec.TextCell(f)
            s2['C1'] = wbspec.TextCell(f)
        s1['G1'] = wbspec.TextCell(f + ' ')          # nearly the same text: a constant as well
        s1['G2'] = '=COUNTIFS(C1:G1,"' + f.replace('"', '""') + '")' if '"' not in f else 7
        spec = wbspec.spec(wbspec.sheet('Calc', s1), wbspec.sheet('Notes', s2))
        for safety in (False, True):
            path = wbspec.write(spec, os.path.join(ctx.workdir, f'twin{layout}.xlsx'))
            t = pipeline.translate(path, safety=safety)
            r.ev()
            r.count('formula_twin_books')
            if not t.ok:
                report(r, ID, None, {'spec': spec, 'what': 'formula twins', 'safety_check': safety}, t.brief(), 'a class', monitor='round-trip')
                continue
            ld = pipeline.load_text(t.value)
            if not ld.ok:
                report(r, ID, None, {'spec': spec, 'what': 'formula twins', 'safety_check': safety}, ld.brief(), 'a class that loads', monitor='round-trip')
                continue
            for si, sheet in enumerate((s1, s2)):
                for a, planted in sheet.items():
                    if not (isinstance(planted, str) and planted.startswith('=')) or a == 'G2':
                        continue
                    o = pipeline.query(ld.value, si, *wbspec.rc(a))
                    r.ev()
                    r.nt(('twin', layout, safety, si, a))
                    want = str(planted) if isinstance(planted, wbspec.TextCell) else v
                    if not (o.ok and type(o.value) in (type(want), getattr(__import__('excel2pycl.src.excel', fromlist=['TextCellValue']), 'TextCellValue', str)) and o.value == want):
                        report(r, ID, None, {'spec': spec, 'cell': [si, a], 'what': 'text cell and formula cell holding the same characters', 'safety_check': safety,
                                             'string': str(planted), 'placement': 'text-cell' if isinstance(planted, wbspec.TextCell) else 'formula'},
                               o.brief(), want, monitor='round-trip')
    r.sample({'formula_twins': formulas})


def run_shard(shard, ctx):
    r, rng = ctx.r, ctx.rng
    if Audit.inst is None:
        Audit.inst = Audit(r)
    audit = Audit.inst
    audit.r = r
    os.makedirs(ctx.workdir, exist_ok=True)
    if 'replay' in shard:
        c = shard['replay']
        if 'sheet_title' in c:
            return run_titles(ctx, audit)
        s = c['string']
        marker = 'MK' + s.split('MK')[1][:5] if 'MK' in s else 'MK'
        return run_batch(ctx, audit, [(s, marker, 0, True)], [c['placement']], c.get('safety_check', False), 0)
    if shard.get('titles'):
        return run_titles(ctx, audit)
    if shard.get('twins'):
        return run_twins(ctx)
    strings = [gen_string(rng, ctx.shard_index * 100000 + i, ctx.workdir) for i in range(shard['n'])]
    hows = PLACEMENTS
    run_batch(ctx, audit, strings, hows, shard['safety'], 0)
    r.sample({'strings': [s for s, *_ in strings[:3]], 'placements': hows, 'safety_check': shard['safety']})


def finish(r, tier, seed):
    return {'translate_outcomes': {k[18:]: v for k, v in r.counters.items() if k.startswith('outcome:translate:')}, 'exhaustive': False}
