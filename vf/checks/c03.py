"""C03 - entry-point translation is a closed, faithful slice; cycles are rejected.

Oracle: the library against itself (slice vs whole-file translation) on every cell of the precedent closure, closure
computed independently by vf/xlref's reference analysis; cyclic workbooks must end in the library's parser exception."""
import datetime as dt
import os

from .. import pipeline, wbspec
from ..findings import report
from ..instr.translate import TranslateMonitor
from ..xlref.parser import parse, ParseError
from ..xlref.values import norm, val_eq

ID = 'C03'
LEVEL = 'exploration'
RULE = ('random layered dependency graphs over 1-3 sheets (quick <=8 formula cells, thorough <=14): every formula refers to '
        'earlier rows of its own sheet and to anything on earlier sheets through single cells ($-absolute, sheet-prefixed, quoted), '
        'vertical/horizontal ranges, rectangles overlapping formula cells and blanks, whole columns, SUMIF with a derived target '
        'range, INDEX over several areas and over A:A&B:B style joins, NETWORKDAYS holidays, COUNT/VLOOKUP/MATCH arguments, shared '
        'sub-expressions; EVERY formula cell is taken as entry point and every cell of its closure is evaluated on the slice and '
        'on the whole-file translation. Cyclic workbooks: a back edge closing a cycle of length 1-5 through each reference kind, '
        'entry inside and outside the cycle, and whole-file mode. Non-trivial: (graph, entry) whose closure has >=3 cells and '
        'crosses a sheet or goes through an area; cyclic: each (graph, mode); distinct by construction index')
ASSUMPTIONS = ['the whole-file translation is the reference for the values of the slice', 'closure computed by vf/xlref (parse of every reference form) - blank closure cells need no member']
FLOORS = {'quick': {'evaluations': 4000, 'nontrivial': 500, 'counters': {'closure_cells_compared': 3000, 'cyclic_cases': 100, 'shared_precedent_graphs': 4}},
          'thorough': {'evaluations': 120000, 'nontrivial': 15000, 'counters': {'closure_cells_compared': 100000, 'cyclic_cases': 1500}}}

COLS = 'ABCD'
TITLES = ['Main', 'Data_2', 'my sheet']


def sref(rng, own, title, addr, absolute=True):
    """spelling of a single-cell or range reference, possibly sheet-prefixed"""
    def ab(a):
        if not absolute or rng.random() < 0.6:
            return a
        col = ''.join(c for c in a if c.isalpha())
        row = a[len(col):]
        return rng.choice([f'${col}${row}', f'${col}{row}', f'{col}${row}'])
    parts = addr.split(':')
    if len(parts) == 2 and rng.random() < 0.2:
        parts.reverse()          # the corners the other way round (B2:A1, C:A): the same area, the same precedents in the slice
    body = ':'.join(ab(p) for p in parts) if addr[0].isalpha() and any(ch.isdigit() for ch in addr) else ':'.join(parts)
    if title == own and rng.random() < 0.7:
        return body
    if ' ' in title or rng.random() < 0.3:
        return f"'{title}'!{body}"
    return f'{title}!{body}'


def make_graph(rng, max_formulas):
    ns = rng.randrange(1, 4)
    titles = TITLES[:ns]
    sheets = [{} for _ in range(ns)]
    # constants: first rows of every sheet, unique non-zero numbers; some gaps stay blank
    val = 3
    for s in range(ns):
        for r in range(1, 3):
            for c in COLS:
                k_ = rng.random()
                if k_ < 0.65:
                    sheets[s][f'{c}{r}'] = val
                    val += rng.randrange(1, 7)
                elif k_ < 0.85:
                    # falsy but NOT blank: a slice that prunes them (or confuses them with blanks) differs in AVERAGE, COUNT, MIN, &, type
                    sheets[s][f'{c}{r}'] = rng.choice([0, 0, False, 0.0])
    formulas = []
    nf = rng.randrange(3, max_formulas + 1)
    for k in range(nf):
        s = rng.randrange(ns) if k else ns - 1
        row = rng.randrange(3, 8)
        col = rng.choice(COLS)
        a = f'{col}{row}'
        if a in sheets[s]:
            continue

        def pick_cell():
            """an earlier-row cell of the own sheet or any cell of an earlier sheet"""
            if s > 0 and rng.random() < 0.45:
                t = rng.randrange(0, s)
                return t, f'{rng.choice(COLS)}{rng.randrange(1, 8)}'
            return s, f'{rng.choice(COLS)}{rng.randrange(1, row)}'

        def pick_area(kind):
            if s > 0 and rng.random() < 0.5:
                t, top, bot = rng.randrange(0, s), 1, 7
            else:
                t, top, bot = s, 1, row - 1
            r1 = rng.randrange(top, bot + 1)
            r2 = rng.randrange(r1, bot + 1)
            c1 = rng.randrange(0, 4)
            c2 = rng.randrange(c1, 4)
            if kind == 'v':
                return t, f'{COLS[c1]}{r1}:{COLS[c1]}{max(r2, min(r1 + 1, bot))}'
            if kind == 'h':
                return t, f'{COLS[c1]}{r1}:{COLS[max(c2, min(c1 + 1, 3))]}{r1}'
            if kind == 'rect':
                return t, f'{COLS[c1]}{r1}:{COLS[max(c2, min(c1 + 1, 3))]}{max(r2, min(r1 + 1, bot))}'
            if kind == 'col' and t != s:
                return t, f'{COLS[c1]}:{COLS[c1]}'
            if kind == 'cols' and t != s:
                return t, f'{COLS[c1]}:{COLS[max(c2, min(c1 + 1, 3))]}'
            return t, f'{COLS[c1]}{r1}:{COLS[c1]}{max(r2, min(r1 + 1, bot))}'

        own = titles[s]
        kind = rng.choice(['cell2', 'cell2', 'v', 'h', 'rect', 'col', 'cols', 'sumif', 'index_multi', 'index_join', 'networkdays', 'count',
                           'vlookup', 'match', 'shared', 'if', 'iferror', 'blankaware', 'blankaware'])
        R = lambda ta: sref(rng, own, titles[ta[0]], ta[1])
        if kind == 'cell2':
            f = f'={R(pick_cell())}+{R(pick_cell())}*2'
        elif kind in ('v', 'h', 'rect', 'col', 'cols'):
            f = f'=SUM({R(pick_area(kind))})+{R(pick_cell())}'
        elif kind == 'sumif':
            t1, ar = pick_area('v')
            t2, first = pick_cell()
            f = f'=SUMIF({R((t1, ar))},">0",{R((t2, first))})'
        elif kind == 'index_multi':
            a1_, a2_ = pick_area('v'), pick_area('v')
            f = f'=INDEX(({R(a1_)},{R(a2_)}),1,1,2)+INDEX({R(pick_area("rect"))},1,1)'
        elif kind == 'index_join':
            t1 = pick_area('v')
            t2 = (t1[0], t1[1])
            f = f'=INDEX({R(t1)}&{R(pick_area("v"))},1)'
        elif kind == 'networkdays':
            f = f'=NETWORKDAYS(DATE(2024,1,1),DATE(2024,1,31),{R(pick_area("rect"))})+{R(pick_cell())}'
        elif kind == 'count':
            f = f'=COUNT({R(pick_area("rect"))},{R(pick_cell())},{R(pick_area("v"))},5)'
        elif kind == 'vlookup':
            f = f'=IFERROR(VLOOKUP({R(pick_cell())},{R(pick_area("rect"))},1,FALSE),-1)'
        elif kind == 'match':
            f = f'=IFERROR(MATCH({R(pick_cell())},{R(pick_area("v"))},0),-2)'
        elif kind == 'shared':
            ar = R(pick_area('rect'))
            f = f'=SUM({ar})+MAX({ar})-MIN({ar})+SUM({ar})'
        elif kind == 'blankaware':
            ar = R(pick_area('rect'))
            f = rng.choice([f'=AVERAGE({ar})+COUNT({ar})*1000', f'=COUNTBLANK({ar})*100+COUNT({ar})', f'={R(pick_cell())}&"|"&{R(pick_cell())}', f'=MIN({ar})&"/"&MAX({ar})',
                            f'=IF({R(pick_cell())}="",1,2)+IF({R(pick_cell())}=0,10,20)'])
        elif kind == 'if':
            f = f'=IF({R(pick_cell())}>{R(pick_cell())},{R(pick_cell())},SUM({R(pick_area("h"))}))'
        else:
            f = f'=IFERROR({R(pick_cell())}/{R(pick_cell())},{R(pick_cell())})'
        sheets[s][a] = f
        formulas.append((s, a))
    # twins: the character-identical formula text on ANOTHER worksheet (a template sheet copied per month). Its references without a sheet
    # prefix mean the cells of the sheet each copy stands on; a cell that reads both copies makes one translation reach both.
    if ns > 1:
        plain = [(s_, a_) for (s_, a_) in formulas if '!' not in sheets[s_][a_]]
        rng.shuffle(plain)
        for (s_, a_) in plain[:2]:
            t_ = rng.choice([x for x in range(ns) if x != s_])
            if a_ in sheets[t_]:
                continue
            sheets[t_][a_] = sheets[s_][a_]
            formulas.append((t_, a_))
            free = [f'{c}{r}' for r in (8, 9) for c in COLS if f'{c}{r}' not in sheets[ns - 1]]
            if free:
                b_ = rng.choice(free)
                q = lambda i: (f"'{titles[i]}'!" if ' ' in titles[i] else f'{titles[i]}!')      # noqa: E731
                sheets[ns - 1][b_] = f'={q(s_)}{a_}*1000+{q(t_)}{a_}' if rng.random() < 0.5 else f'={q(t_)}{a_}*1000+{q(s_)}{a_}'
                formulas.append((ns - 1, b_))
    spec = wbspec.spec(*[wbspec.sheet(t, c) for t, c in zip(titles, sheets)])
    return spec, formulas


def is_cyclic(spec, formulas):
    """derived SUMIF target ranges can reach downwards: check the direct-dependency graph for a cycle"""
    deps = {}
    for (s, a) in formulas:
        try:
            direct = _direct(spec, s, a)
        except (ParseError, ValueError):
            return None
        deps[(s, *wbspec.rc(a))] = direct
    state = {}

    def dfs(n):
        if state.get(n) == 1:
            return True
        if state.get(n) == 2 or n not in deps:
            return False
        state[n] = 1
        for m in deps[n]:
            if dfs(m):
                return True
        state[n] = 2
        return False
    return any(dfs(n) for n in deps)


def _direct(spec, s, addr):
    one = {'sheets': spec['sheets']}
    titles = [x['title'] for x in spec['sheets']]
    cells = [x['cells'] for x in spec['sheets']]
    maxrow = [max([wbspec.rc(a)[0] for a in c] or [0]) for c in cells]
    out = set()
    for node in _walk(parse(cells[s][addr])):
        if node[0] == 'ref':
            _, sh, r1, c1, r2, c2, isr = node
            sj = titles.index(sh) if sh not in (None, '') else s
            if r1 is None:
                r1, r2 = 1, maxrow[sj]
            out.update((sj, rr, cc) for rr in range(r1, r2 + 1) for cc in range(c1, c2 + 1))
        elif node[0] == 'call' and node[1] == 'SUMIF' and len(node[2]) == 3 and node[2][0][0] == 'ref' and node[2][2][0] == 'ref':
            rg, tg = node[2][0], node[2][2]
            if rg[2] is not None and tg[2] is not None:
                sj = titles.index(tg[1]) if tg[1] not in (None, '') else s
                out.update((sj, tg[2] + dr, tg[3] + dc) for dr in range(rg[4] - rg[2] + 1) for dc in range(rg[5] - rg[3] + 1))
    return out


def closure(spec, s, addr):
    """independent precedent closure: set of (sheet index, row, col)"""
    titles = [x['title'] for x in spec['sheets']]
    cells = [x['cells'] for x in spec['sheets']]
    maxrow = [max([wbspec.rc(a)[0] for a in c] or [0]) for c in cells]
    seen, todo, areas, cross = set(), [(s, *wbspec.rc(addr))], 0, 0
    while todo:
        si, r, c = todo.pop()
        if (si, r, c) in seen:
            continue
        seen.add((si, r, c))
        v = cells[si].get(wbspec.a1(r, c))
        if not (isinstance(v, str) and v.startswith('=')):
            continue
        ast_ = parse(v)
        for node in _walk(ast_):
            if node[0] == 'ref':
                _, sh, r1, c1, r2, c2, isr = node
                sj = titles.index(sh) if sh not in (None, '') else si
                if sj != si:
                    cross += 1
                if isr:
                    areas += 1
                if r1 is None:
                    r1, r2 = 1, maxrow[sj]
                for rr in range(r1, r2 + 1):
                    for cc in range(c1, c2 + 1):
                        todo.append((sj, rr, cc))
            elif node[0] == 'call' and node[1] == 'SUMIF' and len(node[2]) == 3 and node[2][0][0] == 'ref' and node[2][2][0] == 'ref':
                rg, tg = node[2][0], node[2][2]
                if rg[2] is not None and tg[2] is not None:
                    sj = titles.index(tg[1]) if tg[1] not in (None, '') else si
                    for dr in range(rg[4] - rg[2] + 1):
                        for dc in range(rg[5] - rg[3] + 1):
                            todo.append((sj, tg[2] + dr, tg[3] + dc))
    return seen, areas, cross


def _walk(n):
    if isinstance(n, tuple):
        yield n
        for x in n[1:]:
            if isinstance(x, (tuple, list)):
                yield from _walk(x)
    elif isinstance(n, list):
        for x in n:
            yield from _walk(x)


from ..xlref.values import BLANK as BLANK_  # noqa: E402


def same(o1, o2):
    if o1.ok != o2.ok:
        return False
    if not o1.ok:
        return True
    a, b = norm(o1.value), norm(o2.value)
    # the blank object equals 0 / "" / FALSE in the library's own comparisons: the slice has to hand over the SAME KIND of value
    if (a is BLANK_) != (b is BLANK_) or isinstance(a, bool) != isinstance(b, bool):
        return False
    return val_eq(a, b, exact=True)


def run_dag(ctx, spec, formulas, gid):
    r = ctx.r
    whole = pipeline.Book(spec, ctx.workdir, name='whole')
    if whole.cls is None:
        # a well-formed acyclic workbook must translate
        report(r, ID, None, {'spec': spec, 'mode': 'whole-file'}, whole.whole.brief(), 'a loadable class', monitor='translate-acyclic')
        return
    titles = whole.titles
    for (s, a) in formulas:
        try:
            clo, areas, cross = closure(spec, s, a)
        except (ParseError, ValueError) as e:
            r.count('closure_no_opinion')
            continue
        # the entry cell as the caller may hold it: spelled by title and A1 address, by numbers, carrying a value of its own, or the
        # very object an Executor of the whole-file class handed out (computed value inside, identifiers already resolved)
        how = ('a1', 'numeric', 'with-value', 'from-executor')[(len(a) + s + (gid[1] if isinstance(gid, tuple) else 0)) % 4]
        rr0, cc0 = wbspec.rc(a)
        if how == 'a1':
            ecell = pipeline.entry_cell(titles[s], a)
        elif how == 'numeric':
            ecell = pipeline.ncell(s, rr0, cc0)
        elif how == 'with-value':
            ecell = pipeline.entry_cell(titles[s], a)
            ecell.value = 'stale value of the caller'
        else:
            got = pipeline.guarded(lambda: pipeline.Executor().set_executed_class(class_object=whole.cls).get_cell(pipeline.ncell(s, rr0, cc0)), 'evaluate')
            ecell = got.value if got.ok else pipeline.entry_cell(titles[s], a)
        r.count('entry_cell_given:' + how)
        t = pipeline.translate(whole.path, entry=ecell)
        r.ev()
        case = {'spec': spec, 'entry': [s, a], 'gid': gid, 'entry_cell_given': how}
        if not t.ok:
            report(r, ID, None, case, t.brief(), 'a slice', monitor='translate-acyclic')
            continue
        ld = pipeline.load_text(t.value)
        if not ld.ok:
            report(r, ID, None, case, ld.brief(), 'a loadable slice', monitor='translate-acyclic')
            continue
        # every second slice is ALSO written to <dir of its entry>/model.py and loaded through class_file= (one file name for all
        # slices of the process, older files loaded again after newer ones): it has to be the class of that very slice
        via_file = None
        if (len(a) + s) % 2 == 0:
            exf, _ = pipeline.file_executor(t.value, ctx.workdir, f'slice_{gid}_{s}_{a}'.replace(' ', '').replace('(', '').replace(')', '').replace(',', '_'))
            r.count('slices_loaded_from_files_of_one_name')
            if exf.ok:
                via_file = exf.value
            else:
                report(r, ID, None, case, exf.brief(), 'the written slice loads', monitor='translate-acyclic')
        missing_members = []
        for (si, rr, cc) in sorted(clo):
            o_s = pipeline.query(ld.value, si, rr, cc)
            if via_file is not None:
                o_f = pipeline.guarded(lambda: via_file.get_cell(pipeline.ncell(si, rr, cc)).value, 'evaluate')
                if not same(o_f, o_s):
                    report(r, ID, None, {**case, 'cell': [si, wbspec.a1(rr, cc)]}, {'slice_loaded_from_its_file': o_f.brief()}, {'slice_as_class_object': o_s.brief()},
                           monitor='slice-equals-whole')
            o_w = pipeline.query(whole.cls, si, rr, cc)
            r.ev()
            r.count('closure_cells_compared')
            nonblank = wbspec.a1(rr, cc) in spec['sheets'][si]['cells']
            if nonblank and not hasattr(ld.value, f'_{si}_{cc - 1}_{rr - 1}'):
                missing_members.append(wbspec.a1(rr, cc))
            if not same(o_s, o_w):
                report(r, ID, None, {**case, 'cell': [si, wbspec.a1(rr, cc)]}, {'slice': o_s.brief()}, {'whole_file': o_w.brief()},
                       monitor='slice-equals-whole', detail={'members_missing_in_slice': missing_members[:5]})
        if missing_members:
            r.count('slices_with_missing_member_names', 1)
            r.seen('missing_member_example', f'{a}:{missing_members[:3]}')
        if len(clo) >= 3 and (areas or cross):
            r.nt((gid, s, a))
    # One Parser kept across two workbooks: the entry point is set once, then only the path changes. The second workbook has the
    # sheets in reverse order, every number + 1000 and ANOTHER formula in the entry cell: the second slice has to be the slice of
    # the second workbook - the entry cell kept by the parser must not carry what translating the first one resolved and filled in
    # (sheet index, formula text).
    import copy
    ns_ = len(spec['sheets'])
    for (s, a) in formulas[:3]:
        spec2 = copy.deepcopy(spec)
        for sh in spec2['sheets']:
            for a_, v_ in list(sh['cells'].items()):
                if isinstance(v_, (int, float)) and not isinstance(v_, bool):
                    sh['cells'][a_] = v_ + 1000
        consts = [a_ for a_, v_ in spec2['sheets'][s]['cells'].items() if isinstance(v_, (int, float)) and not isinstance(v_, bool)]
        spec2['sheets'][s]['cells'][a] = f'={consts[0]}+12345' if consts else '=12345+1'
        spec2['sheets'].reverse()
        s2 = ns_ - 1 - s
        path2 = wbspec.write(spec2, __import__('os').path.join(ctx.workdir, 'second.xlsx'))
        fresh = pipeline.translate(path2, entry=pipeline.entry_cell(titles[s], a))
        p = pipeline.make_parser(whole.path, entry=pipeline.entry_cell(titles[s], a))
        t1 = pipeline.guarded(lambda: p.get_translation(), 'translate')
        p.set_excel_file_path(path2)
        t2 = pipeline.guarded(lambda: p.get_translation(), 'translate')
        r.ev()
        r.count('parser_reused_across_workbooks')
        case = {'spec': spec, 'second_spec': spec2, 'entry': [s, a], 'gid': gid,
                'history': 'set_path(w1), set_entry(e), get, set_path(w2), get  (w2: sheets reversed, numbers + 1000, another entry formula)'}
        if not (fresh.ok and t2.ok):
            if fresh.ok != t2.ok:
                report(r, ID, None, case, {'reused_parser': t2.brief() if not t2.ok else 'text'}, {'fresh_parser': fresh.brief() if not fresh.ok else 'text'},
                       monitor='slice-after-path-change')
            continue
        ld, lf = pipeline.load_text(t2.value), pipeline.load_text(fresh.value)
        if not (ld.ok and lf.ok):
            continue
        rr, cc = wbspec.rc(a)
        o_s, o_w = pipeline.query(ld.value, s2, rr, cc), pipeline.query(lf.value, s2, rr, cc)
        r.ev()
        if not same(o_s, o_w) or t2.value != fresh.value:
            report(r, ID, None, case, {'slice_of_reused_parser': o_s.brief(), 'same_text_as_fresh_parser': t2.value == fresh.value},
                   {'slice_of_fresh_parser_on_second_workbook': o_w.brief()}, monitor='slice-after-path-change')
    return


CYC_KINDS = ['cell', 'range', 'rect', 'col', 'sumif_target', 'index', 'cross', 'count', 'if_branch', 'iferror', 'mirror', 'mirror_abs', 'mirror_quoted']
# how the cells of the ring refer to the next one: an arithmetic step, nothing but the reference (bare, sheet-qualified, absolute), or a mix
EDGE_FORMS = {'plain': ['{n}+A1'], 'bare': ['{n}', 'Main!{n}', "'Main'!{n}", 'Main!{abs}', '{abs}'],
              'mixed': ['{n}+A1', '{n}', 'Main!{n}', '-{n}', '({n})', '{n}%', 'IF(A1>0,{n},1)', 'SUM({n},1)', '{n}&""', "'Main'!{abs}*1", 'IFERROR({n},0)', '{n}=1']}


def make_cycle(rng, kind, length, edges='plain'):
    """cells K1..Kn on Main in a ring; the back edge from the last to the first uses `kind`"""
    cells = {'A1': 1, 'A2': 2, 'B1': 3}
    other = {'A1': 5}
    ring = [f'C{i + 1}' for i in range(length)]
    for i, a in enumerate(ring[:-1]):
        n = ring[i + 1]
        cells[a] = '=' + rng.choice(EDGE_FORMS[edges]).format(n=n, abs=f'${n[0]}${n[1:]}')
    last, first = ring[-1], ring[0]
    fr, fc = wbspec.rc(first)
    if kind == 'cell':
        f = f'={first}*2'
    elif kind == 'range':
        f = f'=SUM(C1:C{max(length, 2)})' if length > 1 else '=SUM(C1:C2)'
    elif kind == 'rect':
        f = '=SUM(A1:C5)'
    elif kind == 'col':
        f = '=SUM(C:C)'
    elif kind == 'sumif_target':
        f = '=SUMIF(A1:A2,">0",C1)'
    elif kind == 'index':
        f = '=INDEX(B1:C3,1,2)'
    elif kind == 'cross':
        other['B2'] = f'=Main!{first}+1'
        f = '=Other!B2'
    elif kind == 'count':
        f = f'=COUNT(A1,{first})'
    elif kind == 'if_branch':
        f = f'=IF(A1>5,{first},7)'
    elif kind == 'mirror':
        f = f'=Main!{first}'
    elif kind == 'mirror_abs':
        f = f'=${first[0]}${first[1:]}'
    elif kind == 'mirror_quoted':
        other['B2'] = f"='Main'!{first}"
        f = "='Other'!$B$2"
    else:
        f = f'=IFERROR({first},0)'
    cells[last] = f
    cells['E1'] = f'={first}+1'      # entry outside the cycle
    cells['E2'] = '=A1+A2'           # unrelated formula
    return wbspec.spec(wbspec.sheet('Main', cells), wbspec.sheet('Other', other)), first


def run_cycle(ctx, spec, first, kind, length, idx):
    r = ctx.r
    os_path = wbspec.write(spec, __import__('os').path.join(ctx.workdir, 'cyc.xlsx'))
    from excel2pycl import E2PyclParserException
    for mode, entry in (('entry-inside', pipeline.entry_cell('Main', first)), ('entry-outside', pipeline.entry_cell('Main', 'E1')), ('whole-file', None)):
        t = pipeline.translate(os_path, entry=entry)
        r.ev()
        r.count('cyclic_cases')
        ok = (t.kind == 'LIB_EXC' and isinstance(t.exc, E2PyclParserException))
        if not ok:
            report(r, ID, None, {'spec': spec, 'cycle_kind': kind, 'length': length, 'mode': mode}, t.brief(), 'E2PyclParserException',
                   monitor='cycle-rejected')
        r.nt(('cyc', kind, length, mode))
    # an entry that does not reach the cycle translates
    t = pipeline.translate(os_path, entry=pipeline.entry_cell('Main', 'E2'))
    r.ev()
    if not t.ok:
        report(r, ID, None, {'spec': spec, 'cycle_kind': kind, 'mode': 'entry-not-reaching-the-cycle'}, t.brief(), 'a slice', monitor='translate-acyclic')


STEP_BUDGET = 8_000_000      # five times what the unchanged tree needs for the largest of these graphs (1.5 million function entries)


def shared_graphs(rng, tier):
    """dependency graphs whose precedents are SHARED: a cell used twice by its successor, two-term recurrences, lattices - the number of
    PATHS to the first row doubles with every row, the number of cells does not"""
    n = rng.randrange(34, 46)
    out = []
    cells = {'A1': 100}
    for i in range(2, n + 1):
        cells[f'A{i}'] = f'=A{i - 1}+A{i - 1}*0.05'
    out.append(('interest', wbspec.spec(wbspec.sheet('Main', cells)), [(0, f'A{n}'), (0, f'A{n // 2}')]))
    cells = {'C1': 100}
    for i in range(1, n + 1):
        cells[f'A{i}'] = i % 7
    for i in range(2, n + 1):
        cells[f'C{i}'] = f'=IF(C{i - 1}>0,C{i - 1}+A{i},0)'
    out.append(('running-if', wbspec.spec(wbspec.sheet('Main', cells)), [(0, f'C{n}')]))
    cells = {'B1': 1, 'B2': 1}
    for i in range(3, n + 1):
        cells[f'B{i}'] = f'=B{i - 1}+B{i - 2}'
    out.append(('fibonacci', wbspec.spec(wbspec.sheet('Main', cells)), [(0, f'B{n}')]))
    cells = {f'{c}1': k + 1 for k, c in enumerate('ABCD')}
    m = min(n, 36)
    for i in range(2, m + 1):
        for k, c in enumerate('ABCD'):
            left, right = 'ABCD'[(k - 1) % 4], 'ABCD'[(k + 1) % 4]
            cells[f'{c}{i}'] = rng.choice([f'=MAX({left}{i - 1},{right}{i - 1})+1', f'={left}{i - 1}+{right}{i - 1}-{c}{i - 1}', f'=IFERROR({left}{i - 1}/{right}{i - 1},0)+{c}{i - 1}',
                                           f'=ROUND(({left}{i - 1}+{right}{i - 1})/2,3)', f'=SUM({left}{i - 1}:{right}{i - 1})' if k in (1, 2) else f'=SUM({c}{i - 1},{right}{i - 1},{left}{i - 1})'])
    out.append(('lattice', wbspec.spec(wbspec.sheet('Main', cells), wbspec.sheet('Data_2', {'A1': f"=Main!B{m}+Main!C{m}"})), [(0, f'B{m}'), (1, 'A1')]))
    return out


def run_shared(ctx):
    from ..instr.interp import StepBudget, StepBudgetExceeded
    r, rng = ctx.r, ctx.rng
    for rep in range(1 if ctx.tier == 'quick' else 6):
        for kind, spec, entries in shared_graphs(rng, ctx.tier):
            r.count('shared_precedent_graphs')
            try:
                # linear work: a few thousand function entries per cell and query; 2^34 paths are far beyond any budget
                with StepBudget(STEP_BUDGET, persistent=True) as sb:
                    run_dag(ctx, spec, entries, (ctx.shard_index, 900 + rep))
                r.counters['shared_graph_steps_max'] = max(r.counters.get('shared_graph_steps_max', 0), sb.steps)
            except StepBudgetExceeded as e:
                report(r, ID, None, {'spec': spec, 'entry': list(entries[0]), 'graph': kind}, str(e),
                       'the value of the entry cell within a number of steps proportional to the number of cells', monitor='evaluation-steps-exponential')
    r.sample({'shared_precedents': ['An = A(n-1)+A(n-1)*0.05', 'Cn = IF(C(n-1)>0,C(n-1)+An,0)', 'Bn = B(n-1)+B(n-2)', '4-column lattice']})


def run_deepchain(ctx):
    """a running total down a column (Cn = C(n-1)+An): the slice for its last row against the whole-file translation.  60 rows must work;
    250 rows work in whole-file mode, and the entry-point translation either agrees or shows the recorded finding (it descends through the
    precedents recursively and refuses "nested too deeply" where the whole-file walk, top-down with every precedent already translated,
    does not).  Any other outcome - a foreign exception, another value, a refusal of the short chain - is a violation."""
    from excel2pycl import E2PyclParserException
    r = ctx.r
    for n, form in ((60, '=C{p}+A{i}'), (250, '=C{p}+A{i}'), (40, '=ROUND(IF(AND(A{i}>0,B{i}>0),SUM(C{p},A{i})-B{i},C{p}),2)'), (120, '=ROUND(IF(AND(A{i}>0,B{i}>0),SUM(C{p},A{i})-B{i},C{p}),2)')):
        cells = {'C1': 100}
        for i in range(1, n + 1):
            cells[f'A{i}'] = 1 + i % 3
            cells[f'B{i}'] = 1
        for i in range(2, n + 1):
            cells[f'C{i}'] = form.format(p=i - 1, i=i)
        spec = wbspec.spec(wbspec.sheet('Main', cells))
        whole = pipeline.Book(spec, ctx.workdir, name=f'deep{n}')
        r.count('deep_chains')
        case = {'spec': {'chain_rows': n, 'formula': form}, 'entry': [0, f'C{n}'], 'graph': 'running total'}
        if whole.cls is None:
            report(r, ID, None, case, whole.whole.brief(), 'a loadable class', monitor='translate-acyclic')
            continue
        want = pipeline.query(whole.cls, 0, n, 3)
        t = pipeline.translate(whole.path, entry=pipeline.entry_cell('Main', f'C{n}'))
        r.ev()
        r.nt(('deepchain', n, form))
        long_chain = n >= 100
        if not t.ok:
            refused = t.kind == pipeline.LIB_EXC and isinstance(t.exc, E2PyclParserException) and 'nested too deeply' in str(t.exc)
            report(r, ID, 'KF-C03-deep-chain-entry-refused' if (refused and long_chain) else None, case, t.brief(), 'a slice with the value ' + repr(want.brief()), monitor='translate-acyclic')
            continue
        ld = pipeline.load_text(t.value)
        got = pipeline.query(ld.value, 0, n, 3) if ld.ok else ld
        if not (want.ok and got.ok and same(want, got)):
            report(r, ID, None, case, got.brief(), want.brief(), monitor='slice-equals-whole')
    r.sample({'deep_chains': 'Cn = C(n-1)+An for 60 / 250 rows; Cn = ROUND(IF(AND(..),SUM(C(n-1),An)-Bn,C(n-1)),2) for 40 / 120 rows'})


def run_raisedlimit(ctx):
    """the host has raised the interpreter's recursion limit (services that translate deep models do): cycles LONGER than any small
    bound - a ring of 300 and of 400 cells, a ring of 20 behind a chain of 245, a ring of 5 behind a chain of 300 - are refused with
    the library's parser exception in all three modes like the rings of 1..5 cells, and an acyclic chain of 600 cells gives the same value
    through its last cell's slice as through the whole file.  Runs in a thread with a large stack so that depth is the interpreter's
    business only."""
    import sys
    import threading
    from excel2pycl import E2PyclParserException
    r = ctx.r

    def body():
        for (lead, ring) in ((0, 300), (0, 400), (245, 20), (300, 5), (0, 257), (255, 2)):
            cells = {'A1': 1, 'A2': 2}
            n = lead + ring
            for i in range(1, n):
                cells[f'C{i}'] = f'=C{i + 1}+1'
            cells[f'C{n}'] = f'=C{lead + 1}*2'
            cells['E1'] = '=C1+1'
            cells['E2'] = '=A1+A2'
            spec = wbspec.spec(wbspec.sheet('Main', cells))
            path = wbspec.write(spec, os.path.join(ctx.workdir, f'ring{lead}_{ring}.xlsx'))
            for mode, entry in (('entry-inside', pipeline.entry_cell('Main', f'C{lead + 1}')), ('entry-in-front', pipeline.entry_cell('Main', 'C1')),
                                ('entry-outside', pipeline.entry_cell('Main', 'E1')), ('whole-file', None)):
                t = pipeline.translate(path, entry=entry)
                r.ev()
                r.count('long_cyclic_cases')
                r.nt(('longcyc', lead, ring, mode))
                if not (t.kind == 'LIB_EXC' and isinstance(t.exc, E2PyclParserException)):
                    report(r, ID, None, {'spec': {'chain_in_front': lead, 'ring_cells': ring, 'edge': 'Cn = C(n+1)+1, last = first*2'}, 'mode': mode,
                                         'recursion_limit': sys.getrecursionlimit(), 'long_cycle': [lead, ring]}, str(t.brief())[:200], 'E2PyclParserException',
                           monitor='cycle-rejected')
                else:
                    r.seen('long_cycle_refusals', str(t.exc)[:30])
            t = pipeline.translate(path, entry=pipeline.entry_cell('Main', 'E2'))
            r.ev()
            if not t.ok:
                report(r, ID, None, {'spec': {'chain_in_front': lead, 'ring_cells': ring}, 'mode': 'entry-not-reaching-the-cycle', 'long_cycle': [lead, ring]},
                       str(t.brief())[:200], 'a slice', monitor='translate-acyclic')
        # acyclic and long
        n = 600
        cells = {'C1': 100}
        for i in range(1, n + 1):
            cells[f'A{i}'] = 1 + i % 3
        for i in range(2, n + 1):
            cells[f'C{i}'] = f'=C{i - 1}+A{i}'
        spec = wbspec.spec(wbspec.sheet('Main', cells))
        whole = pipeline.Book(spec, ctx.workdir, name='deep600')
        case = {'spec': {'chain_rows': n, 'formula': '=C{p}+A{i}'}, 'entry': [0, f'C{n}'], 'graph': 'running total under a raised recursion limit',
                'long_cycle': [n, 0]}
        r.count('long_chains_under_raised_limit')
        if whole.cls is None:
            report(r, ID, None, case, str(whole.whole.brief())[:200], 'a loadable class', monitor='translate-acyclic')
            return
        want = pipeline.query(whole.cls, 0, n, 3)
        exp = 100 + sum(1 + i % 3 for i in range(2, n + 1))
        r.ev()
        if not (want.ok and want.value == exp):
            report(r, ID, None, case, wanstr(t.brief())[:200], exp, monitor='slice-equals-whole')
        for e in (n, 300):
            t = pipeline.translate(whole.path, entry=pipeline.entry_cell('Main', f'C{e}'))
            r.ev()
            r.nt(('longchain', e))
            ld = pipeline.load_text(t.value) if t.ok else t
            got = pipeline.query(ld.value, 0, e, 3) if ld.ok else ld
            w = 100 + sum(1 + i % 3 for i in range(2, e + 1))
            if not (got.ok and got.value == w):
                report(r, ID, None, dict(case, entry=[0, f'C{e}']), gostr(t.brief())[:200], w, monitor='slice-equals-whole')

    old = sys.getrecursionlimit()
    threading.stack_size(512 * 1024 * 1024)
    sys.setrecursionlimit(30000)
    box = []

    def guarded_body():
        try:
            body()
        except BaseException as e:  # noqa: B902
            box.append(e)
    try:
        th = threading.Thread(target=guarded_body)
        th.start()
        th.join()
    finally:
        sys.setrecursionlimit(old)
        threading.stack_size(0)
    if box:
        raise box[0]
    r.sample({'raised_limit': 'rings of 300 / 400 / 257 cells, rings of 20 / 5 / 2 behind chains of 245 / 300 / 255 cells, an acyclic chain of 600; recursion limit 30000'})


def run_bigarea(ctx):
    """slices whose precedents are reached through areas of a thousand cells and more (a data sheet summed, looked up and counted from a
    summary sheet): every cell of such an area belongs to the slice like the cells of a small one"""
    r, rng = ctx.r, ctx.rng
    for rep in range(1 if ctx.tier == 'quick' else 5):
        rows, cols = rng.choice([(50, 20), (200, 5), (1001, 1), (34, 30)])
        data = {}
        for i in range(1, rows + 1):
            for j in range(1, cols + 1):
                data[wbspec.a1(i, j)] = i * 100 + j if (i + j) % 11 else float(i) + 0.5
        last = wbspec.a1(rows, cols)
        lastcol = wbspec.a1(rows, 1)
        calc = {'A1': f'=SUM(Data!A1:{last})', 'A2': f"=COUNT('Data'!A1:{last})+MAX(Data!A1:{last})", 'A3': f'=VLOOKUP({rows * 100 + 1},Data!A1:{last},{cols},FALSE)',
                'A4': f'=SUM(Data!A:A)' if cols == 1 or rows >= 200 else f'=SUM(Data!A1:{lastcol})+INDEX(Data!A1:{last},{rows},{cols})', 'A5': '=A1+A3',
                'A6': f'=SUMIF(Data!A1:{lastcol},">{rows * 50}")', 'B1': f'=MIN(Data!B2:{last})' if cols > 1 else f'=MIN(Data!A2:{last})'}
        spec = wbspec.spec(wbspec.sheet('Main', calc), wbspec.sheet('Data', data))
        r.count('big_area_graphs')
        run_dag(ctx, spec, [(0, a) for a in ('A1', 'A2', 'A3', 'A4', 'A5', 'A6', 'B1')], (ctx.shard_index, 950 + rep))
    r.sample({'big_areas': 'a data sheet of 1000-1020 cells (50x20, 200x5, 1001x1, 34x30) read through SUM, COUNT, MAX, VLOOKUP, SUMIF, INDEX from another sheet'})


def plan(tier, seed):
    n, parts = (200, 10) if tier == 'quick' else (3000, 30)
    shards = [{'kind': 'dag', 'n': n // parts, 'max': 8 if tier == 'quick' else 14} for _ in range(parts)]
    for rep in range(1 if tier == 'quick' else 12):
        shards.append({'kind': 'cyc', 'rep': rep})
    shards.append({'kind': 'shared'})
    shards.append({'kind': 'deepchain'})
    shards.append({'kind': 'bigarea'})
    shards.append({'kind': 'raisedlimit'})
    return shards


def run_shard(shard, ctx):
    r, rng = ctx.r, ctx.rng
    tmon = TranslateMonitor.install(r)
    if 'replay' in shard:
        c = shard['replay']
        if 'long_cycle' in c:
            return run_raisedlimit(ctx)
        if 'cycle_kind' in c:
            return run_cycle(ctx, c['spec'], 'C1', c['cycle_kind'], c.get('length', 1), 0)
        if 'entry' in c:
            return run_dag(ctx, c['spec'], [tuple(c['entry'])], 0)
        return run_dag(ctx, c['spec'], [], 0)
    if shard['kind'] == 'shared':
        return run_shared(ctx)
    if shard['kind'] == 'deepchain':
        return run_deepchain(ctx)
    if shard['kind'] == 'bigarea':
        return run_bigarea(ctx)
    if shard['kind'] == 'raisedlimit':
        return run_raisedlimit(ctx)
    if shard['kind'] == 'dag':
        for i in range(shard['n']):
            spec, formulas = make_graph(rng, shard['max'])
            cyc = is_cyclic(spec, formulas)
            if cyc is None:
                r.count('graphs_skipped_reference_model_cannot_read')
                continue
            if cyc:
                # the generator closed a cycle by accident (derived SUMIF range): use it as one more cyclic workbook
                t = pipeline.translate(wbspec.write(spec, __import__('os').path.join(ctx.workdir, 'acc.xlsx')))
                r.ev()
                r.count('accidental_cycles')
                if not (t.kind == 'LIB_EXC' and type(t.exc).__name__ == 'E2PyclParserException'):
                    report(r, ID, None, {'spec': spec, 'cycle_kind': 'generated', 'mode': 'whole-file'}, t.brief(), 'E2PyclParserException', monitor='cycle-rejected')
                continue
            run_dag(ctx, spec, formulas, (ctx.shard_index, i))
            if i == 0:
                r.sample({'formulas': {f'{s}!{a}': spec['sheets'][s]['cells'][a] for s, a in formulas[:5]}})
        r.count('max_translation_depth_seen', 0)
        r.seen('max_translation_depth', tmon.max_depth)
    else:
        idx = 0
        for kind in CYC_KINDS:
            for length in range(1, 6):
                for edges in ('plain', 'bare', 'mixed'):
                    if length == 1 and edges != 'plain':
                        continue
                    spec, first = make_cycle(rng, kind, length, edges)
                    run_cycle(ctx, spec, first, kind + ':' + edges, length, idx)
                    idx += 1
        r.sample({'cycle': {'kind': 'sumif_target', 'length': 3, 'C3': '=SUMIF(A1:A2,">0",C1)'}})
        r.seen('cycles_followed_by_translator', tmon.cycle_seen)


def finish(r, tier, seed):
    return {'exhaustive': False, 'exhaustive_subspaces': ['cycle kinds x lengths 1..5 x {entry inside, entry outside, whole file}'],
            'programs': 2, 'disagreements_checked': r.n_violations}
