"""C11 - aggregates fold exactly the numeric cells of their arguments.

Oracle 1 (reference model, outcome sets): vf/xlref folds over the planted contents - text, booleans and blanks inside
areas are ignored, every numeric cell counts once per mention, COUNTBLANK counts blanks and empty texts, AND/OR are the
conjunction/disjunction of their arguments' truth values; where the statement is silent (dates inside areas, empty
numeric set for AVERAGE/MIN/MAX) both readings are accepted.
Oracle 2 (law, no model): the same cells split into two areas give the same result: SUM(X) = SUM(X1,X2) = SUM(X1)+SUM(X2),
COUNT likewise, MIN/MAX(X) = MIN/MAX(X1,X2), COUNTBLANK(X) = COUNTBLANK(X1)+COUNTBLANK(X2)."""
import datetime as dt
import math

from .. import pipeline, wbspec
from ..findings import report
from ..refcheck import judge_book, replay_case
from ..xlref.values import is_num, norm, Err

ID = 'C11'
LEVEL = 'exploration'
RULE = ('two 8x5 content tables (sheets T, U) over {int, float, negative, zero, text, numeric text, TRUE/FALSE, blank, ="" cell, date}; '
        'SUM/AVERAGE/MIN/MAX/COUNT with 1-4 arguments mixing areas {row, column, rectangle, whole column, other sheet, overlapping} '
        'with single cells and numeric literals; COUNTBLANK over areas; AND/OR over comparisons, numeric and boolean cells and '
        'literals; every area formula also split at a random cut (rows or columns) into two areas for the split laws; contents '
        're-drawn through overrides (incl. empty text) three times. Non-trivial: the arguments mention at least one cell that '
        'must be ignored (text/boolean/blank/numeric text) together with at least one numeric cell, or at least two arguments; '
        'distinct by (formula, valuation)')
ASSUMPTIONS = ['vf/xlref folds = the clauses of the statement', 'date cells inside areas: serial or ignored, either; AVERAGE/MIN/MAX of no numbers: anything',
               'text / blank arguments of AND/OR and non-numeric scalar arguments of the folds are not generated',
               'sums compared at 1e-12 relative (order of floating-point addition is not fixed by the statement)']
HOST_SETTINGS = {'shards': lambda shards: [0], 'env': {'VERIF_HOST_DECIMAL': '3'}}
FLOORS = {'quick': {'evaluations': 6000, 'nontrivial': 3000, 'counters': {'split_laws_checked': 600}},
          'thorough': {'evaluations': 150000, 'nontrivial': 80000, 'counters': {'split_laws_checked': 15000}}}

FOLDS = ['SUM', 'AVERAGE', 'MIN', 'MAX', 'COUNT']


def content(rng):
    k = rng.random()
    if k < 0.30:
        return rng.randrange(1, 60)
    if k < 0.42:
        return round(rng.uniform(0.1, 40), rng.choice([1, 2, 3]))
    if k < 0.50:
        return -rng.randrange(1, 30)
    if k < 0.54:
        return 0
    if k < 0.64:
        return rng.choice(['apple', 'Bee', 'x y', 'k1', '#1024', '#A7', '#TODO', '#tag', 'N/A', '#', '#DIV', 'VALUE!'])
    if k < 0.70:
        return rng.choice(['10', '3.5', '007', '1000', '-500', '9e9'])
    if k < 0.78:
        return rng.random() < 0.5
    if k < 0.83:
        return dt.datetime(2024, 1, 1) + dt.timedelta(days=rng.randrange(0, 300))
    if k < 0.86:
        return '=""'
    if k < 0.92:
        # a formula cell inside the data: what it evaluates to (a number made by a function, a logical, a text, nothing) is folded or
        # ignored by its kind like a constant; column F holds F1-F4 logicals, F5 number, F6 blank, F7 text, F8 float
        ref = f'F{rng.randrange(1, 9)}'
        return rng.choice(['=ROUND({r},0)', '=ROUNDUP({r},1)', '=ROUNDDOWN({r},0)', '={r}+0', '={r}*1', '=IF({r}>0,{r},0)', '=-{r}', '={r}', '={r}={r}', '={r}&""',
                           '=ROUND({r},0)', '=SUM({r},1)', '=MAX({r},-1)', '=IFERROR({r}/1,0)', '=ROUND(2.5,0)', '=1=1', '=LEFT("12",1)',
                           # a cell whose VALUE IS A LIST (a column / a row of another area): the library folds its items wherever the
                           # cell stands in the area - the split laws check that against itself (the reference has no opinion)
                           '=INDEX(F5:F8,0,1)', '=INDEX(F1:F8,0,1)', '=F5:F8', '=INDEX(F5:F5,1,0)']).format(r=ref)
    return None


def area(rng, sheet_prefix=''):
    kind = rng.choice(['row', 'col', 'rect', 'rect', 'wcol', 'wcols', 'cell', 'beyond'])
    if kind == 'beyond':
        # starts inside the data, ends below the last used row / right of the last used column (sheet U holds data only in A1:E8)
        r1, c1 = rng.randrange(1, 9), rng.randrange(1, 6)
        r2, c2 = rng.randrange(9, 14), min(7, c1 + rng.randrange(0, 4))      # column H.. of sheet T holds the formulas themselves
        return sheet_prefix + f'{wbspec.a1(r1, c1)}:{wbspec.a1(r2, c2)}', (r1, c1, r2, c2)
    if kind == 'row':
        r, c1 = rng.randrange(1, 9), rng.randrange(1, 4)
        c2 = c1 + rng.randrange(1, 6 - c1)
        return sheet_prefix + f'{wbspec.a1(r, c1)}:{wbspec.a1(r, c2)}', (r, c1, r, c2)
    if kind == 'col':
        c, r1 = rng.randrange(1, 6), rng.randrange(1, 6)
        r2 = r1 + rng.randrange(1, 9 - r1)
        return sheet_prefix + f'{wbspec.a1(r1, c)}:{wbspec.a1(r2, c)}', (r1, c, r2, c)
    if kind == 'rect':
        r1, c1 = rng.randrange(1, 7), rng.randrange(1, 5)
        r2, c2 = r1 + rng.randrange(1, 9 - r1), c1 + rng.randrange(1, 6 - c1)
        return sheet_prefix + f'{wbspec.a1(r1, c1)}:{wbspec.a1(r2, c2)}', (r1, c1, r2, c2)
    if kind == 'wcol':
        c = rng.choice('ABCDE')
        return sheet_prefix + f'{c}:{c}', None
    if kind == 'wcols':
        c1 = rng.randrange(1, 5)
        c2 = rng.randrange(c1 + 1, 6)
        return sheet_prefix + f'{wbspec.get_column_letter(c1)}:{wbspec.get_column_letter(c2)}', None
    r, c = rng.randrange(1, 9), rng.randrange(1, 6)
    return sheet_prefix + wbspec.a1(r, c), None


def split(rng, box, prefix):
    r1, c1, r2, c2 = box
    if r2 > r1 and (c2 == c1 or rng.random() < 0.5):
        k = rng.randrange(r1, r2)
        return (prefix + f'{wbspec.a1(r1, c1)}:{wbspec.a1(k, c2)}', prefix + f'{wbspec.a1(k + 1, c1)}:{wbspec.a1(r2, c2)}')
    if c2 > c1:
        k = rng.randrange(c1, c2)
        return (prefix + f'{wbspec.a1(r1, c1)}:{wbspec.a1(r2, k)}', prefix + f'{wbspec.a1(r1, k + 1)}:{wbspec.a1(r2, c2)}')
    return None


def truth_arg(rng):
    k = rng.random()
    c = lambda: wbspec.a1(rng.randrange(1, 9), rng.randrange(1, 3))      # noqa: E731  columns A,B hold numbers only (see table)
    if k < 0.5:
        return f'{c()}{rng.choice([">", "<", ">=", "<=", "=", "<>"])}{rng.randrange(0, 40)}'
    if k < 0.7:
        return c()
    if k < 0.85:
        return rng.choice(['TRUE', 'FALSE', '1', '0', 'TRUE()', '2.5'])
    return f'F{rng.randrange(1, 5)}'          # column F: boolean cells


COMBOS = []


def make_book(rng):
    cells = {0: {}, 1: {}}
    for si in (0, 1):
        for r in range(1, 9):
            for c in range(1, 6):
                v = content(rng)
                if c <= 2 and not is_num(v):
                    v = rng.randrange(1, 50) if rng.random() < 0.7 else v     # columns A,B: mostly numbers (AND/OR operands)
                if v is not None:
                    cells[si][wbspec.a1(r, c)] = v
        for r in range(1, 5):
            cells[si][f'F{r}'] = rng.random() < 0.5
        cells[si]['F5'] = rng.randrange(1, 40)
        cells[si]['F7'] = 'w'
        cells[si]['F8'] = round(rng.uniform(0.5, 9.5), 2)
    # make A,B numeric everywhere on sheet 0 for the AND/OR operands
    for r in range(1, 9):
        for c in (1, 2):
            a = wbspec.a1(r, c)
            if not is_num(cells[0].get(a)):
                cells[0][a] = rng.randrange(1, 50)
    forms = []          # (addr, formula, meta)
    row = 1

    def put(f, **meta):
        nonlocal row
        a = wbspec.a1((row - 1) % 45 + 1, 8 + (row - 1) // 45)
        row += 1
        cells[0][a] = f
        forms.append((a, f, meta))
        return a

    laws = []
    for _ in range(30):
        fn = rng.choice(FOLDS)
        n = rng.choice([1, 1, 2, 2, 3, 4])
        args = []
        for _ in range(n):
            k = rng.random()
            pre = '' if rng.random() < 0.75 else rng.choice(['U!', "'U'!"])
            if k < 0.75:
                args.append(area(rng, pre)[0])
            elif k < 0.9:
                args.append(str(rng.choice([0, 1, 5, 2.5, 100, 7])))
            else:
                args.append(pre + wbspec.a1(rng.randrange(1, 9), rng.randrange(1, 6)))
        put(f'={fn}({rng.choice([",", ";"]).join(args)})', nargs=n)
    for _ in range(6):
        put(f'=COUNTBLANK({area(rng, rng.choice(["", "", "U!"]))[0]})', nargs=1)
    for _ in range(8):
        fn = rng.choice(['AND', 'OR'])
        put(f'={fn}({",".join(truth_arg(rng) for _ in range(rng.randrange(1, 5)))})', nargs=2)
    # a fold NEXT TO another consumer of the very same area in one formula (a share: conditional sum / total): what the other function does
    # with the area - and whatever it remembers of it - is not the fold's business.  One-row, one-cell, column and rectangle areas of every
    # content.  A law, no reference (what a criterion makes of mixed kinds is C12's matter): the formula gives what its two parts give in
    # evaluations of their own.
    del COMBOS[:]
    for k_ in range(12):
        pre = rng.choice(['', '', 'U!'])
        kind = rng.choice(['row', 'row', 'row', 'cell', 'col', 'rect'])
        r1, r2 = rng.sample(range(1, 9), 2)
        c1 = rng.randrange(1, 4)
        c2 = rng.randrange(c1 + 1, 6)
        L_ = wbspec.get_column_letter
        if kind == 'row':
            X, Y = f'{pre}{L_(c1)}{r1}:{L_(c2)}{r1}', f'{pre}{L_(c1)}{r2}:{L_(c2)}{r2}'
        elif kind == 'cell':
            X, Y = f'{pre}{L_(c1)}{r1}', f'{pre}{L_(c2)}{r2}'
        elif kind == 'col':
            X, Y = f'{pre}{L_(c1)}1:{L_(c1)}6', f'{pre}{L_(c2)}1:{L_(c2)}6'
        else:
            X, Y = f'{pre}{L_(c1)}1:{L_(c1 + 1)}4', f'{pre}{L_(c2 - 1)}3:{L_(c2)}6'
        fold = rng.choice(FOLDS + ['COUNTBLANK'])
        other = rng.choice(['SUMIFS({X},{Y},">0")', 'SUMIFS({X},{Y},"<>w")', 'AVERAGEIFS({X},{Y},">0")', 'SUMIF({Y},">0",{X})', 'COUNTIFS({X},">0")', 'SUMIFS({X},{X},">5")',
                            'SUMIFS({X},{Y},">0",{X},"<30")', 'MATCH(5,{X},0)', 'INDEX({X},1,1)']).format(X=X, Y=Y)
        shape = rng.choice(['=IFERROR({o},0)*1000+IFERROR({f}({X}),-7)', '=IFERROR({f}({X}),-7)+IFERROR({o},0)*1000', '=IFERROR({o},0)*1000+IFERROR({f}({X}),-7)+IFERROR({f}({X}),-7)*0'])
        za, pa, qa = (wbspec.a1(k_ + 1, 20), wbspec.a1(k_ + 1, 21), wbspec.a1(k_ + 1, 22))
        cells[0][za] = shape.format(o=other, f=fold, X=X)
        cells[0][pa] = f'=IFERROR({other},0)'
        cells[0][qa] = f'=IFERROR({fold}({X}),-7)'
        COMBOS.append((za, pa, qa))
    # split laws
    for _ in range(10):
        pre = rng.choice(['', '', 'U!'])
        while True:
            text, box = area(rng, pre)
            if box and (box[2] > box[0] or box[3] > box[1]):
                break
        sp = split(rng, box, pre)
        if not sp:
            continue
        fn = rng.choice(['SUM', 'SUM', 'COUNT', 'MIN', 'MAX', 'COUNTBLANK'])
        whole = put(f'={fn}({text})', nargs=1)
        p1 = put(f'={fn}({sp[0]})', nargs=1)
        p2 = put(f'={fn}({sp[1]})', nargs=1)
        both = put(f'={fn}({sp[0]},{sp[1]})', nargs=2) if fn != 'COUNTBLANK' else None
        laws.append((fn, whole, p1, p2, both, text, sp))
    for _ in range(4):
        pre = rng.choice(['', '', 'U!'])
        c1 = rng.randrange(1, 5)
        c2 = rng.randrange(c1 + 1, 6)
        k = rng.randrange(c1, c2)
        L = wbspec.get_column_letter
        text, sp = f'{pre}{L(c1)}:{L(c2)}', (f'{pre}{L(c1)}:{L(k)}', f'{pre}{L(k + 1)}:{L(c2)}')
        fn = rng.choice(['SUM', 'COUNT', 'MAX', 'MIN', 'COUNTBLANK'])
        whole = put(f'={fn}({text})', nargs=1)
        p1 = put(f'={fn}({sp[0]})', nargs=1)
        p2 = put(f'={fn}({sp[1]})', nargs=1)
        both = put(f'={fn}({sp[0]},{sp[1]})', nargs=2) if fn != 'COUNTBLANK' else None
        laws.append((fn, whole, p1, p2, both, text, sp))
    # rows holding a cell whose value is a list: the row as one area against the same row cut right in front of that cell
    L0 = wbspec.get_column_letter
    for a_, v_ in list(cells[0].items()):
        if isinstance(v_, str) and (v_.startswith('=INDEX(F') or v_ == '=F5:F8'):
            rr_, cc_ = wbspec.rc(a_)
            if 2 <= cc_ <= 5 and rr_ <= 8:
                text, sp = f'A{rr_}:E{rr_}', (f'A{rr_}:{L0(cc_ - 1)}{rr_}', f'{L0(cc_)}{rr_}:E{rr_}')
                for fn in ('SUM', 'COUNT'):
                    whole = put(f'={fn}({text})', nargs=1)
                    p1 = put(f'={fn}({sp[0]})', nargs=1)
                    p2 = put(f'={fn}({sp[1]})', nargs=1)
                    both = put(f'={fn}({sp[0]},{sp[1]})', nargs=2)
                    laws.append((fn, whole, p1, p2, both, text, sp))
    # sheet W: data in columns X..AC only - areas whose corners lie on both sides of the Z -> AA step of the column letters
    wide = {}
    for r in range(1, 5):
        for c in range(24, 30):
            v = content(rng)
            if v is not None and v != '=""':
                wide[wbspec.a1(r, c)] = v if rng.random() < 0.5 or is_num(v) else rng.randrange(1, 90)
    L = wbspec.get_column_letter
    for _ in range(8):
        c1 = rng.randrange(24, 27)
        c2 = rng.randrange(27, 30)
        r1 = rng.randrange(1, 5)
        r2 = rng.randrange(r1, 5)
        kind = rng.choice(['row', 'rect', 'wcols', 'wcols'])
        if kind == 'row':
            text, box = f'W!{L(c1)}{r1}:{L(c2)}{r1}', (r1, c1, r1, c2)
        elif kind == 'rect':
            text, box = f"'W'!{L(c1)}{r1}:{L(c2)}{r2}", (r1, c1, r2, c2)
        else:
            text, box = f'W!{L(c1)}:{L(c2)}', None
        fn = rng.choice(['SUM', 'COUNT', 'MAX', 'MIN', 'AVERAGE', 'COUNTBLANK'])
        whole = put(f'={fn}({text})', nargs=1)
        k = rng.randrange(c1, c2)
        if fn in ('SUM', 'COUNT', 'MAX', 'MIN', 'COUNTBLANK'):
            if box:
                sp = (f'W!{L(c1)}{box[0]}:{L(k)}{box[2]}', f'W!{L(k + 1)}{box[0]}:{L(c2)}{box[2]}')
            else:
                sp = (f'W!{L(c1)}:{L(k)}', f'W!{L(k + 1)}:{L(c2)}')
            p1 = put(f'={fn}({sp[0]})', nargs=1)
            p2 = put(f'={fn}({sp[1]})', nargs=1)
            both = put(f'={fn}({sp[0]},{sp[1]})', nargs=2) if fn != 'COUNTBLANK' else None
            laws.append((fn, whole, p1, p2, both, text, sp))
    spec = wbspec.spec(wbspec.sheet('T', cells[0]), wbspec.sheet('U', cells[1]), wbspec.sheet('W', wide))
    return spec, forms, laws


def valuations(rng):
    vals = [[]]
    for _ in range(3):
        ov = []
        for _ in range(rng.randrange(6, 16)):
            si = rng.choice([0, 0, 1])
            r, c = rng.randrange(1, 9), rng.randrange(1, 6)
            if si == 1 and rng.random() < 0.35:
                r, c = rng.randrange(9, 14), rng.randrange(1, 8)        # below / right of the data of sheet U
            if si == 0 and c <= 2:
                v = rng.choice([rng.randrange(-20, 60), round(rng.uniform(0, 30), 2)])
            else:
                v = content(rng)
                if v == '=""':
                    v = ''
                if v is None:
                    continue
            ov.append((si, wbspec.a1(r, c), v))
        vals.append(ov)
    return vals


def mentions(spec, formula, overrides):
    """-> (numeric cells mentioned, ignorable cells mentioned, arguments)"""
    from ..xlref import evalr
    from ..xlref.parser import parse, refs
    titles = [s['title'] for s in spec['sheets']]
    env_ = evalr.Env(spec, {(titles[s], *wbspec.rc(a)): v for (s, a, v) in overrides})
    ev = evalr.Evaluator(env_)
    ast = parse(formula)
    nnum = nign = 0
    for node in refs(ast):
        try:
            vals = ev.area(node, 'T').flat()
        except Exception:
            continue
        for v in vals:
            if is_num(v):
                nnum += 1
            else:
                nign += 1
    nargs = len(ast[2]) if ast[0] == 'call' else 1
    return nnum, nign, nargs


def _plan(tier, seed):
    n = 4 if tier == 'quick' else 100
    return [{'k': k, 'n': n} for k in range(16)]




def run_book(ctx, bi):
    r, rng = ctx.r, ctx.rng
    spec, forms, laws = make_book(rng)
    vals = valuations(rng)
    meta = {a: m for a, f, m in forms}
    results = {}

    def on_result(case, out, outs, ok):
        results[(case['cell'], repr(case['overrides']))] = out
        fn = case['formula'][1:case['formula'].index('(')]
        r.count('fn:' + fn)

    def nontrivial(case, outs):
        try:
            nnum, nign, nargs = mentions(spec, case['formula'], case['overrides'])
        except Exception:
            return False
        return (nnum >= 1 and nign >= 1) or nargs >= 2

    # every third book is translated cell by cell through the entry-point API (each aggregate with the slice of its own precedents):
    # cells reached only through an area have to be in that slice with their own kind (0, FALSE and "" are not blank)
    per_cell = bi % 3 == 2
    if per_cell:
        r.count('books_translated_by_entry_cells')
    book = judge_book(ctx, ID, spec, [(0, a) for a, f, m in forms], vals[:2] if per_cell else vals, exact=False, name=f'agg{bi}', monitor='fold-reference',
                      on_result=on_result, classify=None, nontrivial=nontrivial, per_cell=per_cell)
    # a fold next to another consumer of its area: the formula against its parts, per valuation, library against itself
    for (za, pa, qa) in list(COMBOS):
        for val in vals[:3]:
            z, p_, q_ = (book.value(0, k, val) for k in (za, pa, qa))
            r.ev()
            r.count('fold_next_to_another_consumer_checked')
            if not (p_.ok and q_.ok and is_num(norm(p_.value)) and is_num(norm(q_.value)) and not isinstance(p_.value, bool) and not isinstance(q_.value, bool)):
                continue
            want = p_.value * 1000 + q_.value
            r.nt(('combo', bi, za, repr(val)[:40]))
            if not (z.ok and is_num(norm(z.value)) and math.isclose(z.value, want, rel_tol=1e-12, abs_tol=1e-9)):
                report(r, ID, None, {'law': 'COMBO', 'formula': spec['sheets'][0]['cells'][za], 'cell': za, 'sheet': 0, 'overrides': val, 'spec': spec,
                                     'parts': [spec['sheets'][0]['cells'][pa], spec['sheets'][0]['cells'][qa]]},
                       z.brief(), want, monitor='fold-next-to-another-consumer')
    # split laws, per valuation, library against itself
    for (fn, whole, p1, p2, both, text, sp) in laws:
        for val in vals:
            key = repr([(s, a, v) for (s, a, v) in val])
            # where the reference had no opinion (a cell whose value is a list inside the area) the library was not asked yet: the law
            # compares the library with itself, so it is asked now
            o = {k: results.get((k, key)) or book.value(0, k, val) for k in (whole, p1, p2, both) if k}
            if any(v is None for v in o.values()):
                continue
            r.count('split_laws_checked')
            case = {'law': fn, 'area': text, 'split': list(sp), 'overrides': val, 'spec': spec, 'cell': whole, 'sheet': 0,
                    'formula': f'={fn}({text})'}

            def num(x):
                return x.ok and is_num(norm(x.value))
            w, a_, b_ = o[whole], o[p1], o[p2]
            if fn in ('SUM', 'COUNT', 'COUNTBLANK'):
                if not (num(w) and num(a_) and num(b_)):
                    # a cell that fails (an error of the data: ROUND of a text cell) fails the area it lies in AND the part it lies in: the
                    # whole is a number exactly when both parts are
                    if num(w) != (num(a_) and num(b_)):
                        report(r, ID, None, case, {'whole': w.brief(), 'parts': [a_.brief(), b_.brief()]}, 'the whole is a number exactly when both parts are', monitor='split-law')
                    continue
                if not math.isclose(w.value, a_.value + b_.value, rel_tol=1e-12, abs_tol=1e-9):
                    report(r, ID, None, case, {'whole': w.value, 'parts': [a_.value, b_.value]}, f'{fn}(X) = {fn}(X1)+{fn}(X2)', monitor='split-law')
                if both and not (num(o[both]) and math.isclose(w.value, o[both].value, rel_tol=1e-12, abs_tol=1e-9)):
                    report(r, ID, None, case, {'whole': w.value, 'two_areas': o[both].brief()}, f'{fn}(X) = {fn}(X1,X2)', monitor='split-law')
            else:
                pick = min if fn == 'MIN' else max
                if num(w) and both and not (num(o[both]) and o[both].value == w.value):
                    report(r, ID, None, case, {'whole': w.value, 'two_areas': o[both].brief()}, f'{fn}(X) = {fn}(X1,X2)', monitor='split-law')
                # MIN / MAX of a part without any number is 0 (no number to pick): the law holds for parts that do hold numbers
                def holds_numbers(area_text):
                    from ..xlref import evalr as _ev
                    from ..xlref.parser import parse as _parse
                    try:
                        e_ = _ev.Evaluator(_ev.Env(spec, {(['T', 'U', 'W'][s_], *wbspec.rc(a__)): v__ for (s_, a__, v__) in val}))
                        return len(e_.numeric_items([_parse('=' + area_text)], 'T', None)) > 0
                    except Exception:  # noqa: BLE001 - no opinion: the law is not asserted
                        return None
                if num(w) and num(a_) and num(b_) and not (holds_numbers(sp[0]) and holds_numbers(sp[1])):
                    r.count('split_law_part_without_numbers')
                elif num(w) and num(a_) and num(b_) and pick(a_.value, b_.value) != w.value:
                    report(r, ID, None, case, {'whole': w.value, 'parts': [a_.value, b_.value]}, f'{fn}(X) = {fn} of the parts', monitor='split-law')
    if bi % 100 == 0:
        r.sample({'formulas': [f for a, f, m in forms[:10]], 'laws': [[l[0], l[5], list(l[6])] for l in laws[:3]]})


def run_tall(ctx):
    """the folds over areas of tens of thousands of rows, handed to the generated class's own fold functions (the cell matrix of an area
    is a list of rows): the right value, and a time that grows with the size of the area, not with its square.  Verdict by growth
    between two sizes (linear 2x, quadratic 4x) on a time that is long in absolute terms; slowness alone is inconclusive.  The time is the
    CPU time of this process (time.process_time), which a loaded machine stretches far less than the wall clock."""
    import time
    from .. import pipeline
    r, rng = ctx.r, ctx.rng
    book = pipeline.Book(wbspec.spec(wbspec.sheet('S', {'A1': 1, 'A2': 2, 'B1': '=SUM(A1:A2)', 'B2': '=MAX(A1:A2)', 'B3': '=COUNT(A1:A2)'})), ctx.workdir, name='tall')
    if book.cls is None:
        r.violation('translate', {'spec': 'tall'}, book.whole.brief(), 'a loadable class')
        return
    inst = book.cls()
    n1, n2 = (60000, 120000) if ctx.tier == 'quick' else (150000, 300000)
    times = {}
    for n in (n1, n2):
        rows = [[i % 97, 'x' if i % 5 == 0 else i % 3] for i in range(n)]
        want_sum = sum(i % 97 for i in range(n)) + sum(i % 3 for i in range(n) if i % 5)
        t0 = time.process_time()
        flat = pipeline.guarded(lambda: inst._flatten_list(rows), 'evaluate')
        got = pipeline.guarded(lambda: inst._sum(inst._flatten_list([rows])), 'evaluate')
        times[n] = time.process_time() - t0
        r.ev(2)
        r.count('tall_area_folds')
        r.nt(('tall', n))
        if not (flat.ok and len(flat.value) == 2 * n):
            report(r, ID, None, {'formula': f'_flatten_list of {n} rows x 2', 'rows': n}, flat.brief() if not flat.ok else len(flat.value), 2 * n, monitor='tall-area')
        if not (got.ok and got.value == want_sum):
            report(r, ID, None, {'formula': f'SUM over {n} rows x 2 (every fifth cell of the second column a text)', 'rows': n}, got.brief(), want_sum, monitor='tall-area')
    r.counters['tall_area_slowest_ms'] = int(times[n2] * 1000)
    if times[n2] > 4.0 and times[n2] > 3.2 * max(times[n1], 0.05):
        report(r, ID, None, {'formula': 'SUM over an area of n rows', 'rows': [n1, n2]}, {'seconds_n': round(times[n1], 3), 'seconds_2n': round(times[n2], 3)},
               'time that grows about linearly with the number of rows', monitor='fold-time-superlinear')
    r.sample({'tall_areas': [n1, n2], 'seconds': [round(times[n1], 3), round(times[n2], 3)]})


def run_shard(shard, ctx):
    if isinstance(shard, dict) and 'mixed' in shard:
        from ..mixed import run_mixed
        return run_mixed(ctx, ID, shard['n'])
    if 'replay' in shard and shard['replay'].get('law') == 'COMBO':
        c = shard['replay']
        book = pipeline.Book(c['spec'], ctx.workdir, name='replay')
        if book.cls is None:
            return ctx.r.violation('translate', {'spec': 'replay'}, book.whole.brief(), 'a loadable class')
        cl = c['spec']['sheets'][0]['cells']
        pa, qa = [k for k, v in cl.items() if v == c['parts'][0]][0], [k for k, v in cl.items() if v == c['parts'][1]][0]
        val = [(s_, a_, wbspec.dec(v_)) for (s_, a_, v_) in c['overrides']]
        z, p_, q_ = (book.value(0, k, val) for k in (c['cell'], pa, qa))
        ctx.r.ev()
        if p_.ok and q_.ok and is_num(norm(p_.value)) and is_num(norm(q_.value)):
            want = p_.value * 1000 + q_.value
            if not (z.ok and is_num(norm(z.value)) and math.isclose(z.value, want, rel_tol=1e-12, abs_tol=1e-9)):
                report(ctx.r, ID, None, c, z.brief(), want, monitor='fold-next-to-another-consumer')
        return
    if 'replay' in shard:
        return replay_case(ctx, ID, shard['replay'], exact=False)
    if 'tall' in shard:
        return run_tall(ctx)
    for i in range(shard['n']):
        run_book(ctx, shard['k'] * 1000 + i)


def finish(r, tier, seed):
    from ..refcheck import flag_consistency_verdict
    extra = flag_consistency_verdict(r, ID)
    return {**extra, 'functions': {k: v for k, v in r.counters.items() if k.startswith('fn:')},
            'silent_clauses_used': {k: v for k, v in r.counters.items() if k.startswith('silent_clause:')}}


def plan(tier, seed):
    # 'mixed': nests over the whole function set that use at least one function of this property (vf/mixed.py)
    return _plan(tier, seed) + [{'mixed': k, 'n': 3 if tier == 'quick' else 60} for k in range(3 if tier == 'quick' else 8)] + [{'tall': 1}]
