"""C09 - translation output depends only on the current workbook and settings.

(a) facade histories vs a sequential model whose expected result is what a FRESH parser returns for the same final
    (path, entry, safety);  (b) sha256 of the text across processes x hash seeds x process histories;
(c) 8 barrier-released threads on their first translation in a fresh process, with yield injection through
    sys.monitoring LINE events in the token-table modules and a 1 microsecond switch interval."""
import hashlib
import json
import itertools
import os
import sys
import threading
import time

from .. import pipeline, wbspec
from ..findings import report

ID = 'C09'
LEVEL = 'exploration'
RULE = ('(a) every history of length <=3 (thorough <=4) over the facade operations {set path x4 workbooks, set entry x{None, A1, '
        'B2}, enable, disable, get, write} plus random histories of length <=10; every get/write result compared with a fresh '
        'parser configured with the settings in force (text equality or exception class), written bytes = returned text; '
        '(b) corpus workbooks x PYTHONHASHSEED x {fresh process, after 3 other translations}: one sha256 per (workbook, entry); '
        '(c) thread trials, each in a fresh process: 8 threads released by a barrier on their first translation, same and '
        'different workbooks, yield injection; texts compared with the sequential reference. Non-trivial: histories with a '
        'setter between two gets (staleness observable) / sha observations beyond the first per workbook / thread trials with '
        'an observed overlap inside the lazy token-table initialisation')
ASSUMPTIONS = ['a fresh Parser with the same settings is the reference for "corresponds to the settings in force"',
               'thread interleavings are sampled (yield injection), not enumerated']
FLOORS = {'quick': {'evaluations': 1500, 'nontrivial': 500, 'counters': {'history_gets_checked': 1500, 'sha_observations': 60, 'thread_texts_checked': 60}},
          'thorough': {'evaluations': 15000, 'nontrivial': 7000, 'counters': {'history_gets_checked': 15000, 'sha_observations': 1000, 'thread_texts_checked': 1200}}}

WBS = [
    wbspec.spec(wbspec.sheet('S1', {'A1': '=B1+B2', 'B1': 2, 'B2': '=C1*2', 'C1': 5, 'D4': '=SUM(B1:C2)'}), wbspec.sheet('T2', {'A1': 7, 'B2': '=A1&"x"'})),
    wbspec.spec(wbspec.sheet('S1', {'A1': 'eval(1)', 'B2': 3, 'C3': '=B2+1'})),
    wbspec.spec(wbspec.sheet('S1', {'A1': '=IF(B2>1,"os.system(ls)","n")', 'B2': 3})),
    wbspec.spec(wbspec.sheet('X', {'A1': '=B2*B2', 'B2': 9, 'B3': 'text'}), wbspec.sheet('Y', {'A1': 1}), wbspec.sheet('Z', {'C3': '=X!A1'})),
]
ENTRIES = [None, (0, 0, 0), (0, 1, 1)]   # numeric addressing: sheet 0, column, row (0-based)
OPS = [('path', i) for i in range(len(WBS))] + [('entry', j) for j in range(len(ENTRIES))] + [('enable',), ('disable',), ('get',), ('write',)]
OPS_RESAVE = OPS + [('resave',), ('resave',)]


def corpus(n, rng):
    """workbooks for the sha matrix: deterministic content from the index"""
    out = []
    fns = ['=SUM(A1:A3)', '=IF(A1>1,A2,A3)', '=A1&"t"', '=ROUND(A2/3,2)', '=VLOOKUP(A1,A1:B3,2,FALSE)', '=COUNTIFS(A1:A3,">1")',
           '=DATE(2024,A1,1)', '=LEFT("abcdef",A1)', '=MAX(A1:B3)-MIN(A1:B3)', '=IFERROR(A1/0,A3)', '=AVERAGE(A1:A3)', '=A1+A2*A3']
    for i in range(n):
        cells = {'A1': 1 + i % 3, 'A2': 2.5 + i, 'A3': 3, 'B1': 'x', 'B2': i, 'B3': -1}
        for k in range(6):
            cells[f'D{k + 1}'] = fns[(i + k) % len(fns)]
        cells['E1'] = '=D1' if i % 2 else '=D2'
        if i % 3 == 2:
            # text outside ASCII in a title, a constant and a formula literal: what is returned and what is written must not depend
            # on the locale encoding of the process
            cells['C1'] = 'caf\u00e9 \u00fc\u00df \u042f'
            cells['C2'] = '="\u00f1-"&A1'
            out.append(wbspec.spec(wbspec.sheet(f'S{i}', cells), wbspec.sheet('T', {'A1': f'=S{i}!D3'}), wbspec.sheet(f'\u041b\u0438\u0441\u0442{i}', {'A1': '\u65e5\u672c', 'B1': '=A1&"!"'})))
            continue
        out.append(wbspec.spec(wbspec.sheet(f'S{i}', cells), wbspec.sheet('T', {'A1': '=' + f"'S{i}'!D3" if ' ' in f'S{i}' else f'=S{i}!D3'})))
    return out


def plan(tier, seed):
    shards = []
    maxlen = 3 if tier == 'quick' else 4
    parts = 8 if tier == 'quick' else 32
    for p in range(parts):
        shards.append({'kind': 'histories', 'maxlen': maxlen, 'part': p, 'parts': parts, 'random': (200 if tier == 'quick' else 5000) // parts})
    seeds = ['0', '1', '2', 'random'] if tier == 'quick' else [str(i) for i in range(16)]
    ncorp = 8 if tier == 'quick' else 40
    for hs in seeds:
        for mode in ('fresh', 'after3'):
            shards.append({'kind': 'sha', 'mode': mode, 'n': ncorp, '_env': {'PYTHONHASHSEED': hs}})
    # the same matrix in processes whose locale encoding, time zone and UTF-8 mode differ
    for extra in ({'LC_ALL': 'C', 'LANG': 'C', 'PYTHONUTF8': '0', 'PYTHONCOERCECLOCALE': '0'}, {'TZ': 'XYZ-13'}, {'TZ': 'ABC+11', 'PYTHONUTF8': '1'},
                  {'LC_ALL': 'POSIX', 'PYTHONUTF8': '0', 'PYTHONCOERCECLOCALE': '0', 'TZ': 'UTC'}):
        shards.append({'kind': 'sha', 'mode': 'fresh', 'n': ncorp, '_env': {'PYTHONHASHSEED': '3', **extra}})
    shards.append({'kind': 'strict-import'})
    shards.append({'kind': 'shared-parser'})
    shards.append({'kind': 'cwd', 'n': 150 if tier == 'quick' else 2500})
    trials = 10 if tier == 'quick' else 200
    for t in range(trials):
        shards.append({'kind': 'threads', 'trial': t, '_env': {'PYTHONHASHSEED': str(t % 5)}})
    return shards


# ---- (a) histories ---------------------------------------------------------------------------------
class Model:
    """sequential model of the facade: the text belongs to the settings in force AND to the workbook file as it is when the translation
    is made; a request without a setter call since the last successful request is answered from what was translated then (the facade
    does not look at the file again - its documented reading), a request after any setter call reads the file as it is now"""

    def __init__(self, paths):
        self.paths = paths
        self.path, self.entry, self.safety = None, None, True
        self.cache = {}
        self.version = {}          # path index -> 0/1: which of its two contents the file holds now
        self.dirty, self.last = True, None

    def expected(self):
        if not self.dirty and self.last is not None and self.last[0] == 'text':
            return self.last
        key = (self.path, self.entry, self.safety, self.version.get(self.path, 0))
        if key not in self.cache:
            from excel2pycl import Parser, Cell
            p = Parser()
            if self.path is not None:
                p.set_excel_file_path(self.paths[self.path])
            if ENTRIES[self.entry or 0] is not None:
                p.set_entrypoint_cell(Cell(*ENTRIES[self.entry]))
            (p.enable_safety_check if self.safety else p.disable_safety_check)()
            o = pipeline.guarded(p.get_translation, 'translate')
            self.cache[key] = ('text', o.value) if o.ok else ('exc', o.exc_name)
        self.last = self.cache[key]
        self.dirty = self.last[0] != 'text'
        return self.last


def resaved(spec):
    """the other content of a workbook file: the same sheets with another constant and one more formula"""
    import copy
    sp = copy.deepcopy(spec)
    cells = sp['sheets'][0]['cells']
    cells['A1'] = (cells.get('A1') if isinstance(cells.get('A1'), (int, float)) and not isinstance(cells.get('A1'), bool) else 0) + 10
    cells['H9'] = '=SUM(A1:A3)+1'
    return sp


_FILE_VERSION = {}


def run_history(hist, paths, model_cache, r, workdir):
    from excel2pycl import Parser, Cell
    p = Parser()
    m = Model(paths)
    m.cache = model_cache
    for i_, sp_ in enumerate(WBS):
        if _FILE_VERSION.get(paths[i_], 0) != 0:
            wbspec.write(sp_, paths[i_])
            _FILE_VERSION[paths[i_]] = 0
    setter_since_get, had_get, nontrivial = False, False, False
    state0 = pipeline.interpreter_state()
    for step, op in enumerate(hist):
        if op[0] == 'resave':
            # the workbook file of the configured path is saved again with other content (no call into the library)
            if m.path is not None:
                v = 1 - m.version.get(m.path, 0)
                wbspec.write(resaved(WBS[m.path]) if v else WBS[m.path], paths[m.path])
                m.version[m.path] = v
                _FILE_VERSION[paths[m.path]] = v
                r.count('workbook_files_saved_again')
            continue
        if op[0] in ('path', 'entry') or (op[0] == 'enable' and not m.safety) or (op[0] == 'disable' and m.safety):
            # enabling what is enabled is no change of a setting: the facade keeps answering from what it has
            m.dirty = True
        if op[0] == 'path':
            p.set_excel_file_path(paths[op[1]]); m.path = op[1]; setter_since_get = True
        elif op[0] == 'entry':
            e = ENTRIES[op[1]]
            p.set_entrypoint_cell(Cell(*e) if e is not None else None); m.entry = op[1]; setter_since_get = True
        elif op[0] == 'enable':
            p.enable_safety_check(); m.safety = True; setter_since_get = True
        elif op[0] == 'disable':
            p.disable_safety_check(); m.safety = False; setter_since_get = True
        else:
            exp = m.expected()
            if op[0] == 'get':
                o = pipeline.guarded(p.get_translation, 'translate')
                got = ('text', o.value) if o.ok else ('exc', o.exc_name)
            else:
                fp = os.path.join(workdir, 'out.py')
                # the target path is, in turn: absent, holding an earlier (shorter or longer) translation, holding longer foreign
                # text - what was there before must not survive in the written file
                mode = step % 3
                if mode == 0 and os.path.exists(fp):
                    os.remove(fp)
                elif mode == 2:
                    with open(fp, 'w', encoding='utf-8') as f:
                        f.write('# stale tail\n' * 20000)
                r.count('write_target_state:' + ['absent', 'previous', 'longer-foreign'][mode])
                o = pipeline.guarded(lambda: p.write_translation(fp), 'translate')
                if o.ok:
                    with open(fp, encoding='utf-8', newline='') as f:
                        got = ('text', f.read())
                    o2 = pipeline.guarded(p.get_translation, 'translate')
                    r.count('file_vs_text_checks')
                    if not o2.ok or o2.value != got[1]:
                        report(r, ID, None, {'history': hist, 'step': step}, 'written file differs from returned text', None, monitor='file-equals-text')
                else:
                    got = ('exc', o.exc_name)
            r.count('history_gets_checked')
            r.ev()
            state1 = pipeline.interpreter_state()
            if state1 != state0:
                report(r, ID, None, {'history': hist, 'step': step}, {k: (state0[k], state1[k]) for k in state0 if state0[k] != state1[k]},
                       'process-wide interpreter settings as before the call', monitor='interpreter-state')
                state0 = state1
            if got != exp:
                report(r, ID, None, {'history': hist, 'step': step},
                       {'kind': got[0], 'sha_or_exc': hashlib.sha256(got[1].encode()).hexdigest()[:12] if got[0] == 'text' else got[1]},
                       {'kind': exp[0], 'sha_or_exc': hashlib.sha256(exp[1].encode()).hexdigest()[:12] if exp[0] == 'text' else exp[1],
                        'settings': {'path': m.path, 'entry': ENTRIES[m.entry or 0], 'safety': m.safety}}, monitor='facade-model')
            if had_get and setter_since_get:
                nontrivial = True
            had_get, setter_since_get = True, False
    return nontrivial


def run_histories(shard, ctx):
    r, rng = ctx.r, ctx.rng
    paths = []
    for i, sp in enumerate(WBS):
        pth = os.path.join(ctx.workdir, f'w{i}.xlsx')
        os.makedirs(ctx.workdir, exist_ok=True)
        wbspec.write(sp, pth)
        paths.append(pth)
    cache = {}
    if 'one' in shard:
        hs = [[tuple(o) for o in shard['one']]]
    else:
        hs = []
        k = 0
        for n in range(1, shard['maxlen'] + 1):
            for h in itertools.product(OPS, repeat=n):
                # every history ends with a get so that its final state is observed
                if k % shard['parts'] == shard['part']:
                    hs.append(list(h) + [('get',)])
                k += 1
        for _ in range(shard['random']):
            n = rng.randrange(4, 11)
            hs.append([rng.choice(OPS) for _ in range(n)] + [rng.choice([('get',), ('write',)])])
        # the workbook FILE saved again between requests, then a setter that is not the path setter (or none at all) and the next request
        for _ in range(shard['random']):
            i_, j_ = rng.randrange(len(WBS)), rng.randrange(len(ENTRIES))
            mid = rng.choice([[('entry', j_)], [('enable',)], [('disable',)], [('entry', j_), ('enable',)], [], [('path', i_)], [('disable',), ('entry', j_)]])
            pre = [rng.choice(OPS) for _ in range(rng.randrange(0, 3))]
            hs.append(pre + [('path', i_), rng.choice([('get',), ('write',)]), ('resave',)] + mid + [rng.choice([('get',), ('write',)])]
                      + [rng.choice(OPS_RESAVE) for _ in range(rng.randrange(0, 4))] + [('get',)])
    for h in hs:
        if run_history(h, paths, cache, r, ctx.workdir):
            r.nt(('hist', repr(h)))
    r.sample({'history': hs[len(hs) // 2], 'workbooks': 4})


# ---- (b) sha matrix ----------------------------------------------------------------------------------
def run_sha(shard, ctx):
    r, rng = ctx.r, ctx.rng
    import random
    specs = corpus(shard['n'], random.Random(1))
    os.makedirs(ctx.workdir, exist_ok=True)
    paths = [wbspec.write(sp, os.path.join(ctx.workdir, f'c{i}.xlsx')) for i, sp in enumerate(specs)]
    if shard['mode'] == 'after3':
        for sp in WBS[:1] + WBS[3:]:
            pth = wbspec.write(sp, os.path.join(ctx.workdir, 'pre.xlsx'))
            pipeline.translate(pth)
        # earlier translations in this process that were REFUSED part-way (a malformed formula at the end of a dependency chain, a
        # cycle, a chain deeper than the stack, a Python-like cell under the safety check), whole-file and from an entry cell, at the
        # coordinates the corpus uses for its formulas: whatever they left behind must not reach the translations that follow
        from excel2pycl import Cell as _Cell
        chain = {'A1': 1, 'D1': '=D2+1', 'D2': '=D3+E1', 'D3': '=SUM(1;', 'E1': '=D1*2'}
        cyc = {'A1': 1, 'D1': '=D2+1', 'D2': '=E1+1', 'E1': '=D1'}
        deep = {'D1': '=D2+1', **{f'D{i}': f'=D{i + 1}+1' for i in range(2, 400)}, 'D400': 1, 'E1': '=D1'}
        susp = {'A1': 'run eval(1)', 'D1': '=D2', 'D2': 5, 'E1': '=D1'}
        for k_, cells_ in enumerate((chain, cyc, deep, susp)):
            pth = wbspec.write(wbspec.spec(wbspec.sheet('S0', cells_), wbspec.sheet('T', {'A1': '=S0!D1'})), os.path.join(ctx.workdir, f'refused{k_}.xlsx'))
            for entry in (None, _Cell('S0', 'D', '1'), _Cell('T', 'A', '1'), _Cell('S0', 'E', '1')):
                o_ = pipeline.translate(pth, entry=entry, safety=(k_ == 3))
                r.count('refused_translations_before_corpus' if not o_.ok else 'pre_translations_accepted')
        order = list(reversed(range(len(paths))))
    else:
        order = list(range(len(paths)))
    from excel2pycl import Cell
    for i in order:
        for entry in (None, ('T', 'A', '1')):
            o = pipeline.translate(paths[i], entry=Cell(*entry) if entry else None)
            r.ev()
            r.count('sha_observations')
            key = f'sha:c{i}:{"whole" if entry is None else "entry"}'
            r.seen(key, hashlib.sha256(o.value.encode()).hexdigest()[:16] if o.ok else 'EXC:' + o.exc_name)
            # a second call in the same process is byte-identical
            o2 = pipeline.translate(paths[i], entry=Cell(*entry) if entry else None)
            if o.ok != o2.ok or (o.ok and o.value != o2.value):
                report(r, ID, None, {'workbook': i, 'entry': entry, 'hashseed': os.environ.get('PYTHONHASHSEED')}, 'second translation differs', None, monitor='repeat-identical')
            r.nt(('sha', i, entry is None, os.environ.get('PYTHONHASHSEED'), shard['mode']))
            if entry is None and o.ok:
                # the written file holds the returned text (UTF-8), in every process environment
                from excel2pycl import Parser
                outp = os.path.join(ctx.workdir, f'w{i}.py')
                w = pipeline.guarded(lambda: Parser().set_excel_file_path(paths[i]).write_translation(outp), 'translate')
                r.count('written_files_compared')
                data = open(outp, 'rb').read() if os.path.exists(outp) else None
                if not w.ok or data != o.value.encode('utf-8'):
                    report(r, ID, None, {'workbook': i, 'env': shard.get('_env'), 'encoding': __import__('locale').getpreferredencoding(False)},
                           w.brief() if not w.ok else {'bytes': None if data is None else len(data), 'sha': None if data is None else hashlib.sha256(data).hexdigest()[:16]},
                           {'bytes': len(o.value.encode('utf-8')), 'sha': hashlib.sha256(o.value.encode('utf-8')).hexdigest()[:16]}, monitor='written-file-equals-text')
    r.seen('hash_seeds', os.environ.get('PYTHONHASHSEED'))
    r.seen('process_environments', json.dumps({k: v for k, v in sorted((shard.get('_env') or {}).items()) if k != 'PYTHONHASHSEED'}) + ' encoding=' + __import__('locale').getpreferredencoding(False))
    r.sample({'sha_matrix': {'PYTHONHASHSEED': os.environ.get('PYTHONHASHSEED'), 'mode': shard['mode'], 'workbooks': len(paths)}})


# ---- (c) threads -------------------------------------------------------------------------------------
INIT_FUNCS = {'subclasses', '_remove_subclasses_lower_rank', 'get_token_sets'}


def run_threads(shard, ctx):
    r, rng = ctx.r, ctx.rng
    import random
    specs = corpus(4, random.Random(1))
    os.makedirs(ctx.workdir, exist_ok=True)
    paths = [wbspec.write(sp, os.path.join(ctx.workdir, f't{i}.xlsx')) for i, sp in enumerate(specs)]
    # a dependency chain of 260 cells (needs more frames than the default recursion limit allows): alone and in company of other
    # translations the outcome has to be the same (text or the same library exception)
    chain = {'A1': 1}
    chain.update({f'A{i}': f'=A{i - 1}+1' for i in range(2, 262)})
    paths.append(wbspec.write(wbspec.spec(wbspec.sheet('Deep', chain)), os.path.join(ctx.workdir, 't_deep.xlsx')))
    state0 = pipeline.interpreter_state()
    if 'excel2pycl.src.lexer' in sys.modules:
        r.inconcl('lexer module already imported before the thread trial: token tables not fresh')
        return
    mods = ['excel2pycl.src.tokens.base_token', 'excel2pycl.src.tokens.recursive_composite_base_token',
            'excel2pycl.src.tokens.composite_base_token', 'excel2pycl.src.tokens.regexp_base_token']
    codes = []
    for mn in mods:
        m = sys.modules.get(mn)
        if m is None:
            continue
        for obj in vars(m).values():
            if isinstance(obj, type) and obj.__module__ == mn:
                for a in vars(obj).values():
                    f = getattr(a, '__func__', a)
                    if hasattr(f, '__code__'):
                        codes.append(f.__code__)
    # lines that belong to the actual lazy initialisation: bodies of `if not cls._SUBCLASSES:` / `if not cls._PROCESSED:`
    # and the whole of _remove_subclasses_lower_rank (only called from such a body)
    import ast
    import inspect
    import textwrap
    init_lines = {}
    for c in codes:
        if c.co_name not in INIT_FUNCS:
            continue
        try:
            src, first = inspect.getsourcelines(c)
        except (OSError, TypeError):
            continue
        body = set()
        if c.co_name == '_remove_subclasses_lower_rank':
            body = set(range(first, first + len(src)))
        else:
            tree = ast.parse(textwrap.dedent(''.join(src)))
            for node in ast.walk(tree):
                if isinstance(node, ast.If):
                    for st in node.body:
                        body.update(range(first + st.lineno - 1, first + (st.end_lineno or st.lineno)))
        init_lines[c] = body
    lock = threading.Lock()
    in_init = {}           # thread id -> set of code objects whose init body it is executing
    log = []               # (thread, func, line) inside init bodies
    overlaps = [0]
    yields = [0]
    lrng = random.Random(ctx.seed * 7919 + shard['trial'])
    mon = sys.monitoring
    TOOL = 3
    try:
        mon.use_tool_id(TOOL, 'vf-c09')
    except ValueError:
        r.inconcl('sys.monitoring tool id in use')
        return

    def on_return(code, off, retval):
        t = threading.get_ident()
        with lock:
            s_ = in_init.get(t)
            if s_:
                s_.discard(code)

    def on_line(code, line):
        t = threading.get_ident()
        body = init_lines.get(code)
        if not body or line not in body:
            return None
        with lock:
            s_ = in_init.setdefault(t, set())
            if code not in s_:
                s_.add(code)
                if sum(1 for v in in_init.values() if v) >= 2:
                    overlaps[0] += 1
            if len(log) < 20000:
                log.append((t, code.co_name, line))
            do_yield = lrng.random() < 0.6
            if do_yield:
                yields[0] += 1
        if do_yield:
            time.sleep(0)

    E = mon.events
    mon.register_callback(TOOL, E.PY_RETURN, on_return)
    mon.register_callback(TOOL, E.LINE, on_line)
    for c in init_lines:
        mon.set_local_events(TOOL, c, E.PY_RETURN | E.LINE)
    old_si = sys.getswitchinterval()
    sys.setswitchinterval(1e-6)
    n = 8
    barrier = threading.Barrier(n)
    res = [None] * n
    which = [0, 0, 0, 0, 1, 2, 3, 1] if shard['trial'] % 3 == 0 else [0] * 8 if shard['trial'] % 3 == 1 else [0, 4, 1, 4, 2, 4, 0, 4]

    def work(i):
        barrier.wait()
        res[i] = pipeline.translate(paths[which[i]])
    ths = [threading.Thread(target=work, args=(i,)) for i in range(n)]
    for t in ths:
        t.start()
    for t in ths:
        t.join(300)
    sys.setswitchinterval(old_si)
    for c in init_lines:
        mon.set_local_events(TOOL, c, 0)
    mon.free_tool_id(TOOL)
    if any(t.is_alive() for t in ths):
        r.inconcl('thread trial did not finish within the watchdog')
        return
    state1 = pipeline.interpreter_state()
    if state1 != state0:
        report(r, ID, None, {'trial': shard['trial'], 'hashseed': os.environ.get('PYTHONHASHSEED')}, {k: (state0[k], state1[k]) for k in state0 if state0[k] != state1[k]},
               'process-wide interpreter settings as before the translations', monitor='interpreter-state')
    # sequential reference in the same process (tables initialised now) - and cross-checked with the sha shards in finish()
    for i in range(n):
        ref = pipeline.translate(paths[which[i]])
        r.ev()
        r.count('thread_texts_checked')
        o = res[i]
        if o is None or o.ok != ref.ok or (o.ok and o.value != ref.value) or (not o.ok and o.exc_name != ref.exc_name):
            report(r, ID, None, {'trial': shard['trial'], 'thread': i, 'workbook': which[i], 'hashseed': os.environ.get('PYTHONHASHSEED')},
                   o.brief() if o is not None and not o.ok else 'text differs from the sequential translation', 'sequential reference text',
                   monitor='threads-vs-sequential')
        if o is not None and o.ok:
            r.seen(f'sha:c{which[i]}:whole' if which[i] < 4 else 'sha:deep-chain:whole', hashlib.sha256(o.value.encode()).hexdigest()[:16])
    r.count('thread_trials')
    r.count('thread_init_overlaps', overlaps[0])
    r.count('thread_yields_injected', yields[0])
    sig = hashlib.sha1(repr([(threads_index(log, t), f, l) for t, f, l in log]).encode()).hexdigest()[:12]
    r.seen('distinct_init_interleavings', sig)
    if overlaps[0] > 0:
        r.count('thread_trials_with_overlap')
        r.nt(('threads', shard['trial'], sig))
    if shard['trial'] == 0:
        r.sample({'thread_trial': 0, 'threads': n, 'overlaps_inside_lazy_init': overlaps[0], 'yields_injected': yields[0],
                  'init_events_logged': len(log)})


def threads_index(log, t, _cache={}):
    key = id(log)
    if key not in _cache:
        _cache.clear()
        order = []
        for tt, _, _ in log:
            if tt not in order:
                order.append(tt)
        _cache[key] = {tt: i for i, tt in enumerate(order)}
    return _cache[key].get(t, -1)


def run_shared_parser(shard, ctx):
    """ONE Parser object used by two threads: while the first is still translating, the second asks the same Parser for its text (or
    has it written).  Both answers are the text of the workbook that is configured - the same bytes a Parser of its own returns.
    The second call arrives after a measured fraction of the time one translation takes, so the two overlap by construction; the
    evidence counts the trials in which they really did (the first call returned after the second had started)."""
    import hashlib
    r, rng = ctx.r, ctx.rng
    rows = 260 if ctx.tier == 'quick' else 600
    cells = {}
    for i in range(1, rows + 1):
        cells[f'A{i}'] = i
        cells[f'B{i}'] = f'=IF(A{i}>3,SUM(A1:A{min(i, 40)})*2,ROUND(A{i}/7,2))&"-"&LEFT("abcdef",MOD_{i % 3})'.replace(f'MOD_{i % 3}', str(i % 3 + 1))
    big = wbspec.write(wbspec.spec(wbspec.sheet('Big', cells)), os.path.join(ctx.workdir, 'shared_big.xlsx'))
    small = wbspec.write(wbspec.spec(wbspec.sheet('Small', {'A1': 1, 'B1': '=A1+1'})), os.path.join(ctx.workdir, 'shared_small.xlsx'))
    t0 = time.perf_counter()
    base = pipeline.translate(big)
    dur = time.perf_counter() - t0
    base_small = pipeline.translate(small)
    if not (base.ok and base_small.ok):
        r.violation('translate', {'workbook': 'shared-parser corpus'}, base.brief(), 'a text')
        return
    want = hashlib.sha256(base.value.encode()).hexdigest()
    for trial, frac in enumerate([0.1, 0.25, 0.5, 0.75, 0.05, 0.9] if ctx.tier == 'quick' else [0.02 * k for k in range(1, 48)]):
        for second in ('get', 'write'):
            p = pipeline.make_parser(small)
            first_small = pipeline.guarded(lambda: p.get_translation(), 'translate')       # the parser has a history: another workbook, cached
            p.set_excel_file_path(big)
            res, times = {}, {}

            def call(tag, how):
                times[tag + '_start'] = time.perf_counter()
                if how == 'get':
                    res[tag] = pipeline.guarded(lambda: p.get_translation(), 'translate')
                else:
                    path = os.path.join(ctx.workdir, f'shared_{trial}_{tag}.py')
                    w = pipeline.guarded(lambda: p.write_translation(path), 'translate')
                    res[tag] = pipeline.Outcome(pipeline.VALUE, open(path, encoding='utf-8', newline='').read()) if w.ok and os.path.exists(path) else w
                times[tag + '_end'] = time.perf_counter()
            ta = threading.Thread(target=call, args=('a', 'get'))
            tb = threading.Thread(target=call, args=('b', second))
            ta.start()
            time.sleep(dur * frac)
            tb.start()
            ta.join(300)
            tb.join(300)
            r.ev(2)
            r.count('shared_parser_trials')
            if times.get('a_end', 0) > times.get('b_start', 1e99):
                r.count('shared_parser_trials_overlapping')
            r.nt(('shared-parser', trial, second))
            for tag in ('a', 'b'):
                o = res.get(tag)
                got = hashlib.sha256(o.value.encode()).hexdigest() if (o is not None and o.ok and isinstance(o.value, str)) else None
                if got != want:
                    what = 'the text of the workbook configured BEFORE' if (o is not None and o.ok and o.value == base_small.value) else (o.brief() if o is not None else 'no answer')
                    report(r, ID, None, {'trial': trial, 'what': f'one Parser, two threads: call {tag} ({"get_translation" if tag == "a" or second == "get" else "write_translation"}), the second call started after {frac:.2f} of a translation'},
                           what, 'the text of the configured workbook (sha %s)' % want[:12], monitor='shared-parser')
    # a SETTER from another thread while a translation is running: once that translation has returned, the next request answers for
    # the settings in force now
    want_small = hashlib.sha256(base_small.value.encode()).hexdigest()
    for trial, frac in enumerate([0.2, 0.5, 0.8] if ctx.tier == 'quick' else [0.05 * k for k in range(1, 19)]):
        for which in ('path', 'entry', 'safety'):
            p = pipeline.make_parser(big)
            done = {}

            def first():
                done['a'] = pipeline.guarded(lambda: p.get_translation(), 'translate')
                done['a_end'] = time.perf_counter()
            ta = threading.Thread(target=first)
            ta.start()
            time.sleep(dur * frac)
            t_set = time.perf_counter()
            if which == 'path':
                p.set_excel_file_path(small)
                fresh = pipeline.make_parser(small)
            elif which == 'entry':
                p.set_entrypoint_cell(pipeline.entry_cell('Big', 'B3'))
                fresh = pipeline.make_parser(big, entry=pipeline.entry_cell('Big', 'B3'))
            else:
                p.enable_safety_check()
                fresh = pipeline.make_parser(big, safety=True)
            ta.join(300)
            after = pipeline.guarded(lambda: p.get_translation(), 'translate')
            want_now = pipeline.guarded(lambda: fresh.get_translation(), 'translate')
            r.ev()
            r.count('setter_during_translation_trials')
            if done.get('a_end', 0) > t_set:
                r.count('setter_during_translation_trials_overlapping')
            r.nt(('setter-race', trial, which))
            same = (after.ok == want_now.ok) and (not after.ok or after.value == want_now.value)
            if not same:
                report(r, ID, None, {'trial': trial, 'what': f'one Parser: {which} changed by a setter after {frac:.2f} of a running translation; then the translation returned and get_translation was asked'},
                       'the text for the settings BEFORE the setter' if (after.ok and done.get('a') is not None and done['a'].ok and after.value == done['a'].value) else after.brief(),
                       'the text a Parser of its own returns for the settings in force', monitor='shared-parser')
    if not r.counters.get('shared_parser_trials_overlapping'):
        r.inconcl('no shared-parser trial overlapped (the first call had returned before the second started)')
    r.sample({'shared_parser': {'rows': rows, 'seconds_per_translation': round(dur, 3)}})


def run_strict_import(shard, ctx):
    """an interpreter that shows (or refuses) what the compiler warns about: importing the library and translating must not produce a
    warning out of the library's OWN source files - under -W error the same warning is an exception and no text is produced at all, and
    a SyntaxWarning of today (an invalid escape sequence) is a SyntaxError of a later Python.  Observed in a process of its own: the
    source files are compiled afresh (no bytecode files are read or written), every warning category is shown."""
    import subprocess
    import sys
    r = ctx.r
    root = os.environ.get('VERIF_REPO_ROOT', '/repo')
    code = ('import warnings, sys\n'
            'import excel2pycl\n'
            'from excel2pycl.src import context, excel, lexer, ast_builder\n'
            'from excel2pycl.src.utilities import abstract_excel_in_python_class, executor, parser\n'
            'import excel2pycl.src.tokens, excel2pycl.src.translators\n'
            'print("IMPORTED")\n')
    for flags, what in ((['-W', 'always'], 'shown'), (['-W', 'error::SyntaxWarning', '-W', 'error::DeprecationWarning'], 'raised')):
        env = dict(os.environ, PYTHONPATH=root, PYTHONDONTWRITEBYTECODE='1')
        env.pop('PYTHONWARNINGS', None)
        c = subprocess.run([sys.executable] + flags + ['-c', code], env=env, capture_output=True, text=True, timeout=300)
        r.ev()
        r.count('strict_import_processes')
        own = [ln for ln in c.stderr.splitlines() if 'Warning' in ln and (root.rstrip('/') + '/excel2pycl') in ln]
        r.nt(('strict-import', what))
        if own or ('IMPORTED' not in c.stdout and (root.rstrip('/') + '/excel2pycl') in c.stderr and 'Warning' in c.stderr):
            report(r, ID, None, {'what': 'import of the library in a fresh process, warnings ' + what, 'flags': flags}, (own or c.stderr.splitlines()[-3:])[:4],
                   'no warning out of the library\'s own source files', monitor='library-source-warns')
        elif 'IMPORTED' not in c.stdout:
            r.count('strict_import_failed_elsewhere')      # a dependency warns: not the library's business
    r.sample({'strict_import': 'python -W always / -W error::SyntaxWarning -c "import excel2pycl, ..." in a fresh process'})


def run_cwd(shard, ctx):
    """relative workbook paths and a host that changes its working directory between facade calls.  Three directories hold a workbook of
    the same NAME with different content (one directory holds none; one is also reachable through a symbolic link, so "link/../book.xlsx"
    is not "book.xlsx").  Histories of (path spelling | chdir | entry | get | write); the oracle for a request that follows a setter is
    a FRESH parser given the same spelling in the working directory of the request ("the file path in force at the time of the call");
    a request without a setter since the last successful one repeats its text.  The workdir of the process is restored afterwards."""
    from excel2pycl import Parser, Cell
    r, rng = ctx.r, ctx.rng
    root = os.path.join(ctx.workdir, 'cwd')
    dirs = [os.path.join(root, n) for n in ('a', 'b', 'deep/c', 'empty')]
    for i, d in enumerate(dirs):
        os.makedirs(os.path.join(d, 'sub'), exist_ok=True)
        if i < 3:
            wbspec.write(wbspec.spec(wbspec.sheet('S', {'A1': 100 * (i + 1), 'A2': i, 'B1': f'=A1+A2+{i}', 'B2': '=SUM(A1:A2)'})), os.path.join(d, 'book.xlsx'))
    # a/link -> deep/c : "link/../book.xlsx" from a/ names deep/book.xlsx (absent), while its textual clean-up names a/book.xlsx
    if not os.path.islink(os.path.join(dirs[0], 'link')):
        os.symlink(dirs[2], os.path.join(dirs[0], 'link'))
    wbspec.write(wbspec.spec(wbspec.sheet('S', {'A1': 777, 'B1': '=A1*2'})), os.path.join(root, 'deep', 'book.xlsx'))
    spellings = ['book.xlsx', './book.xlsx', 'sub/../book.xlsx', 'link/../book.xlsx', '../a/book.xlsx', '../b/book.xlsx']
    ops = [('path', k) for k in range(len(spellings))] + [('chdir', k) for k in range(len(dirs))] * 2 + [('entry', 0), ('entry', 1), ('get',), ('get',), ('write',)]
    home = os.getcwd()
    fresh_cache = {}

    def fresh(cwd_i, sp_i, entry):
        key = (cwd_i, sp_i, entry)
        if key not in fresh_cache:
            q = Parser().set_excel_file_path(spellings[sp_i])
            if entry:
                q.set_entrypoint_cell(Cell(0, 1, 0))
            o = pipeline.guarded(q.get_translation, 'translate')
            fresh_cache[key] = ('text', o.value) if o.ok else ('exc', o.exc_name)
        return fresh_cache[key]

    try:
        for h in range(shard.get('n', 120)):
            hist = [('chdir', rng.randrange(3)), ('path', rng.randrange(len(spellings)))] + [rng.choice(ops) for _ in range(rng.randrange(2, 9))] + [('get',)]
            p = Parser()
            cwd_i, sp_i, entry, dirty, last = None, None, 0, True, None
            for step, op in enumerate(hist):
                if op[0] == 'chdir':
                    os.chdir(dirs[op[1]])
                    cwd_i = op[1]
                elif op[0] == 'path':
                    p.set_excel_file_path(spellings[op[1]])
                    sp_i, dirty = op[1], True
                elif op[0] == 'entry':
                    p.set_entrypoint_cell(Cell(0, 1, 0) if op[1] else None)
                    entry, dirty = op[1], True
                else:
                    if op[0] == 'get':
                        o = pipeline.guarded(p.get_translation, 'translate')
                        got = ('text', o.value) if o.ok else ('exc', o.exc_name)
                    else:
                        fp = os.path.join(root, 'out.py')
                        o = pipeline.guarded(lambda: p.write_translation(fp), 'translate')
                        got = ('text', open(fp, encoding='utf-8', newline='').read()) if o.ok else ('exc', o.exc_name)
                    exp = fresh(cwd_i, sp_i, entry) if (dirty or last is None or last[0] != 'text') else last
                    r.ev()
                    r.count('cwd_requests_checked')
                    r.nt(('cwd', cwd_i, sp_i, entry, dirty))
                    if got != exp:
                        report(r, ID, None, {'cwd_history': [list(o_) for o_ in hist], 'step': step, 'spellings': spellings, 'dirs': ['a', 'b', 'deep/c', 'empty']},
                               {'kind': got[0], 'sha_or_exc': hashlib.sha256(got[1].encode()).hexdigest()[:12] if got[0] == 'text' else got[1]},
                               {'kind': exp[0], 'sha_or_exc': hashlib.sha256(exp[1].encode()).hexdigest()[:12] if exp[0] == 'text' else exp[1],
                                'as': 'a fresh parser given the same spelling in the working directory of the request'}, monitor='facade-model')
                    last = got
                    dirty = got[0] != 'text'
                    r.seen('cwd_outcomes', got[0] if got[0] == 'text' else got[1])
    finally:
        os.chdir(home)
    r.sample({'cwd_history': [list(o_) for o_ in hist], 'spellings': spellings})


def run_shard(shard, ctx):
    if 'replay' in shard:
        c = shard['replay']
        if 'cwd_history' in c:
            return run_cwd({'n': 200}, ctx)
        if 'history' in c:
            return run_histories({'one': c['history']}, ctx)
        if 'trial' in c:
            return run_threads({'trial': c['trial']}, ctx)
        return run_sha({'mode': 'fresh', 'n': 8}, ctx)
    {'histories': run_histories, 'sha': run_sha, 'threads': run_threads, 'strict-import': run_strict_import, 'shared-parser': run_shared_parser, 'cwd': run_cwd}[shard['kind']](shard, ctx)


def finish(r, tier, seed):
    # one sha per (workbook, mode) across every process, hash seed, history and thread
    for k, v in r.sets.items():
        if k.startswith('sha:'):
            r.evaluations += 1
            if len(v) != 1:
                r.violation('sha-matrix', {'workbook': k, 'what': 'different texts for one workbook and settings across processes/hash seeds/threads'},
                            sorted(v), 'a single sha256')
    trials = r.counters.get('thread_trials', 0)
    if trials and not r.counters.get('thread_trials_with_overlap'):
        r.inconcl('no thread trial observed two threads inside the lazy token-table initialisation at once (schedule clause not exercised)')
    return {'distinct_interleavings_in_lazy_init': len(r.sets.get('distinct_init_interleavings', ())),
            'thread_trials': trials, 'thread_trials_with_overlap': r.counters.get('thread_trials_with_overlap', 0),
            'hash_seeds': sorted(r.sets.get('hash_seeds', ())), 'exhaustive': False,
            'exhaustive_subspaces': [f'all facade histories up to length {3 if tier == "quick" else 4} over 11 operations (each followed by get)']}
