"""C15 - date functions follow the Gregorian calendar exactly.

Oracle: closed forms on datetime/calendar (vf/xlref.evalr: add_months, datedif, networkdays) - independent of dateutil.
TODAY: virtual clock shim in the loaded module + real clock under three time zones (sub-processes)."""
import datetime as dt
import time
import types

from .. import pipeline, wbspec
from ..findings import report
from ..instr.runtime import RuntimeMonitor
from ..xlref import evalr
from ..xlref.values import outcome_matches, Err, XlError

ID = 'C15'
LEVEL = 'exploration'
RULE = ('DATE over the box year in {1900,1999,2000,2001,2023,2024,2100} x month -30..40 x day -400..500 (quick: 60k sample, '
        'thorough: all 448k + random years) with YEAR/MONTH/DAY inversion on every result; DATEDIF D/M/Y/YM over date pairs '
        'of a multi-year window; EDATE/EOMONTH start dates x offsets -60..60; NETWORKDAYS intervals <=120 days in both '
        'directions x holiday ranges with gaps, duplicates, weekend holidays and a text cell; TODAY under a virtual clock '
        '(23:59:59, 00:00:00, leap day, year end, UTC date != local date) and under the real clock in 3 time zones. '
        'Non-trivial: DATE points needing normalisation (month outside 1..12 or day outside 1..28), DATEDIF pairs with a '
        'month/year borrow, EDATE/EOMONTH month-end clamps, NETWORKDAYS intervals containing a weekend or holiday; shards '
        'partition the spaces, distinct cases counted by construction')
ASSUMPTIONS = ['datetime/calendar of CPython are the Gregorian calendar', 'years 1900..9999 only',
               'DATEDIF units MD/YD and start>end kinds of error are not asserted']
HOST_SETTINGS = {'shards': lambda shards: [0, len(shards) - 1], 'env': {'VERIF_HOST_DECIMAL': '2', 'TZ': 'XYZ-13'}}
FLOORS = {'quick': {'evaluations': 150000, 'nontrivial': 40000, 'counters': {'today_checks': 8}},
          'thorough': {'evaluations': 2500000, 'nontrivial': 600000, 'counters': {'today_checks': 8}}}

YEARS = [1900, 1999, 2000, 2001, 2023, 2024, 2100]
SPEC = wbspec.spec(wbspec.sheet('S1', {
    'A1': 2024, 'B1': 1, 'C1': 1, 'D1': '=DATE(A1,B1,C1)', 'E1': '=YEAR(D1)', 'F1': '=MONTH(D1)', 'G1': '=DAY(D1)',
    # year, month and day arriving as whole floats (made by ROUND, by a division, by a sum with 0.0) and as a blank-selecting IF
    'H1': '=DATE(ROUND(A1,0),B1/1,SUM(C1,0.0))', 'I1': '=DATE(A1*1.0,ROUND(B1,0),C1)', 'J1': '=DAY(DATE(A1,B1,ROUNDDOWN(C1,0)))',
    # the same pair of dates with a time of day in one or both of them: DATEDIF counts calendar days, months and years
    'A2': dt.datetime(2024, 1, 1), 'B2': dt.datetime(2024, 2, 1),
    'C2': '=DATEDIF(A2,B2,"D")', 'D2': '=DATEDIF(A2,B2,"M")', 'E2': '=DATEDIF(A2,B2,"Y")', 'F2': '=DATEDIF(A2,B2,"YM")',
    'A3': dt.datetime(2024, 1, 31), 'B3': 1, 'C3': '=EDATE(A3,B3)', 'D3': '=EOMONTH(A3,B3)',
    # the month count arriving otherwise than as an int in a cell: a blank cell (Z9 is never written: 0 months), an IF that selects the
    # blank cell, a whole float made by arithmetic, another function's result
    'E3': '=EDATE(A3,Z9)', 'F3': '=EOMONTH(A3,Z9)', 'G3': '=EDATE(A3,IF(B3>999,1,Z9))', 'H3': '=EDATE(A3,B3*1.0)', 'I3': '=EOMONTH(A3,ROUND(B3,0))',
    'J3': '=EOMONTH(A3,IF(B3>999,1,Z9))', 'K3': '=EDATE(A3,SUM(B3,Z9))',
    'A5': '=TODAY()', 'B5': '=YEAR(TODAY())', 'C5': '=DAY(TODAY())',
}))


def exp_date(y, m, d):
    try:
        base = evalr.add_months(dt.datetime(y, 1, 1), m - 1)
        res = base + dt.timedelta(days=d - 1)
    except (XlError, OverflowError, ValueError):
        return None
    if not (1900 <= res.year <= 9999):
        return None
    return res


def _plan(tier, seed):
    shards = []
    for y in YEARS:
        for half in range(2):
            shards.append({'kind': 'date', 'year': y, 'half': half})
    if tier == 'thorough':
        for i in range(10):
            shards.append({'kind': 'date', 'year': None, 'half': i % 2, 'ridx': i})
    nd = 8 if tier == 'quick' else 32
    for i in range(nd):
        shards.append({'kind': 'datedif', 'part': i, 'parts': nd})
    ne = 4 if tier == 'quick' else 12
    for i in range(ne):
        shards.append({'kind': 'edate', 'part': i, 'parts': ne})
    nn = 4 if tier == 'quick' else 16
    for i in range(nn):
        shards.append({'kind': 'networkdays', 'part': i, 'parts': nn})
    shards.append({'kind': 'today_virtual'})
    for tz in ('UTC', 'Pacific/Kiritimati', 'Etc/GMT+12'):
        shards.append({'kind': 'today_real', '_env': {'TZ': tz}})
    return shards


def _book(ctx, spec=SPEC, name='wb'):
    book = pipeline.Book(spec, ctx.workdir, name=name)
    if book.cls is None:
        ctx.r.violation('translate', {'spec': name}, book.whole.brief(), 'a loadable class')
        return None
    RuntimeMonitor(ctx.r).install(book.cls)
    return book


def run_date(shard, ctx):
    r, rng = ctx.r, ctx.rng
    book = _book(ctx)
    if not book:
        return
    if shard['year'] is None:
        years = [rng.randrange(1900, 9990) for _ in range(2)]
    else:
        years = [shard['year']]
    pts = shard.get('points')
    nt = 0
    for y in years:
        for m in range(-30, 41):
            if pts is None and (m % 2) != shard['half']:
                continue
            for d in range(-400, 501):
                if pts is not None:
                    if (y, m, d) not in pts:
                        continue
                elif ctx.tier == 'quick' and not (abs(d) <= 40 or d % 7 == 0 or rng.random() < 0.02):
                    continue
                exp = exp_date(y, m, d)
                if exp is None:
                    r.count('date_out_of_domain')
                    continue
                floats = (d % 5 == 0)
                outs = book.values(0, ['D1', 'E1', 'F1', 'G1'] + (['H1', 'I1', 'J1'] if floats else []), [(0, 'A1', y), (0, 'B1', m), (0, 'C1', d)])
                r.ev(len(outs))
                bad = []
                if not outcome_matches(outs[0], [exp]):
                    bad.append(('DATE', outs[0].brief(), exp))
                if floats:
                    r.count('date_from_whole_floats', 3)
                    for o, e, nme in zip(outs[4:], (exp, exp, exp.day), ('DATE(ROUND,/,SUM)', 'DATE(*1.0,ROUND,)', 'DAY(DATE(,,ROUNDDOWN))')):
                        if not outcome_matches(o, [e]):
                            bad.append((nme, o.brief(), e))
                for o, e, nme in zip(outs[1:4], (exp.year, exp.month, exp.day), ('YEAR', 'MONTH', 'DAY')):
                    if not outcome_matches(o, [e]):
                        bad.append((nme, o.brief(), e))
                if bad:
                    report(r, ID, None, {'fn': 'DATE', 'y': y, 'm': m, 'd': d}, [b[:2] for b in bad], exp, monitor='calendar-closed-form')
                if not (1 <= m <= 12 and 1 <= d <= 28):
                    nt += 1
    # the end of the calendar: months or days that carry the date past 9999-12-31 are the error value #NUM! (a cell cannot hold that day)
    if pts is None and shard['half'] == 0:
        for (y, m, d) in ((9999, 13, 1), (9999, 12, 32), (9999, 12, 400), (9998, 25, 1), (9999, 1, 366), (9999, 24, 31), (9990, 130, 1)):
            o = book.value(0, 'D1', [(0, 'A1', y), (0, 'B1', m), (0, 'C1', d)])
            r.ev()
            r.count('dates_beyond_the_calendar')
            nt += 1
            if not (o.ok and o.value == '#NUM!'):
                report(r, ID, None, {'fn': 'DATE', 'y': y, 'm': m, 'd': d}, o.brief(), '#NUM!', monitor='calendar-closed-form')
        for (y, m, d) in ((9999, 12, 31), (9998, 24, 31), (9999, 11, 61)):
            o = book.value(0, 'D1', [(0, 'A1', y), (0, 'B1', m), (0, 'C1', d)])
            r.ev()
            if not outcome_matches(o, [dt.datetime(9999, 12, 31)]):
                report(r, ID, None, {'fn': 'DATE', 'y': y, 'm': m, 'd': d}, o.brief(), dt.datetime(9999, 12, 31), monitor='calendar-closed-form')
    r.nontrivial_disjoint += nt
    r.sample({'fn': 'DATE', 'year': years[0], 'months': [-30, 40], 'days': [-400, 500]})


def run_datedif(shard, ctx):
    r, rng = ctx.r, ctx.rng
    book = _book(ctx)
    if not book:
        return
    base = dt.datetime(2019, 1, 1)
    n1 = 1600
    step = 1 if ctx.tier == 'thorough' else 4
    deltas_all = list(range(0, 1900))
    nt = 0
    pairs = shard.get('pairs')
    for i in range(shard['part'], n1, shard['parts'] * step) if pairs is None else [0]:
        d1 = base + dt.timedelta(days=i)
        if pairs is None:
            k = 100 if ctx.tier == 'quick' else 650
            deltas = sorted(set(rng.sample(deltas_all, k) + [0, 1, 27, 28, 29, 30, 31, 59, 365, 366, 730, 731, 1095, 1096, 1461]))
            cur = [(d1, d1 + dt.timedelta(days=x)) for x in deltas]
        else:
            cur = pairs
        for ci, (a, b) in enumerate(cur):
            # every fifth pair carries a time of day (late start, early end and the other way round): DATEDIF looks at the calendar dates
            ta, tb = a, b
            if pairs is None and ci % 5 == 0:
                ta = a + dt.timedelta(hours=rng.choice([0, 6, 18, 23]), minutes=rng.choice([0, 59]))
                tb = b + dt.timedelta(hours=rng.choice([0, 1, 12, 23]), seconds=rng.choice([0, 59]))
                r.count('datedif_pairs_with_a_time_of_day')
            outs = book.values(0, ['C2', 'D2', 'E2', 'F2'], [(0, 'A2', ta), (0, 'B2', tb)])
            r.ev(4)
            bad = []
            for o, u in zip(outs, ('D', 'M', 'Y', 'YM')):
                e = evalr.datedif(dt.datetime(a.year, a.month, a.day), dt.datetime(b.year, b.month, b.day), u)
                if not outcome_matches(o, [e]):
                    bad.append((u, o.brief(), e))
            if bad:
                report(r, ID, None, {'fn': 'DATEDIF', 'start': ta, 'end': tb}, bad, None, monitor='calendar-closed-form')
            if b.day < a.day or b.month < a.month:
                nt += 1
    r.nontrivial_disjoint += nt
    r.sample({'fn': 'DATEDIF', 'start': base + dt.timedelta(days=shard['part']), 'units': ['D', 'M', 'Y', 'YM']})


def run_edate(shard, ctx):
    r, rng = ctx.r, ctx.rng
    book = _book(ctx)
    if not book:
        return
    base = dt.datetime(2023, 1, 1)
    starts = [base + dt.timedelta(days=i) for i in range(0, 800)] + [dt.datetime(1900, 1, 31), dt.datetime(2000, 2, 29),
                                                                      dt.datetime(2100, 1, 31), dt.datetime(9990, 12, 31),
                                                                      # the last months of the calendar (9999-12-31 is the usual open end of validity tables)
                                                                      dt.datetime(9999, 12, 31), dt.datetime(9999, 12, 1), dt.datetime(9999, 11, 30), dt.datetime(9999, 1, 31),
                                                                      dt.datetime(9998, 12, 15), dt.datetime(9999, 10, 31), dt.datetime(1900, 1, 1), dt.datetime(1900, 3, 1)]
    pts = shard.get('points')
    nt = 0
    for si, s in enumerate(starts):
        if pts is None and si % shard['parts'] != shard['part']:
            continue
        offs = range(-60, 61) if ctx.tier == 'thorough' else sorted(set(rng.sample(range(-60, 61), 12) + [-13, -12, -1, 0, 1, 11, 12, 13]))
        for k in offs:
            if pts is not None and (s, k) not in pts:
                continue
            try:
                e1 = evalr.add_months(s, k)
                t = evalr.add_months(s.replace(day=1), k)
                import calendar
                e2 = dt.datetime(t.year, t.month, calendar.monthrange(t.year, t.month)[1])
            except XlError:
                continue
            outs = book.values(0, ['C3', 'D3'], [(0, 'A3', s), (0, 'B3', k)])
            r.ev(2)
            bad = [(n, o.brief(), e) for n, o, e in (('EDATE', outs[0], e1), ('EOMONTH', outs[1], e2)) if not outcome_matches(o, [e])]
            if bad:
                report(r, ID, None, {'fn': 'EDATE/EOMONTH', 'start': s, 'months': k}, bad, None, monitor='calendar-closed-form')
            if k in (0, 1, -1, 12) or (si + k) % 9 == 0:
                cells_ = ['H3', 'I3', 'K3'] + (['E3', 'F3', 'G3', 'J3'] if k == 0 else [])
                exp_ = {'H3': e1, 'I3': e2, 'K3': e1, 'E3': e1, 'F3': e2, 'G3': e1, 'J3': e2}
                outs2 = book.values(0, cells_, [(0, 'A3', s), (0, 'B3', k)])
                r.ev(len(cells_))
                r.count('month_count_supplied_indirectly', len(cells_))
                bad2 = [(SPEC['sheets'][0]['cells'][c_], o.brief(), exp_[c_]) for c_, o in zip(cells_, outs2) if not outcome_matches(o, [exp_[c_]])]
                if bad2:
                    report(r, ID, None, {'fn': 'EDATE/EOMONTH', 'start': s, 'months': k, 'how': 'month count supplied indirectly'}, bad2, None, monitor='calendar-closed-form')
            if s.day > 28:
                nt += 1
            elif k % 12:
                nt += 1
    r.nontrivial_disjoint += nt
    r.sample({'fn': 'EDATE/EOMONTH', 'start': starts[shard['part']], 'months': [-60, 60]})


HOL_LAYOUTS = [
    # (cells H1..H12 -> value or None (never written))
    {1: dt.datetime(2024, 1, 1), 2: dt.datetime(2024, 1, 8), 4: dt.datetime(2024, 1, 6), 5: dt.datetime(2024, 1, 8),
     7: 'holiday', 9: dt.datetime(2024, 2, 14), 12: dt.datetime(2024, 3, 29)},
    {},
    {3: dt.datetime(2024, 5, 1), 4: dt.datetime(2024, 5, 9), 5: dt.datetime(2024, 5, 11), 6: dt.datetime(2024, 5, 12),
     7: dt.datetime(2024, 5, 10, 13, 30), 8: 12345, 10: dt.datetime(2023, 12, 25), 11: dt.datetime(2024, 12, 25)},
]


def run_networkdays(shard, ctx):
    r, rng = ctx.r, ctx.rng
    nt = 0
    for li, lay in enumerate(HOL_LAYOUTS):
        cells = {'A4': dt.datetime(2024, 1, 1), 'B4': dt.datetime(2024, 1, 31), 'C4': '=NETWORKDAYS(A4,B4)',
                 'D4': '=NETWORKDAYS(A4,B4,H1:H12)', 'E4': '=NETWORKDAYS(A4;B4;H1:I12)', 'F4': '=NETWORKDAYS(A4,B4,H:H)', 'G4': '=NETWORKDAYS(A4,B4,$H:$I)',
                 # a second interval over the SAME holiday range, asked in one evaluation together with the first one
                 'A5': dt.datetime(2024, 2, 1), 'B5': dt.datetime(2024, 2, 29), 'C5': '=NETWORKDAYS(A5,B5,H1:H12)', 'D5': '=D4+C5',
                 'E5': '=NETWORKDAYS(A4,B4,H1:H12)+NETWORKDAYS(A5,B5,H1:H12)', 'F5': '=NETWORKDAYS(A5,B5,H:H)+NETWORKDAYS(A4,B4,H:H)',
                 'A12': 0}      # A12 keeps the used range at 12 rows whatever the holiday layout: H:H always has 12 rows
        for k, v in lay.items():
            cells[f'H{k}'] = v
        cells['I3'] = dt.datetime(2024, 1, 2)
        book = _book(ctx, wbspec.spec(wbspec.sheet('S1', cells)), name=f'nd{li}')
        if not book:
            return
        hol = [v for v in lay.values() if isinstance(v, dt.datetime)]
        hol2 = hol + [dt.datetime(2024, 1, 2)]
        base = dt.datetime(2023, 12, 1)
        n = 240 if ctx.tier == 'quick' else 1200
        for j in range(n):
            if j % shard['parts'] != shard['part']:
                continue
            a = base + dt.timedelta(days=rng.randrange(0, 220))
            ln = rng.choice([0, 1, 2, 5, 6, 7, rng.randrange(0, 121)])
            b = a + dt.timedelta(days=ln)
            if rng.random() < 0.15:
                b = b.replace(hour=rng.randrange(24), minute=30)
            if rng.random() < 0.4:
                a, b = b, a
            if 'pair' in shard:
                a, b = shard['pair']
            # every third point also WRITES holidays through overrides: into a holiday cell that was blank in the workbook, over an
            # existing one, and a non-date - the holiday list is the current content of the range, bounded or whole-column
            ov = [(0, 'A4', a), (0, 'B4', b)]
            hol_now, hol2_now = list(hol), list(hol2)
            if j % 3 == 0:
                lo, hi = (a, b) if a <= b else (b, a)
                extra = lo + dt.timedelta(days=rng.randrange(0, max(1, (hi - lo).days + 1)))
                extra = dt.datetime(extra.year, extra.month, extra.day)
                blank_rows = [k for k in range(1, 13) if k not in lay]
                row_ = rng.choice(blank_rows) if blank_rows and rng.random() < 0.7 else rng.choice(list(lay) or [1])
                ov.append((0, f'H{row_}', extra))
                hol_now = [v for k, v in lay.items() if isinstance(v, dt.datetime) and k != row_] + [extra]
                hol2_now = hol_now + [dt.datetime(2024, 1, 2)]
                r.count('networkdays_holiday_overrides')
            # the second interval: disjoint from, overlapping with or containing the first one
            a2 = a + dt.timedelta(days=rng.choice([-40, -7, 3, 20, 45]))
            a2 = dt.datetime(a2.year, a2.month, a2.day)
            b2 = a2 + dt.timedelta(days=rng.choice([0, 4, 9, 30, 70]))
            ov += [(0, 'A5', a2), (0, 'B5', b2)]
            outs = book.values(0, ['C4', 'D4', 'E4', 'F4', 'G4', 'D5', 'E5', 'F5'], ov)
            r.ev(8)
            r.count('networkdays_two_intervals_one_holiday_range', 3)
            n1, n2 = evalr.networkdays(a, b, hol_now), evalr.networkdays(a2, b2, hol_now)
            exps = (evalr.networkdays(a, b, []), evalr.networkdays(a, b, hol_now), evalr.networkdays(a, b, hol2_now), evalr.networkdays(a, b, hol_now),
                    evalr.networkdays(a, b, hol2_now), n1 + n2, n1 + n2, n1 + n2)
            bad = [(c, o.brief(), e) for c, o, e in zip(('2 args', 'H1:H12', 'H1:I12', 'H:H', '$H:$I', 'D4+C5', 'two calls H1:H12', 'two calls H:H'), outs, exps) if not outcome_matches(o, [e])]
            if bad:
                report(r, ID, None, {'fn': 'NETWORKDAYS', 'start': a, 'end': b, 'layout': li}, bad, None, monitor='calendar-closed-form')
            if abs((b - a).days) >= 5:
                nt += 1
            if 'pair' in shard:
                break
    r.nontrivial_disjoint += nt
    r.sample({'fn': 'NETWORKDAYS', 'holiday_layout': {f'H{k}': v for k, v in HOL_LAYOUTS[0].items()}})


# ---- TODAY ------------------------------------------------------------------------------------------
def make_shim(local_now, utc_offset_h):
    """module-like object standing in for `datetime` inside the loaded module: a virtual clock"""
    real = dt

    class _Meta(type):
        def __instancecheck__(cls, inst):
            return isinstance(inst, cls._real)

        def __subclasscheck__(cls, sub):
            return issubclass(sub, cls._real)

    class FakeDate(real.date, metaclass=_Meta):
        _real = real.date

        @classmethod
        def today(cls):
            return real.date(local_now.year, local_now.month, local_now.day)

    class FakeDateTime(real.datetime, metaclass=_Meta):
        _real = real.datetime

        @classmethod
        def now(cls, tz=None):
            if tz is None:
                return local_now
            return (local_now - real.timedelta(hours=utc_offset_h)).replace(tzinfo=real.timezone.utc).astimezone(tz)

        @classmethod
        def today(cls):
            return local_now

        @classmethod
        def utcnow(cls):
            return local_now - real.timedelta(hours=utc_offset_h)

    shim = types.SimpleNamespace(date=FakeDate, datetime=FakeDateTime, time=real.time, timedelta=real.timedelta,
                                 timezone=real.timezone, tzinfo=real.tzinfo, MINYEAR=real.MINYEAR, MAXYEAR=real.MAXYEAR,
                                 UTC=real.timezone.utc)
    return shim


VIRTUAL = [(dt.datetime(2024, 2, 28, 23, 59, 59), 14), (dt.datetime(2024, 2, 29, 0, 0, 0), 14), (dt.datetime(2024, 2, 29, 12, 0), -12),
           (dt.datetime(2023, 12, 31, 23, 59, 59), -12), (dt.datetime(2024, 1, 1, 0, 0, 0), 14), (dt.datetime(2024, 3, 1, 0, 0, 30), 14),
           (dt.datetime(2100, 2, 28, 23, 0), 0), (dt.datetime(2025, 6, 15, 9, 0), 5)]


def run_today_virtual(shard, ctx):
    r = ctx.r
    book = _book(ctx)
    if not book:
        return
    g = None
    for name in ('_today', 'exec_function_in'):
        f = book.cls.__dict__.get(name)
        f = getattr(f, '__func__', f)
        f = getattr(f, '__wrapped__', f)
        if f is not None and hasattr(f, '__globals__'):
            g = f.__globals__
            break
    if g is None or 'datetime' not in g:
        r.inconcl('cannot reach the loaded module globals to install the virtual clock')
        return
    saved = g['datetime']
    for local_now, off in VIRTUAL:
        g['datetime'] = make_shim(local_now, off)
        try:
            outs = book.values(0, ['A5', 'B5', 'C5'])
        finally:
            g['datetime'] = saved
        r.ev(3)
        exp = dt.datetime(local_now.year, local_now.month, local_now.day)
        real_today = dt.datetime.combine(dt.date.today(), dt.time(0, 0))
        if outs[0].ok and outs[0].value == real_today and exp != real_today:
            r.count('virtual_clock_bypassed')
            continue
        r.count('today_checks')
        ok = outcome_matches(outs[0], [exp]) and outcome_matches(outs[1], [exp.year]) and outcome_matches(outs[2], [exp.day])
        if not ok:
            report(r, ID, None, {'fn': 'TODAY', 'virtual_local_now': local_now, 'utc_offset_h': off}, [o.brief() for o in outs], exp,
                   monitor='today-virtual-clock')
        r.nt(('today-virtual', str(local_now), off))
    if r.counters.get('virtual_clock_bypassed') and not r.counters.get('today_checks'):
        r.inconcl('TODAY did not consult the virtual clock (implementation reads time another way)')
    r.sample({'fn': 'TODAY', 'virtual_clock': VIRTUAL[0]})


def run_today_real(shard, ctx):
    import os
    r = ctx.r
    time.tzset()
    book = _book(ctx)
    if not book:
        return
    for _ in range(3):
        before = time.localtime()
        out = book.value(0, 'A5')
        after = time.localtime()
        r.ev()
        r.count('today_checks')
        exps = {dt.datetime(t.tm_year, t.tm_mon, t.tm_mday) for t in (before, after)}
        if not outcome_matches(out, exps):
            report(r, ID, None, {'fn': 'TODAY', 'TZ': os.environ.get('TZ'), 'utc': time.strftime('%Y-%m-%dT%H:%M:%S', time.gmtime())},
                   out.brief(), sorted(exps), monitor='today-real-clock')
    utc_date = time.gmtime()[:3]
    r.seen('tz_local_vs_utc', f'{os.environ.get("TZ")}: local {tuple(time.localtime()[:3])} utc {tuple(utc_date)}')
    if tuple(time.localtime()[:3]) != tuple(utc_date):
        r.count('tz_runs_where_local_date_differs_from_utc')
    r.nt(('today-real', os.environ.get('TZ')))


def run_shard(shard, ctx):
    if isinstance(shard, dict) and 'dateonly' in shard:
        return run_dateonly(ctx, shard['n'])
    if isinstance(shard, dict) and 'mixed' in shard:
        from ..mixed import run_mixed
        return run_mixed(ctx, ID, shard['n'])
    if 'replay' in shard:
        c = shard['replay']
        from ..wbspec import dec
        fn_ = c.get('fn')
        if fn_ == 'DATE':
            return run_date({'year': c['y'], 'half': 0, 'points': {(c['y'], c['m'], c['d'])}}, ctx)
        if fn_ == 'DATEDIF':
            return run_datedif({'part': 0, 'parts': 1, 'pairs': [(dec(c['start']), dec(c['end']))]}, ctx)
        if fn_ == 'EDATE/EOMONTH':
            return run_edate({'part': 0, 'parts': 1, 'points': {(dec(c['start']), c['months'])}}, ctx)
        if fn_ == 'NETWORKDAYS':
            return run_networkdays({'part': 0, 'parts': 1, 'pair': (dec(c['start']), dec(c['end']))}, ctx)
        if c.get('TZ'):
            return run_today_real(shard, ctx)
        return run_today_virtual(shard, ctx)
    {'date': run_date, 'datedif': run_datedif, 'edate': run_edate, 'networkdays': run_networkdays,
     'today_virtual': run_today_virtual, 'today_real': run_today_real}[shard['kind']](shard, ctx)


def finish(r, tier, seed):
    if not r.counters.get('tz_runs_where_local_date_differs_from_utc'):
        r.count('note:all_three_time_zones_had_local_date_equal_utc_date')
    return {'helper_calls': {k: v for k, v in r.counters.items() if k.startswith('helper:')},
            'exhaustive': False,
            'exhaustive_subspaces': (['DATE box 7 years x months -30..40 x days -400..500', 'EDATE/EOMONTH offsets -60..60 for 804 start dates']
                                     if tier == 'thorough' else [])}


def run_dateonly(ctx, books):
    """date-only values (datetime.date): cells of a workbook that stores its dates in ISO 8601 form and overrides - the same calendar
    answers as for the date-time at their midnight"""
    import datetime as dt
    from .. import wbspec
    from ..refcheck import judge_book
    r, rng = ctx.r, ctx.rng
    d0 = dt.date(2023, 11, 20)
    for b in range(books):
        cells = {}
        for i in range(1, 9):
            cells[f'A{i}'] = d0 + dt.timedelta(days=rng.randrange(0, 500))
            cells[f'B{i}'] = dt.datetime(2024, 1, 1) + dt.timedelta(days=rng.randrange(0, 700), hours=rng.choice([0, 0, 13]))
            cells[f'C{i}'] = dt.date(2024, rng.randrange(1, 13), rng.randrange(1, 13))          # holidays, day <= 12
        targets = []
        row = 1
        for i in range(1, 9):
            for f in (f'=YEAR(A{i})*10000+MONTH(A{i})*100+DAY(A{i})', f'=MONTH(C{i})*100+DAY(C{i})', f'=EDATE(A{i},{rng.randrange(-14, 15)})', f'=EOMONTH(A{i},{rng.randrange(-3, 14)})',
                      f'=DATEDIF(A{i},B{i},"{rng.choice(["D", "M", "Y", "YM"])}")', f'=NETWORKDAYS(A{i},B{i})', f'=NETWORKDAYS(A{i},B{i},C1:C8)', f'=A{i}<B{i}',
                      f'=DAY(EOMONTH(C{i},0))', f'=DATEDIF(C{i},A{i},"D")', f'=YEAR(EDATE(C{i},12))'):
                a = wbspec.a1(row, 6)
                row += 1
                cells[a] = f
                targets.append((0, a))
        spec = wbspec.spec(wbspec.sheet('D', cells))
        spec['iso_dates'] = True
        vals = [[]]
        for _ in range(6):
            ov = []
            for i in rng.sample(range(1, 9), 4):
                # day <= 12 and day != month: a day-first / month-first confusion cannot hide
                m_ = rng.randrange(1, 13)
                d_ = rng.choice([x for x in range(1, 13) if x != m_])
                ov.append((0, f'A{i}', dt.date(rng.choice([2023, 2024, 2100]), m_, d_)))
            ov.append((0, f'C{rng.randrange(1, 9)}', dt.date(2024, rng.randrange(1, 13), rng.randrange(1, 29))))
            vals.append(ov)
        r.count('date_only_books')
        judge_book(ctx, ID, spec, targets, vals, exact=True, name=f'do{b}', monitor='date-only-values', nontrivial=lambda case, outs: True)


def plan(tier, seed):
    # 'mixed': nests over the whole function set that use at least one function of this property (vf/mixed.py)
    return _plan(tier, seed) + [{'mixed': k, 'n': 3 if tier == 'quick' else 60} for k in range(3 if tier == 'quick' else 8)] + \
        [{'dateonly': k, 'n': 2 if tier == 'quick' else 40} for k in range(2 if tier == 'quick' else 6)]
