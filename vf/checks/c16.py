"""C16 - rounding and percent are decimal-exact.

Oracle: decimal.Decimal quantize (HALF_UP / UP / DOWN) of the decimal *text*, nearest double, exact equality.
Workload: grid sign x integer part x 4 fractional digits x digit counts -3..6 x {ROUND, ROUNDUP, ROUNDDOWN},
supplied through overrides (dense), as workbook constants and as inline literals (sampled); percent on the
same grid."""
import decimal
import math
from decimal import Decimal

from .. import pipeline, wbspec
from ..findings import report
from ..instr.runtime import RuntimeMonitor
from ..xlref.values import outcome_matches

ID = 'C16'
LEVEL = 'exploration'
RULE = ('grid of decimal texts (sign x integer part in {0,1,2,7,12,123,99999} x 4 fractional digits; quick: every '
        '50th plus every ...5 tie, thorough: all 10000) x num_digits -3..6 x ROUND/ROUNDUP/ROUNDDOWN through Executor '
        'overrides, plus the same values as workbook constants and inline literals (sampled) and x% on the grid; a '
        'case (function, text, digits) is non-trivial when rounding changes the value or the value is a tie at that '
        'precision; shards partition the grid so distinct cases are counted by construction')
ASSUMPTIONS = ['decimal.Decimal quantize is the reading of "decimal-exact" rounding',
               'a float override carries the double nearest to the decimal text (<= 9 significant digits here)',
               'CPython float()/repr round-trip']
HOST_SETTINGS = {'shards': lambda shards: [1] + [i for i, s_ in enumerate(shards) if s_.get('kind') == 'placed'] + [i for i, s_ in enumerate(shards) if s_.get('kind') == 'scales'][-2:] + [i for i, s_ in enumerate(shards) if 'mixed' in s_][-1:], 'env': {'VERIF_HOST_DECIMAL': '4,ROUND_UP,traps'}}
FLOORS = {'quick': {'evaluations': 100000, 'nontrivial': 20000}, 'thorough': {'evaluations': 3000000, 'nontrivial': 500000}}

IPS = [0, 1, 2, 7, 12, 123, 99999]
DIGITS = list(range(-3, 7))
MODES = {'ROUND': decimal.ROUND_HALF_UP, 'ROUNDUP': decimal.ROUND_UP, 'ROUNDDOWN': decimal.ROUND_DOWN}
_CTX15 = decimal.Context(prec=15, traps=[])
_CTXBIG = decimal.Context(prec=400, traps=[])


def expected_round(fn, text, n):
    d = Decimal(text)
    q = d.quantize(Decimal(1).scaleb(-n), rounding=MODES[fn], context=_CTXBIG)
    return float(q), (q != d)


def is_tie(text, n):
    d = Decimal(text).scaleb(n)
    return (abs(d) % 1) == Decimal('0.5')


def expected_percent(text):
    return float(_CTX15.divide(Decimal(text), Decimal(100)))


def fracs(tier):
    if tier == 'thorough':
        return list(range(10000))
    return [f for f in range(10000) if f % 50 == 0 or f % 10 == 5]


def _plan(tier, seed):
    shards = []
    for sign in ('', '-'):
        for ip in IPS:
            shards.append({'kind': 'grid', 'sign': sign, 'ip': ip})
    shards.append({'kind': 'placed', 'n': 3000 if tier == 'quick' else 60000})
    for part in range(4):
        shards.append({'kind': 'scales', 'part': part, 'parts': 4})
    shards.append({'kind': 'scales', 'ints': True})
    for k in range(2 if tier == 'quick' else 6):
        shards.append({'kind': 'threads', 'k': k})
    return shards


GRID_SPEC = wbspec.spec(wbspec.sheet('S1', {
    'A1': 1.5, 'B1': 0,
    'C1': '=ROUND(A1,B1)', 'D1': '=ROUNDUP(A1,B1)', 'E1': '=ROUNDDOWN(A1,B1)', 'F1': '=A1%',
    'G1': '=ROUND(A1;B1)', 'H1': '=ROUNDUP(A1)', 'I1': '=ROUNDDOWN(A1)',
    # the digit count arriving in other ways than as an int in a cell: a blank cell (Z9 is never written: blank counts as 0), a whole
    # float made by arithmetic or by another function, the count of another function
    'J1': '=ROUND(A1,Z9)', 'K1': '=ROUNDUP(A1,Z9)', 'L1': '=ROUNDDOWN(A1,Z9)', 'M1': '=ROUND(A1,B1*1.0)', 'N1': '=ROUNDUP(A1,B1/1)',
    # percent directly after a call or a group (x% = x/100 whatever produced x)
    'S1': '=IF(B1>=-99,A1,0)%', 'T1': '=IF(B1<-99,0,A1)%', 'U1': '=SUM(A1)%', 'V1': '=(A1)%', 'W1': '=MAX(A1,A1)%', 'X1': '=IFERROR(A1,0)%', 'Y1': '=(A1+0)%',
    'O1': '=ROUNDDOWN(A1,ROUND(B1,0))', 'P1': '=ROUND(A1,COUNT(B1:B1)+B1-1)', 'Q1': '=ROUNDUP(A1,MAX(B1,-99))', 'R1': '=ROUNDDOWN(A1,SUM(B1,Z9))'}))
FCELL = {'ROUND': 'C1', 'ROUNDUP': 'D1', 'ROUNDDOWN': 'E1'}
# a rounding function directly inside a rounding function, digit counts written as literals: every call rounds the value it is GIVEN
# (2.445 -> 2.45 -> 2.5, not 2.4), innermost first
NESTED = {'AA1': [('ROUND', 2), ('ROUND', 1)], 'AB1': [('ROUND', 3), ('ROUND', 1)], 'AC1': [('ROUNDUP', 2), ('ROUNDUP', 1)], 'AD1': [('ROUNDDOWN', 3), ('ROUNDDOWN', 0)],
          'AE1': [('ROUNDDOWN', 2), ('ROUND', 1)], 'AF1': [('ROUND', 2), ('ROUNDUP', 1)], 'AG1': [('ROUND', 1), ('ROUND', 2)], 'AH1': [('ROUND', 3), ('ROUND', 2), ('ROUND', 1)],
          'AI1': [('ROUND', 2), ('ROUND', 0)], 'AJ1': [('ROUND', 0), ('ROUND', -1)], 'AK1': [('ROUNDUP', 3), ('ROUND', 2)], 'AL1': [('ROUND', 3), ('ROUNDDOWN', 2)]}
for _a, _chain in NESTED.items():
    _f = 'A1'
    for _fn, _n in _chain:
        _f = f'{_fn}({_f},{_n})'
    GRID_SPEC['sheets'][0]['cells'][_a] = '=' + _f


def expected_nested(chain, text):
    d = Decimal(text)
    for fn, n in chain:
        d = d.quantize(Decimal(1).scaleb(-n), rounding=MODES[fn], context=_CTXBIG)
    return float(d)


def _monitor(r):
    def post(fn):
        def p(args, res, exc):
            if exc is not None or len(args) < 2:
                return None
            x, n = args[0], args[1]
            if isinstance(x, bool) or not isinstance(x, (int, float)) or not isinstance(n, int):
                return None
            t = repr(x)
            if 'e' in t or 'n' in t or len(t.replace('-', '').replace('.', '').lstrip('0')) > 15:
                return None
            exp, _ = expected_round(fn, t, n)
            return None if res == exp else f'{fn}({t},{n}) -> {res!r}, decimal says {exp!r}'
        return p
    return RuntimeMonitor(r, posts={'_round': post('ROUND'), '_roundup': post('ROUNDUP'), '_rounddown': post('ROUNDDOWN')})


def _check(r, fn, text, n, out, how, mon=None):
    exp, changed = expected_round(fn, text, n)
    r.ev()
    ok = outcome_matches(out, [exp], exact=True)
    if ok and out.ok and isinstance(out.value, float) and out.value == 0 and math.copysign(1, out.value) < 0:
        # the exact decimal result is the number zero; a cell has no negative zero (str() and JSON would show -0.0)
        r.count('negative_zero_results')
        report(r, ID, None, {'fn': fn, 'text': text, 'digits': n, 'how': how}, out.brief(), exp, monitor='negative-zero')
    if exp == 0 and text.lstrip().startswith('-'):
        r.count('negative_amounts_rounded_to_zero')
    if not ok:
        report(r, ID, None, {'fn': fn, 'text': text, 'digits': n, 'how': how}, out.brief(), exp,
               monitor='decimal-quantize',
               detail={'helper_disagreements': mon.disagreements[-2:] if mon else None})
    return changed


def run_grid(shard, ctx):
    r = ctx.r
    book = pipeline.Book(GRID_SPEC, ctx.workdir)
    if book.cls is None:
        # the fixed, well-formed workbook of this check must translate: otherwise nothing was observed
        r.violation('translate', {'spec': 'GRID_SPEC'}, book.whole.brief(), 'a loadable class')
        return
    mon = _monitor(r)
    mon.install(book.cls)
    sign, ip = shard['sign'], shard['ip']
    fl = [shard['f']] if 'f' in shard else fracs(ctx.tier)
    digits = [shard['digits']] if 'digits' in shard else DIGITS
    nt = 0
    rot = 0
    for f in fl:
        text = f'{sign}{ip}.{f:04d}'
        x = float(text)
        if text.endswith('0000') and ctx.rng.random() < 0.5:
            x = int(text.split('.')[0])  # integers are supplied as ints half of the time
        for n in digits:
            ov = [(0, 'A1', x), (0, 'B1', n)]
            fns = [(fn, cell) for fn, cell in FCELL.items() if not ('fn' in shard and shard['fn'] != fn)]
            rot += 1
            fns = fns[rot % len(fns):] + fns[:rot % len(fns)]
            # the three modes of one amount are asked of ONE executor instance, in rotating order: an answer remembered per
            # (amount, digits) without the mode would show here
            outs_ = book.values(0, [cell for _, cell in fns], ov)
            for (fn, cell), out in zip(fns, outs_):
                changed = _check(r, fn, text, n, out, 'override', mon)
                if changed or is_tie(text, n):
                    nt += 1
        # nested calls once per value
        for (cell, chain), o_ in zip(NESTED.items(), book.values(0, list(NESTED), [(0, 'A1', x)])):
            r.ev()
            r.count('nested_rounding_checked')
            e_ = expected_nested(chain, text)
            if e_ != expected_nested(chain[-1:], text):
                nt += 1
                r.count('nested_rounding_differs_from_one_step')
            if not outcome_matches(o_, [e_], exact=True):
                report(r, ID, None, {'fn': 'nested', 'text': text, 'how': 'nested:' + GRID_SPEC['sheets'][0]['cells'][cell]}, o_.brief(), e_, monitor='decimal-quantize')
        # percent once per value
        out = book.value(0, 'F1', [(0, 'A1', x)])
        r.ev()
        exp = expected_percent(text)
        if not outcome_matches(out, [exp], exact=True):
            report(r, ID, None, {'fn': '%', 'text': text, 'how': 'override'}, out.brief(), exp, monitor='percent-15g')
        nt += 1
        if nt % 7 == 0:
            for cell in ('S1', 'T1', 'U1', 'V1', 'W1', 'X1', 'Y1'):
                o2 = book.value(0, cell, [(0, 'A1', x)])
                r.ev()
                r.count('percent_after_call_or_group')
                if not outcome_matches(o2, [exp], exact=True):
                    report(r, ID, None, {'fn': '%', 'text': text, 'how': 'percent-after:' + GRID_SPEC['sheets'][0]['cells'][cell]}, o2.brief(), exp, monitor='percent-15g')
    # alternative spellings agree (';' separator, default digits) on a few values
    for text in ('2.5', '-2.5', '0.0045', '7.1255'):
        x = float(text)
        for cell, fn, n in (('G1', 'ROUND', 2), ('H1', 'ROUNDUP', 0), ('I1', 'ROUNDDOWN', 0)):
            ov = [(0, 'A1', x), (0, 'B1', n)]
            _check(r, fn, text, n, book.value(0, cell, ov), 'spelling:' + cell, mon)
        for cell, fn, blank in (('J1', 'ROUND', True), ('K1', 'ROUNDUP', True), ('L1', 'ROUNDDOWN', True), ('M1', 'ROUND', False), ('N1', 'ROUNDUP', False),
                                ('O1', 'ROUNDDOWN', False), ('P1', 'ROUND', False), ('Q1', 'ROUNDUP', False), ('R1', 'ROUNDDOWN', False)):
            for n in ((0,) if blank else (2, 0, -1, 1)):
                ov = [(0, 'A1', x)] + ([] if blank else [(0, 'B1', n)])
                r.count('digit_count_supplied_indirectly')
                _check(r, fn, text, n, book.value(0, cell, ov), 'digits-via:' + cell, mon)
    # amounts below 0.1 (zeros right behind the point) at digit counts around and beyond the fifteenth significant digit
    if 'f' not in shard:
        for text in (f'{sign}0.00123456789012345', f'{sign}0.0123456789012345', f'{sign}0.000{ip}5', f'{sign}0.0{ip}25', f'{sign}0.000000123456789', f'{sign}1.5e-300', f'{sign}0.0999999999999995'):
            x = float(text)
            t15 = format(Decimal(text), 'f') if 'e' in text else text
            for n in (10, 13, 14, 15, 16, 17, 18, 20, 25, 299, 300, 301):
                ov = [(0, 'A1', x), (0, 'B1', n)]
                for (fn, cell), out in zip(FCELL.items(), book.values(0, list(FCELL.values()), ov)):
                    r.count('small_amounts_at_high_digit_counts')
                    _check(r, fn, t15, n, out, 'override', mon)
    # a logical value as the amount (an IF without an else branch hands over FALSE): rounding makes the NUMBER 0 or 1 of it at every digit count
    if 'f' not in shard:
        for lv, num in ((True, 1), (False, 0)):
            for n in (0, 1, 2, -1, 17, 331, 400):
                for (fn, cell), out in zip(FCELL.items(), book.values(0, list(FCELL.values()), [(0, 'A1', lv), (0, 'B1', n)])):
                    r.ev()
                    r.count('logical_amounts_rounded')
                    want = num if n >= 0 else (10 if (fn == 'ROUNDUP' and lv) else 0)
                    if not outcome_matches(out, [want], exact=True):
                        report(r, ID, None, {'fn': fn, 'text': str(lv).upper(), 'digits': n, 'how': 'override'}, out.brief(), want, monitor='decimal-quantize')
    # digit counts far beyond what a double holds: "a value already representable at the requested precision is returned unchanged"
    if 'f' not in shard:
        for text in (f'{sign}{ip}.5', f'{sign}{ip}.0625', f'{sign}{ip}.1235'):
            x = float(text)
            for n in (17, 20, 100, 308, 320, 331, 400, 1000, 100000):
                ov = [(0, 'A1', x), (0, 'B1', n)]
                for (fn, cell), out in zip(FCELL.items(), book.values(0, list(FCELL.values()), ov)):
                    r.ev()
                    r.count('digit_counts_beyond_a_double')
                    if not outcome_matches(out, [x], exact=True):
                        report(r, ID, None, {'fn': fn, 'text': text, 'digits': n, 'how': 'override'}, out.brief(), x, monitor='decimal-quantize')
        # ... and amounts that have no digits behind the point at all, hundreds of digits in front of it
        for text in (f'{sign}1e300', f'{sign}1.5e300', f'{sign}9.99e307', f'{sign}123456789012345e290', f'{sign}1e22', f'{sign}{ip + 1}e150'):
            x = float(text)
            for n in (0, 1, 17, 99, 100, 101, 250, 308, 330, 331):
                ov = [(0, 'A1', x), (0, 'B1', n)]
                for (fn, cell), out in zip(FCELL.items(), book.values(0, list(FCELL.values()), ov)):
                    r.ev()
                    r.count('huge_amounts_at_decimal_positions')
                    if not outcome_matches(out, [x], exact=True):
                        report(r, ID, None, {'fn': fn, 'text': text, 'digits': n, 'how': 'override'}, out.brief(), x, monitor='decimal-quantize')
    r.nontrivial_disjoint += nt
    r.sample({'text': f'{sign}{ip}.{fl[len(fl) // 2]:04d}', 'digits': DIGITS, 'functions': list(FCELL)})


def run_placed(shard, ctx):
    """same values as workbook constants and as inline literals (many formulas per workbook)"""
    r, rng = ctx.r, ctx.rng
    per_book = 120
    todo = shard['n']
    bi = 0
    while todo > 0:
        cells, meta = {}, []
        for i in range(1, per_book + 1):
            sign = rng.choice(['', '-'])
            ip = rng.choice(IPS)
            f = rng.choice([rng.randrange(10000), rng.randrange(1000) * 10 + 5, rng.choice([5, 45, 125, 1255, 6750, 5000])])
            n = rng.choice(DIGITS)
            fn = rng.choice(list(MODES))
            text = f'{sign}{ip}.{f:04d}'
            cells[f'A{i}'] = float(text)
            cells[f'B{i}'] = f'={fn}(A{i},{n})'
            cells[f'C{i}'] = f'={fn}({text},{n})'
            cells[f'D{i}'] = f'={text}%'
            meta.append((i, fn, text, n))
        book = pipeline.Book(wbspec.spec(wbspec.sheet('S1', cells)), ctx.workdir, name=f'p{bi}')
        bi += 1
        r.count('placed_books:' + book.mode)
        for (i, fn, text, n) in meta:
            ch1 = _check(r, fn, text, n, book.value(0, f'B{i}'), 'cell')
            _check(r, fn, text, n, book.value(0, f'C{i}'), 'literal')
            out = book.value(0, f'D{i}')
            r.ev()
            exp = expected_percent(text)
            if not outcome_matches(out, [exp], exact=True):
                report(r, ID, None, {'fn': '%', 'text': text, 'how': 'literal'}, out.brief(), exp, monitor='percent-15g')
            if ch1 or is_tie(text, n):
                r.nt(('placed', fn, text, n))
        todo -= per_book
    r.sample({'placed': [f'={m[1]}({m[2]},{m[3]})' for m in meta[:3]]})


MANTISSAS = [1, 2, 5, 9, 15, 25, 45, 49, 50, 51, 99, 125, 149, 150, 151, 499, 500, 501, 999, 1234, 1235, 4445, 4999, 5000, 5001, 9995, 9999,
             123456789, 999999999999999, 100000000000001, 555555555555555]


def run_scales(shard, ctx):
    """the same three functions far from the 4-decimal grid: mantissas at every decimal scale 10^-15 .. 10^11 (<= 15 significant
    digits), digit counts -12..16 - numbers whose repr / '.15g' text switches to exponent notation are in here"""
    r = ctx.r
    book = pipeline.Book(GRID_SPEC, ctx.workdir)
    if book.cls is None:
        r.violation('translate', {'spec': 'GRID_SPEC'}, book.whole.brief(), 'a loadable class')
        return
    mon = _monitor(r)
    mon.install(book.cls)
    nt = 0
    rot = 0
    cases = []
    if 'text' in shard:
        cases = [(shard['text'], shard['digits'])]
    elif shard.get('ints'):
        # whole numbers supplied as ints (what openpyxl hands over for 25, what a user overrides with): ties at every power of ten,
        # preceding digit even and odd, digit counts -6..2
        ints = sorted({m * 10 ** k for m in (5, 15, 25, 35, 45, 50, 65, 85, 105, 125, 250, 1234, 4445, 4450, 5000, 9995, 99995, 1, 2, 9) for k in range(0, 5)} | {0, 7, 12, 123, 99999})
        for v in ints:
            for n in range(-6, 3):
                for sign in ('', '-'):
                    cases.append((sign + str(v), n))
    else:
        k_all = list(range(-11, 16))
        for mi, m in enumerate(MANTISSAS):
            for k in k_all:
                if len(str(m)) + max(0, -k) > 15 and k < 0:
                    continue
                if (mi + k) % shard['parts'] != shard['part']:
                    continue
                d = Decimal(m).scaleb(-k)
                text = format(d, 'f')
                if len(text.replace('.', '').lstrip('0')) > 15:
                    continue
                lo, hi = -k - 4, -k + 6
                ns = sorted(set(range(max(-12, k - len(str(m)) - 2), min(17, k + 3))) | {0, 1, 2, 5})
                if ctx.tier == 'quick':
                    ns = ns[::2]
                for n in ns:
                    for sign in ('', '-'):
                        cases.append((sign + text, n))
    for text, n in cases:
        x = int(text) if shard.get('ints') or (shard.get('as_int') and '.' not in text) else float(text)
        ov = [(0, 'A1', x), (0, 'B1', n)]
        fns = [(fn, cell) for fn, cell in FCELL.items() if not ('fn' in shard and shard['fn'] != fn)]
        rot += 1
        fns = fns[rot % len(fns):] + fns[:rot % len(fns)]
        for (fn, cell), out in zip(fns, book.values(0, [cell for _, cell in fns] + ['F1'], ov)):
            changed = _check(r, fn, text, n, out, 'scales', mon)
            if changed or is_tie(text, n):
                nt += 1
        # percent of the same amount: x/100 at 15 significant digits, also for very small and very large magnitudes
        outp = book.value(0, 'F1', [(0, 'A1', x)])
        r.ev()
        expp = expected_percent(text)
        if not outcome_matches(outp, [expp], exact=True):
            report(r, ID, None, {'fn': '%', 'text': text, 'how': 'scales', 'digits': 0}, outp.brief(), expp, monitor='percent-15g')
        r.seen('repr_forms', 'exponent' if 'e' in repr(x) else 'plain')
    r.nontrivial_disjoint += nt
    r.sample({'scales': [c for c in cases[:6]]})


def run_threads(shard, ctx):
    """the three rounding functions evaluated by several threads at the same time, each thread through an Executor of its own on ONE
    loaded class (a request handler per thread): a mode, a memo or a context shared between them shows as a value that differs from
    the single-threaded one.  Decided against decimal quantize for the single-threaded baseline, against the baseline for the rest."""
    from .. import threads as vthreads
    r, rng = ctx.r, ctx.rng
    amounts = ['2.5', '-2.5', '1.21', '0.125', '7.005', '123.455', '-0.5', '99999.995', '1.5', '0.0045', '12.345', '-7.5']
    cells, where = {}, []
    for i, t in enumerate(amounts):
        cells[f'A{i + 1}'] = float(t)
        for j, fn in enumerate(('ROUND', 'ROUNDUP', 'ROUNDDOWN')):
            n = (i + j) % 3
            a = wbspec.a1(i + 1, 3 + j)
            cells[a] = f'={fn}(A{i + 1},{n})'
            where.append(((0, i + 1, 3 + j), fn, t, n))
    book = pipeline.Book(wbspec.spec(wbspec.sheet('S1', cells)), ctx.workdir, name='thr')
    if book.cls is None:
        r.violation('translate', {'spec': 'threads'}, book.whole.brief(), 'a loadable class')
        return
    res = vthreads.concurrent_queries(book.cls, [w[0] for w in where], threads=4, rounds=400 if ctx.tier == 'quick' else 4000, seed=ctx.seed)
    for (cell, fn, t, n) in where:
        exp, _ = expected_round(fn, t, n)
        b = res['baseline'][cell]
        r.ev()
        if not (b[0] == 'V' and float(eval(b[2])) == exp):
            report(r, ID, None, {'fn': fn, 'text': t, 'digits': n, 'how': 'single-threaded baseline of the thread shard'}, b, exp, monitor='decimal-quantize')
    r.ev(res['queries'])
    r.counters['concurrent_rounding_queries'] = r.counters.get('concurrent_rounding_queries', 0) + res['queries']
    r.counters['overlapping_query_pairs'] = r.counters.get('overlapping_query_pairs', 0) + res['overlapping_pairs']
    r.nt(('threads', ctx.seed))
    for (i, cell, got, want) in res['mismatches'][:5]:
        w = [x for x in where if x[0] == cell][0]
        report(r, ID, None, {'fn': w[1], 'text': w[2], 'digits': w[3], 'how': f'thread {i} of 4, one Executor per thread on one class object'}, got, want,
               monitor='concurrent-evaluation')
    if res['unfinished']:
        r.inconcl('thread shard did not finish within its watchdog')
    r.sample({'threads': 4, 'queries': res['queries'], 'overlapping_query_pairs': res['overlapping_pairs']})


def run_shard(shard, ctx):
    if isinstance(shard, dict) and 'mixed' in shard:
        from ..mixed import run_mixed
        return run_mixed(ctx, ID, shard['n'])
    if 'replay' in shard and shard['replay'].get('how') == 'scales':
        c = shard['replay']
        return run_scales({'text': c['text'], 'digits': c['digits'], 'fn': c['fn'], 'as_int': True}, ctx)
    if 'replay' in shard:
        c = shard['replay']
        text = c['text']
        sign = '-' if text.startswith('-') else ''
        ip, f = text.lstrip('-').split('.')
        if c['fn'] in ('%', 'nested'):
            run_grid({'sign': sign, 'ip': int(ip), 'f': int(f), 'digits': 0}, ctx)
        else:
            run_grid({'sign': sign, 'ip': int(ip), 'f': int(f), 'digits': c['digits'], 'fn': c['fn']}, ctx)
            run_placed_one(c, ctx)
        return
    if shard['kind'] == 'threads':
        run_threads(shard, ctx)
    elif shard['kind'] == 'grid':
        run_grid(shard, ctx)
    elif shard['kind'] == 'scales':
        run_scales(shard, ctx)
    else:
        run_placed(shard, ctx)


def run_placed_one(c, ctx):
    fn, text, n = c['fn'], c['text'], c['digits']
    cells = {'A1': float(text), 'B1': f'={fn}(A1,{n})', 'C1': f'={fn}({text},{n})'}
    book = pipeline.Book(wbspec.spec(wbspec.sheet('S1', cells)), ctx.workdir, name='replay')
    _check(ctx.r, fn, text, n, book.value(0, 'B1'), 'cell')
    _check(ctx.r, fn, text, n, book.value(0, 'C1'), 'literal')


def finish(r, tier, seed):
    reached = {k: v for k, v in r.counters.items() if k.startswith('helper:')}
    return {'helper_calls': reached, 'exhaustive': tier == 'thorough',
            'exhaustive_subspaces': ['all 4-digit fractions 0..9999 for each sign x integer part x digits -3..6 x 3 functions'
                                     ] if tier == 'thorough' else ['every ...5 tie and every 50th fraction of that grid']}


def plan(tier, seed):
    # 'mixed': nests over the whole function set that use at least one function of this property (vf/mixed.py)
    return _plan(tier, seed) + [{'mixed': k, 'n': 3 if tier == 'quick' else 60} for k in range(3 if tier == 'quick' else 8)]
