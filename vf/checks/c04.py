"""C04 - overrides mean edit-the-cell-and-recalculate; the last write wins.

Metamorphic oracle (no model of Excel): after every batch of set_cells the queried values must equal what the library
itself reports for a FRESHLY translated workbook in which each overridden cell holds its most recent constant.
Every history is executed under several PYTHONHASHSEEDs in fresh processes."""
import copy
import datetime as dt
import os
import random

from .. import pipeline, wbspec
from ..findings import report
from ..instr import boundary
from ..xlref.values import norm, val_eq

ID = 'C04'
LEVEL = 'exploration'
RULE = ('workbooks with two sheets of constants and well-behaved formulas (arithmetic, SUM over ranges and whole columns, IF, '
        'IFERROR, cross-sheet references, one formula that raises); histories of 1-6 set_cells batches x 1-4 cells: the same cell '
        'rewritten within a batch and across batches, formula cells (the raising one included), constants, blanks, cells beyond '
        'the used range, both sheets, A1-style and numeric addressing mixed; after two batches out of three (the third is followed directly by '
        'the next set_cells call) all formula cells and all touched '
        'cells are queried and compared with a fresh translation of the edited workbook; each history runs under several hash '
        'seeds. Non-trivial: a (history prefix, hash seed) in which a cell was written at least twice or a formula cell was '
        'overridden; distinct by (history id, step, hash seed)')
ASSUMPTIONS = ['the library translating the edited workbook afresh is the reference ("what a fresh translation would report")',
               'openpyxl round trip normalisation (1.0 -> 1, date -> datetime) applies to both sides', 'None and empty-text overrides are not generated']
FLOORS = {'quick': {'evaluations': 6000, 'nontrivial': 400, 'counters': {'contract_evals:set_cells_post': 800}},
          'thorough': {'evaluations': 200000, 'nontrivial': 20000, 'counters': {'contract_evals:set_cells_post': 30000}}}

VALUES = [0, 1, -3, 7, 2.5, -0.25, 100, 'x', 'abc', 'Zz', True, False, dt.datetime(2024, 2, 29), dt.datetime(2023, 12, 31, 13, 30), 1000000, 42,
          dt.date(2024, 3, 15), dt.date(2023, 1, 31), 'FOREIGN-BLANK',
          None, None]          # a date-only value is the date at its midnight (what the edited workbook holds); 'FOREIGN-BLANK' stands for the blank OBJECT another
                               # executor of another class reported for an empty cell (models chained by hand: its value means "blank"); None: an override without a value clears the cell (the edited workbook has a blank cell there); '' cannot be stored in a file


def make_workbook(rng):
    s1 = {'A1': rng.randrange(1, 9), 'A2': rng.randrange(1, 9) + 0.5, 'A3': rng.randrange(-5, 5), 'A5': 'txt',
          'B1': '=A1+A2', 'B2': '=B1*2-A3', 'B3': '=SUM(A1:A3)', 'B4': '=IF(A1>A3,B1,B2)', 'B5': '=A5&"-"&A1',
          'C1': '=1/A4', 'C2': '=IFERROR(C1,-1)', 'C3': '=SUM(A:A)', 'C4': '=T2!A1+B1', 'C5': '=A4+1', 'D1': '=B3>A1', 'D2': '=SUM(B1:B2,C4)',
          'D3': '=IF(D1,"y","n")', 'D4': '=MAX(A1:B3)',
          # references reaching beyond the used range (rows 1-5, columns A-D): single cells and areas
          'D5': '=A9+10', 'E6': '=SUM(A1:A12)', 'E1': '=IF(G12="x",1,0)', 'E2': '=COUNTBLANK(A1:A12)', 'E3': '=B20&"|"', 'E4': '=SUM(E7,A9,1)',
          'E5': '=MAX(A7:B9,0)'}
    s2 = {'A1': rng.randrange(10, 20), 'A2': '=A1*S1!A1', 'B1': '=S1!B2+A2', 'B2': 'k', 'C1': '=SUM(S1!A1:A3)+A1', 'C2': '=D5+A7', 'C3': '=SUM(A1:A7)+COUNT(S1!A7:A12)'}
    # SETTINGS cells (T2!G1:G8, constants) and functions that take EVERY optional or small argument - the flag of VLOOKUP, the match type,
    # positions, counts, digits, the criterion - from a bare reference to one of them: an argument read when the class is made instead
    # of when it is asked shows as soon as the settings cell is overridden
    s2.update({'G1': 2, 'G2': 2, 'G3': False, 'G4': 1, 'G5': 0, 'G6': '>1', 'G7': dt.datetime(2024, 1, 31), 'G8': 2,
               'H1': 1, 'I1': 'one', 'H2': 2, 'I2': 'two', 'H3': 4, 'I3': 'four', 'H4': 8, 'I4': 'eight',
               'J1': '=VLOOKUP(G1,H1:I4,G2,G3)', 'J2': '=MATCH(G1,H1:H4,G5)', 'J3': '=INDEX(H1:I4,G4,G2)', 'J4': '=ROUND(S1!A2/3,G8)', 'J5': '=LEFT(S1!A5,G4)',
               'J6': '=IF(G3,"on","off")', 'J7': '=SUMIF(H1:H4,G6)', 'J8': '=EDATE(G7,G4)', 'J9': '=MID(S1!A5,G4,G2)', 'J10': '=XMATCH(G1,H1:H4,G5)',
               'J11': '=IFERROR(ADDRESS(G4,G2,G4),"e")', 'J12': '=COUNTIFS(H1:H4,G6)', 'J13': '=VLOOKUP(G1+1,H1:I4,2,G3)&"|"&VLOOKUP(3,H1:I4,G2,TRUE)',
               'J14': '=ROUNDUP(S1!A2,G5)+ROUNDDOWN(S1!A2,G4)'})
    # link cells (a formula that is nothing but one reference), chains of them and random formulas over everything before them:
    # column F on S1 (F1-F4 links, F5-F10 random), column E on T2
    def spell(a, other=False):
        import re as _re
        m = _re.match(r'([A-Z]+)(\d+)', a)
        k = rng.randrange(5)
        t = a if k < 2 else f'${m.group(1)}${m.group(2)}' if k == 2 else f'{m.group(1)}${m.group(2)}' if k == 3 else f'${m.group(1)}{m.group(2)}'
        return (rng.choice(['T2!', "'T2'!"]) if other else rng.choice(['', '', 'S1!'])) + t
    pool = ['A1', 'A2', 'A3', 'B1', 'B2', 'B3', 'C2', 'D4', 'A4']
    s1['F1'] = '=' + spell(rng.choice(['B1', 'B2', 'B3']))
    s1['F2'] = '=' + spell(rng.choice(['A1', 'A2', 'A3']))
    s1['F3'] = '=' + spell('A1', other=True)
    s1['F4'] = '=' + spell(rng.choice(['F1', 'F2', 'F3']))
    pool += ['F1', 'F2', 'F3', 'F4']
    forms = ['{a}+{b}', 'SUM({a},{b})', 'IF({a}>{b},{a},{b})', '-{a}', '{a}%', 'MAX({a},{b},0)', '{a}&"|"&{b}', 'SUM(F1:F4)', 'IFERROR({a}/{b},0)', '{a}', '({a})',
             'COUNT(F1:F4,{a})', 'INDEX(F1:F4,2)', 'ROUND({a}/3,2)', 'MIN(F1:F4)+{b}', '{a}={b}', '{a}&"x"', 'COUNT({a},{b})', 'COUNTIFS(A1:A3,{a})', 'CONCATENATE({a},"q")',
             'SUMIF(A1:A3,{a})', 'COUNT(A1:A4)&"/"&COUNTBLANK(A1:A4)']
    for i in range(5, 11):
        s1[f'F{i}'] = '=' + rng.choice(forms).format(a=spell(rng.choice(pool)), b=spell(rng.choice(pool)))
        pool.append(f'F{i}')
    s2['E1'] = '=S1!' + rng.choice(['F1', 'F4', 'F7'])
    s2['E2'] = '=E1'
    s2['E3'] = '=E2+S1!F4'
    return wbspec.spec(wbspec.sheet('S1', s1), wbspec.sheet('T2', s2))


TARGETS = {0: ['A1', 'A2', 'A3', 'A4', 'A5', 'B1', 'B2', 'B3', 'C1', 'C2', 'C4', 'D2', 'E7', 'A9', 'G12', 'B20', 'F1', 'F2', 'F3', 'F4', 'F4', 'F1', 'F6', 'F8'],
           1: ['A1', 'A2', 'B1', 'B2', 'C1', 'D5', 'A7', 'E1', 'E2', 'G1', 'G2', 'G3', 'G4', 'G5', 'G6', 'G7', 'G8', 'G3', 'G5', 'H3']}
SETTINGS = {'G1': [1, 2, 3, 4, 8, 5, 0], 'G2': [1, 2], 'G3': [True, False, 1, 0], 'G4': [1, 2, 3], 'G5': [0, 1], 'G6': ['>1', '<4', '2', '<>8', '>=4'],
            'G7': [dt.datetime(2024, 1, 31), dt.datetime(2023, 12, 31), dt.datetime(2024, 2, 29)], 'G8': [0, 1, 2, 3], 'H3': [3, 4, 5]}


def make_history(rng):
    hist = []
    hot = [(rng.choice([0, 1]),) for _ in range(2)]
    hot = [(s, rng.choice(TARGETS[s])) for (s,) in hot]
    for _ in range(rng.randrange(1, 7)):
        batch = []
        for _ in range(rng.randrange(1, 5)):
            if rng.random() < 0.45:
                s, a = rng.choice(hot)
                batch.append((s, a, rng.choice([0, 1, -3, True, False]), True))       # hot cells alternate between few values: a, b, a again - and between values that are == but not the same constant (1 and TRUE, 0 and FALSE; whole floats are left out: a workbook stores 1.0 as 1, so the edited workbook would not hold the same constant)
                continue
            s = rng.choice([0, 0, 1])
            a = rng.choice(TARGETS[s])
            if s == 1 and a in SETTINGS:
                batch.append((s, a, rng.choice(SETTINGS[a]), rng.random() < 0.5))       # a settings cell keeps the kind of value it is a setting for
                continue
            batch.append((s, a, rng.choice(VALUES), rng.random() < 0.5))
        hist.append(batch)
    return hist


def to_cell(titles, s, a, v, a1style):
    from excel2pycl import Cell
    r_, c_ = wbspec.rc(a)
    if a1style:
        import re
        m = re.match(r'([A-Z]+)(\d+)', a)
        # the caller may spell the column letters in lower case (every third A1-style write, chosen by the address itself)
        letters = m.group(1).lower() if (len(a) + ord(a[0]) + s) % 3 == 0 else m.group(1)
        return Cell(titles[s], letters, m.group(2), v)
    return Cell(s, c_ - 1, r_ - 1, v)


def queries(spec, written):
    q = []
    for si, sh in enumerate([s for s in spec['sheets']]):
        for a, v in sh['cells'].items():
            if isinstance(v, str) and v.startswith('='):
                q.append((si, a))
    for (s, a) in sorted(written):
        if (s, a) not in q:
            q.append((s, a))
    return q


def same_outcome(o_hist, o_fresh):
    if o_fresh.ok != o_hist.ok:
        return False
    if not o_fresh.ok:
        return True    # both fail: the edited workbook fails there too
    a, b = norm(o_hist.value), norm(o_fresh.value)
    return val_eq(a, b, exact=False) if not isinstance(b, float) or b == b else True


def plan(tier, seed):
    seeds = ['0', '1', '2'] if tier == 'quick' else [str(i) for i in range(16)]
    groups = 6 if tier == 'quick' else 12
    per = 25 if tier == 'quick' else 250
    return [{'group': g, 'n': per, '_env': {'PYTHONHASHSEED': hs}} for g in range(groups) for hs in seeds]


_FOREIGN = None


def run_history(ctx, hid, spec, hist, hs):
    from excel2pycl import Executor
    r = ctx.r
    titles = [s['title'] for s in spec['sheets']]
    book = pipeline.Book(spec, ctx.workdir, name='base')
    if book.cls is None:
        r.violation('translate', {'spec': spec}, book.whole.brief(), 'a loadable class')
        return
    ex = Executor().set_executed_class(class_object=book.cls)
    # the blank object of ANOTHER generated class (a second translation of some other workbook), as a caller that chains two models gets it
    global _FOREIGN
    if _FOREIGN is None:
        other = pipeline.Book(wbspec.spec(wbspec.sheet('O', {'A1': 1, 'B1': '=A1+1'})), ctx.workdir, name='other')
        _FOREIGN = Executor().set_executed_class(class_object=other.cls).get_cell(pipeline.ncell(0, 9, 9)).value
    import random as _random0
    hrng = _random0.Random(repr((hid, 'containers')))
    edited = copy.deepcopy(spec)
    base_rows = {si: max(wbspec.rc(a)[0] for a in sh['cells']) for si, sh in enumerate(spec['sheets'])}
    written, twice, formula_overridden, beyond = set(), False, False, []
    held = {}          # (sheet, address, value repr, style) -> the Cell object the caller built for that write the first time
    for step, batch in enumerate(hist):
        cells = []
        throwaway = []
        for (s, a, v, a1style) in batch:
            if isinstance(v, str) and v == 'FOREIGN-BLANK':
                cells.append(to_cell(titles, s, a, _FOREIGN, a1style))
                r.count('overrides_with_a_foreign_blank_object')
                if (s, a) in written:
                    twice = True
                written.add((s, a))
                old = spec['sheets'][s]['cells'].get(a)
                formula_overridden = formula_overridden or (isinstance(old, str) and old.startswith('='))
                edited['sheets'][s]['cells'].pop(a, None)
                if wbspec.rc(a)[0] > base_rows[s]:
                    beyond.append((s, a))
                continue
            # the caller keeps its Cell objects and submits the SAME object again when it writes the same value to the same cell later
            # (prepared history objects): the library must neither keep writing into them nor prefer an older object of that address
            hk = (s, a, repr(v), a1style)
            if hk in held:
                c_old, v_old = held[hk]
                if not (type(c_old.value) is type(v_old) and c_old.value == v_old):
                    report(r, ID, None, {'history': hist, 'step': step, 'cell': [s, a], 'spec': spec, 'hashseed': hs, 'hid': hid},
                           {'value_now_in_the_callers_cell_object': wbspec.enc(c_old.value)}, {'value_the_caller_put_there': wbspec.enc(v_old)},
                           monitor='caller-cell-object-mutated')
                    c_old.value = v_old
                cells.append(c_old)
                r.count('cell_objects_resubmitted')
            elif hrng.random() < 0.3:
                # a Cell object the caller re-uses for something else right after the call (see below): not kept for resubmission
                cells.append(to_cell(titles, s, a, v, a1style))
                throwaway.append(cells[-1])
            else:
                cells.append(to_cell(titles, s, a, v, a1style))
                held[hk] = (cells[-1], v)
            if (s, a) in written:
                twice = True
            written.add((s, a))
            old = spec['sheets'][s]['cells'].get(a)
            if isinstance(old, str) and old.startswith('='):
                formula_overridden = True
            if v is None:
                edited['sheets'][s]['cells'].pop(a, None)      # cleared: the edited workbook has no cell there
            else:
                edited['sheets'][s]['cells'][a] = wbspec.enc(v)
            if wbspec.rc(a)[0] > base_rows[s]:
                beyond.append((s, a))
        # a batch that is REFUSED (its last address names no sheet) in between: whatever the library does with the cells before the bad
        # one, sizes and values must stay consistent - a size that grew for a cell that was not written is a cell nobody supplied
        if hrng.random() < 0.25:
            from excel2pycl import Cell as _Cell
            far_row = 40 + step
            probe = _Cell(0, 7, far_row - 1, 777000 + step)
            sizes_before = copy.deepcopy(ex.get_executed_class().get_sheets_size())
            rej = pipeline.guarded(lambda: ex.set_cells([probe, _Cell('no such sheet', 'A', '1', 1)]), 'set_cells')
            r.count('refused_batches')
            sizes_after = ex.get_executed_class().get_sheets_size()
            got = pipeline.guarded(lambda: ex.get_cell(_Cell(0, 7, far_row - 1)).value, 'evaluate')
            applied = got.ok and got.value == 777000 + step and type(got.value) is int
            grew = sizes_after[0]['last_row'] > sizes_before[0]['last_row']
            if rej.ok or rej.kind != pipeline.LIB_EXC:
                report(r, ID, None, {'history': hist, 'step': step, 'spec': spec, 'hashseed': hs, 'hid': hid, 'what': 'batch with an unknown sheet title'}, rej.brief(),
                       'the cell exception of the library', monitor='refused-batch')
            elif grew != applied:
                report(r, ID, None, {'history': hist, 'step': step, 'spec': spec, 'hashseed': hs, 'hid': hid, 'what': 'refused batch: H%d then an unknown sheet' % far_row},
                       {'size_grew': grew, 'cell_written': applied, 'sizes': [sizes_before, sizes_after]}, 'sizes and overrides agree after a refused batch', monitor='refused-batch')
            if applied:
                edited['sheets'][0]['cells']['H%d' % far_row] = 777000 + step
                written.add((0, 'H%d' % far_row))
        # the batch arrives in whatever container the caller has at hand: a list, a tuple, an iterator, a generator, a dict view
        kind = hrng.choice(['list', 'list', 'tuple', 'iter', 'generator', 'map', 'dict-values'])
        r.count('batch_container:' + kind)
        container = {'list': lambda: cells, 'tuple': lambda: tuple(cells), 'iter': lambda: iter(cells), 'generator': lambda: (c_ for c_ in cells),
                     'map': lambda: map(lambda c_: c_, cells), 'dict-values': lambda: {i_: c_ for i_, c_ in enumerate(cells)}.values()}[kind]()
        if step == len(hist) - 1 and len(batch) >= 2 and hrng.random() < 0.5:
            # the last batch arrives through a CURSOR: one Cell object that the caller moves (numeric coordinates) and fills before each of
            # several set_cells calls - every call means the cell the object names at that moment
            from excel2pycl import Cell as _Cell
            r.count('batches_written_through_one_moving_cell_object')

            def through_cursor():
                cur = None
                for (s_, a_, v_, _st) in batch:
                    rr_, cc_ = wbspec.rc(a_)
                    v_ = _FOREIGN if isinstance(v_, str) and v_ == 'FOREIGN-BLANK' else v_
                    if cur is None:
                        cur = _Cell(s_, cc_ - 1, rr_ - 1, v_)
                    else:
                        cur.title, cur.column, cur.row, cur.value = s_, cc_ - 1, rr_ - 1, v_
                    ex.set_cells([cur])
                return ex
            o = pipeline.guarded(through_cursor, 'set_cells')
        else:
            o = pipeline.guarded(lambda: ex.set_cells(container), 'set_cells')
        for c_ in throwaway:
            # the caller goes on using its object for something else: that is not a set_cells call
            c_.value = 'changed by the caller after the call'
            r.count('cell_objects_changed_after_the_call')
        if not o.ok:
            report(r, ID, None, {'history': hist, 'step': step, 'spec': spec, 'hashseed': hs}, o.brief(), 'set_cells accepts the batch', monitor='set_cells')
            return
        # a third of the batches is NOT followed by a query (several set_cells calls in a row): a pending-changes delta that is
        # replaced instead of merged, or a replay that only takes the last batch, shows at the next query
        if step < len(hist) - 1 and (hash((repr(hid), step)) % 3 == 0):
            r.count('batches_without_query')
            continue
        fresh = pipeline.Book(edited, ctx.workdir, name='edited')
        pred = None
        # which call comes FIRST after the batch varies: single cells in a shuffled order, one get_cells list, or whole sheets
        # (a dependent sheet before the sheet that was written to) - a replay of pending overrides tied to one query path shows here
        import random as _random
        from excel2pycl import Cell
        qrng = _random.Random(repr((hid, step, 'q')))
        qs = queries(spec, written)
        mode = qrng.choice(['cell', 'cell', 'cells', 'sheet', 'sheet'])
        observed = {}
        r.count('first_query_after_batch:' + mode)
        if mode == 'cells':
            got = pipeline.guarded(lambda: ex.get_cells([Cell(si, wbspec.rc(a)[1] - 1, wbspec.rc(a)[0] - 1) for (si, a) in qs]), 'evaluate')
            if got.ok:
                for (si, a), c_ in zip(qs, got.value):
                    observed[(si, a)] = pipeline.Outcome(pipeline.VALUE, c_.value)
        elif mode == 'sheet':
            order = list(range(len(titles)))
            qrng.shuffle(order)
            for si_ in order:
                grid = pipeline.guarded(lambda: ex.get_sheet(si_ if qrng.random() < 0.5 else titles[si_]), 'evaluate')
                if not grid.ok:
                    r.count('get_sheet_failed_fallback_to_cells')
                    continue
                r.count('sheets_read_as_grids')
                for (si, a) in qs:
                    rr, cc = wbspec.rc(a)
                    if si == si_ and rr <= len(grid.value) and cc <= len(grid.value[rr - 1]):
                        observed[(si, a)] = pipeline.Outcome(pipeline.VALUE, grid.value[rr - 1][cc - 1].value)
        else:
            qrng.shuffle(qs)
        for (si, a) in qs:
            rr, cc = wbspec.rc(a)
            o_h = observed.get((si, a)) or pipeline.guarded(lambda: ex.get_cell(Cell(si, cc - 1, rr - 1)).value, 'evaluate')
            o_f = fresh.value(si, a)
            r.ev()
            if not same_outcome(o_h, o_f):
                tag = None
                if beyond:
                    # defect model "whole-column references are expanded at translation time": the edits below the used
                    # range are invisible to them - predicted value = fresh translation without those edits
                    if pred is None:
                        e2 = copy.deepcopy(edited)
                        for (s_, a_) in beyond:
                            e2['sheets'][s_]['cells'].pop(a_, None)
                        pred = pipeline.Book(e2, ctx.workdir, name='pred')
                    o_p = pred.value(si, a)
                    f = spec['sheets'][si]['cells'].get(a)
                    if same_outcome(o_h, o_p) and _depends_on_whole_column(spec, si, a):
                        tag = 'KF-C04-whole-column-beyond-used-range'
                report(r, ID, tag, {'history': hist, 'step': step, 'cell': [si, a], 'spec': spec, 'hashseed': hs, 'hid': hid},
                       o_h.brief(), o_f.brief(), monitor='edit-and-recalculate')
        # now and then the executor is given its class again after it has answered (a reloaded model, the same class object): the
        # overrides made so far belong to the executor and stay in force for the very next query
        if hrng.random() < 0.25:
            again = pipeline.guarded(lambda: ex.set_executed_class(class_object=book.cls), 'set_cells')
            r.count('executed_class_set_again_after_a_query')
            for (si, a) in qs[:8]:
                rr, cc = wbspec.rc(a)
                o_h = pipeline.guarded(lambda: ex.get_cell(Cell(si, cc - 1, rr - 1)).value, 'evaluate')
                o_f = fresh.value(si, a)
                r.ev()
                if not again.ok or not same_outcome(o_h, o_f):
                    report(r, ID, None, {'history': hist, 'step': step, 'cell': [si, a], 'spec': spec, 'hashseed': hs, 'hid': hid, 'what': 'first query after set_executed_class was called again'},
                           o_h.brief() if again.ok else again.brief(), o_f.brief(), monitor='edit-and-recalculate')
        if twice or formula_overridden:
            r.nt((hid, step, hs))
    return


def _depends_on_whole_column(spec, si, a, seen=None):
    from ..xlref.parser import parse, refs, ParseError
    seen = seen or set()
    if (si, a) in seen:
        return False
    seen.add((si, a))
    titles = [s['title'] for s in spec['sheets']]
    f = spec['sheets'][si]['cells'].get(a)
    if not (isinstance(f, str) and f.startswith('=')):
        return False
    try:
        rs = refs(parse(f))
    except ParseError:
        return False
    for (_, sh, r1, c1, r2, c2, isr) in rs:
        if r1 is None:
            return True
        sj = titles.index(sh) if sh else si
        for rr in range(r1, r2 + 1):
            for cc in range(c1, c2 + 1):
                if _depends_on_whole_column(spec, sj, wbspec.a1(rr, cc), seen):
                    return True
    return False


def run_shard(shard, ctx):
    r = ctx.r
    boundary.install(r)
    hs = os.environ.get('PYTHONHASHSEED')
    if 'replay' in shard:
        c = shard['replay']
        hist = [[(s, a, wbspec.dec(v), st) for (s, a, v, st) in b] for b in c['history']]
        return run_history(ctx, c.get('hid', 0), c['spec'], hist, hs)
    # histories depend on (seed, group) only, so that every hash-seed shard of a group runs the same histories
    rng = random.Random(ctx.seed * 100003 + shard['group'])
    for i in range(shard['n']):
        spec = make_workbook(rng)
        hist = make_history(rng)
        run_history(ctx, (shard['group'], i), spec, hist, hs)
        if i == 0:
            r.sample({'history': hist, 'hashseed': hs, 'formulas': {k: v for k, v in spec['sheets'][0]['cells'].items() if str(v).startswith('=')}})
    r.seen('hash_seeds', hs)
    for d in boundary.disagreements()[:5]:
        r.violation('contract:' + d['contract'], {'hashseed': hs}, d['detail'], None)


def finish(r, tier, seed):
    return {'hash_seeds': sorted(r.sets.get('hash_seeds', ())), 'exhaustive': False}
