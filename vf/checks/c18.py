"""C18 - the workbook is read at true coordinates, with true types and sizes.

Oracle: the generator's cell map, cross-checked through an independent code path (openpyxl's regular, non-streaming
loader on the same file).  Three observation points on the real code:
  L2  the grid Excel.parse hands to the translator (hooked: every planted coordinate present with the stored value,
      every other coordinate blank, titles in workbook order, sizes = extent of the stored data)
  L0  Executor.get_cell on every planted constant (value AND type), on blank coordinates inside and outside the used
      range, get_titles / get_sheets_size of the generated class, get_sheet shape
  L0' probe formulas (=ref, ='title'!ref) placed on every sheet that read a planted constant of another sheet, so that a
      shifted sheet index / coordinate is visible through the translator's own reference path
"""
import datetime as dt
import math
import os
import re

import openpyxl
from openpyxl.worksheet.formula import ArrayFormula

from .. import pipeline, wbspec
from ..findings import report
from ..xlref.values import is_blank_lib

ID = 'C18'
LEVEL = 'exploration'
RULE = ('generated workbooks: 1..6 (thorough ..12) worksheets in random order, optional chart sheet(s) between them, empty '
        'sheets, layouts {dense block away from A1, sparse scatter, ragged rows, gaps of empty rows/columns, single far cell '
        '(row<=1200, column<=AAA via entry-point translation)} x value types {int, float, integral float, bool, text (quotes, '
        'newlines, numeric-looking, error text), date, date-time, array formula, probe formulas}; every constant is unique '
        'in the workbook so a value identifies its coordinate.  Non-trivial: a planted cell that is not at A1 of the first '
        'sheet / whose row or column differs from its position among the stored cells of its row; distinct by '
        '(workbook seed, sheet, coordinate)')
ASSUMPTIONS = ['openpyxl writes what the generator planted (floats with 16 significant digits: the stored number is the expectation); its regular loader is the independent reading of stored value/type',
               'time / timedelta cells are outside the type list of the statement: recorded, not judged',
               'size of an empty worksheet: {0,0} and openpyxl\'s {1,1} both accepted']
FLOORS = {'quick': {'evaluations': 4000, 'nontrivial': 2000, 'counters': {'grid_cells_checked': 5000, 'excel_parse_hooked': 100, 'exotic_books': 6, 'cursor_cell_queries': 500}},
          'thorough': {'evaluations': 80000, 'nontrivial': 40000, 'counters': {'grid_cells_checked': 100000, 'excel_parse_hooked': 2000}}}

TITLES = ['\u0438\u0306\u043e\u0434', 'e\u0301te\u0301', 'S1', 'Data_2', 'my sheet', 'Лист1', '2024', 'a.b', 'Main', 'T-1', 'x y z', 'Q', 'R2D2', "it's", 'A', 'B', 'AB', 'Sheet10']


# ---- hook on Excel.parse -------------------------------------------------------------------------------
_captured = []


def install_parse_hook(r):
    from excel2pycl.src.excel import Excel
    if getattr(Excel, '_vf_hooked', False):
        return
    orig = Excel.__dict__['parse'].__func__

    def parse(cls, path):
        ex = orig(cls, path)
        r.counters['excel_parse_hooked'] += 1
        _captured.append(ex)
        del _captured[:-1]
        return ex
    Excel.parse = classmethod(parse)
    Excel._vf_hooked = True


# ---- generator -----------------------------------------------------------------------------------------
def gen_value(rng, uid, kinds):
    k = rng.choice(kinds)
    if k == 'int':
        return k, 1000 + uid
    if k == 'negint':
        return k, -(1000 + uid)
    if k == 'float':
        return k, 1000 + uid + rng.choice([0.5, 0.25, 0.125, 0.1, 0.3])
    if k == 'intfloat':
        return k, float(5000 + uid)
    if k == 'float17':
        # doubles that need 16-17 significant digits: an xlsx stores them exactly (repr round trip)
        return k, rng.choice([math.pi, 2 / 3, 0.1 + 0.2, 1 / 3, 0.1234567890123456, -98765.43210987654, 1e-7 / 3, 123456789.12345679]) * (1 + uid) + rng.random()
    if k == 'bool':
        return k, bool(uid % 2)
    if k == 'small':
        # the few values every real workbook repeats in many cells - and that are EQUAL across kinds in Python (1 == True == 1.0, 0 == False):
        # a cell holds the value AND the kind that was stored
        return k, rng.choice([0, 1, True, False, 0, 1, True, False, 2, -1, 0.5, '1', '0', 'TRUE', 'FALSE', 'x', 'X', '1.0', 1.5])
    if k == 'text':
        return k, f't{uid}'
    if k == 'qtext':
        return k, rng.choice(["it's {}", 'say "{}"', 'a\\{}', 'line\n{}', ' {} ', '{{{}}}', '%s {}', "'{}", '# {}', '\U0001F680 {}', '{} \U0001D518\U00020000',
                              'see note({})', 'f(x) {}', 'tel(495) {}', 'a(b(c{}))', 'eval({})', '\u00e9\u0301 {}', '\ufeff{}', '{}\u2028x', 'tab\t{}', '\x7f{}', '{{titles}} {}', '{{sheets_size}}{}', '{{functions}} {}']).format(uid)
    if k == 'eqtext':
        # stored as TEXT although it starts with '=' (typed with a leading apostrophe): a constant, never a formula
        return k, wbspec.TextCell(rng.choice(['=A1+{}', '=not a formula({}', '=SUM(1,{})', '={}', '==', '=eval {}', '=A1:B{}']).format(uid))
    if k == 'numtext':
        return k, f'00{uid}'
    if k == 'errtext':
        return k, rng.choice(['#N/A', '#REF!', '#VALUE!', '#DIV/0!'])
    if k == 'date':
        return k, dt.date(2000, 1, 1) + dt.timedelta(days=uid)
    if k == 'datetime':
        return k, dt.datetime(2001, 1, 1, 12, 30) + dt.timedelta(days=uid, seconds=uid)
    if k == 'time':
        return k, dt.time(uid % 24, uid % 60, 7)
    raise ValueError(k)


KINDS = ['small', 'small', 'small', 'small', 'int', 'int', 'negint', 'float', 'float', 'float17', 'float17', 'intfloat', 'bool', 'text', 'text', 'qtext', 'numtext', 'errtext', 'date',
         'datetime', 'time', 'eqtext']


def gen_layout(rng, kind):
    """-> list of (row, col) 1-based"""
    if kind == 'empty':
        return []
    if kind == 'dense_offset':
        r0, c0 = rng.randrange(1, 9), rng.randrange(1, 7)
        h, w = rng.randrange(1, 5), rng.randrange(1, 5)
        return [(r0 + i, c0 + j) for i in range(h) for j in range(w)]
    if kind == 'scatter':
        n = rng.randrange(1, 12)
        return list({(rng.randrange(1, 16), rng.randrange(1, 10)) for _ in range(n)})
    if kind == 'ragged':
        out, r = [], rng.randrange(1, 4)
        for _ in range(rng.randrange(2, 6)):
            start, ln = rng.randrange(1, 5), rng.randrange(1, 6)
            out += [(r, start + j) for j in range(ln)]
            r += rng.randrange(1, 4)     # gaps of empty rows
        return out
    if kind == 'gaps':
        rows = sorted(rng.sample(range(1, 20), rng.randrange(2, 5)))
        cols = sorted(rng.sample(range(1, 12), rng.randrange(2, 4)))
        return [(r, c) for r in rows for c in cols if rng.random() < 0.8] or [(rows[0], cols[0])]
    if kind == 'single':
        return [(rng.randrange(1, 25), rng.randrange(1, 14))]
    if kind == 'a1':
        return [(1, 1)]
    raise ValueError(kind)


LAYOUTS = ['dense_offset', 'scatter', 'scatter', 'ragged', 'gaps', 'single', 'empty', 'a1']


def gen_book(rng, tier, far=False):
    ns = rng.randrange(1, 7 if tier == 'quick' else 13)
    titles = rng.sample(TITLES, ns)
    sheets, plant = [], {}
    uid = 0
    for si, t in enumerate(titles):
        lay = rng.choice(LAYOUTS)
        if far:
            coords = [(rng.choice([1, 9, 10, 99, 100, 1000, 1200]), rng.choice([1, 26, 27, 52, 53, 256, 702, 703]))] if si == 0 else \
                gen_layout(rng, rng.choice(['single', 'empty', 'a1']))
        else:
            coords = gen_layout(rng, lay)
        cells = {}
        for (r, c) in coords:
            uid += 1
            k, v = gen_value(rng, uid, KINDS)
            cells[wbspec.a1(r, c)] = v
            plant[(si, r, c)] = (k, v)
        sheets.append({'title': t, 'cells': cells, 'layout': lay})
    # probe formulas: on each sheet, in a cell that is free, read one planted constant (own or other sheet)
    consts = [(k, v) for k, v in plant.items() if v[0] in ('int', 'negint', 'float', 'float17', 'text', 'bool', 'numtext', 'qtext', 'small')]
    probes = {}
    if consts and not far:
        for si, sh in enumerate(sheets):
            for _ in range(rng.randrange(0, 3)):
                (tsi, tr, tc), (k, v) = rng.choice(consts)
                free = [(r, c) for r in range(1, 8) for c in range(1, 8) if (si, r, c) not in plant and (si, r, c) not in probes]
                if not free:
                    continue
                r, c = rng.choice(free)
                tt = titles[tsi]
                quoted = "'" + tt.replace("'", "''") + "'"
                if "'" in tt:
                    continue            # a quote inside a title has no reference spelling in the library's grammar (C02's concern)
                simple = tt.isascii() and tt.replace('_', '').isalnum() and not tt[0].isdigit()
                ref = wbspec.a1(tr, tc)
                if tsi == si and rng.random() < 0.5:
                    f = '=' + ref
                elif simple and rng.random() < 0.5:
                    f = f'={tt}!{ref}'
                else:
                    f = f'={quoted}!{ref}'
                use_array = rng.random() < 0.25
                probes[(si, r, c)] = (f, (tsi, tr, tc), use_array)
                sh['cells'][wbspec.a1(r, c)] = ArrayFormula(wbspec.a1(r, c), f) if use_array else f
    # chart sheets in between
    order = [wbspec.sheet(s['title'], s['cells']) for s in sheets]
    nchart = rng.choice([0, 0, 1, 1, 2]) if not far else rng.choice([0, 1])
    for i in range(nchart):
        pos = rng.randrange(1, len(order) + 1)      # never first: the chart needs a worksheet created before it
        order.insert(pos, wbspec.sheet(f'Chart{i}', chart=True))
    spec = {'sheets': order}
    # hidden and very hidden worksheets are worksheets like any other (never the first one: a workbook needs a visible sheet)
    for sh in order[1:]:
        if not sh.get('chart') and rng.random() < 0.2:
            sh['state'] = rng.choice(['hidden', 'veryHidden'])
    if not far and rng.random() < 0.35:
        # the size record of each worksheet part as other producers leave it (stale, minimal, generous, absent), or cells right of /
        # below the data that were looked at but never given a value: coordinates, values and sizes are those of the stored cells
        if rng.random() < 0.7:
            spec['dimension'] = rng.choice(['understate', 'box', 'overstate', 'drop'])
        else:
            for sh in order:
                if not sh.get('chart') and sh['cells']:
                    # in a row that holds data (a touched cell in an empty row leaves an empty row element behind - a stored row)
                    rows_ = sorted({wbspec.rc(a)[0] for a in sh['cells']})
                    wmax = max(wbspec.rc(a)[1] for a in sh['cells'])
                    sh['touched'] = [wbspec.a1(rng.choice(rows_), wmax + rng.randrange(1, 6)) for _ in range(2)]
    return spec, titles, plant, probes


_PROBE = re.compile(r"^=(?:(?:'((?:[^']|'')*)'|([A-Za-z0-9_]+))!)?([A-Z]+)(\d+)$")


# ---- oracle helpers ------------------------------------------------------------------------------------
JUDGED = (int, float, bool, str, dt.datetime)


def same_const(got, exp):
    if isinstance(exp, dt.date) and not isinstance(exp, dt.datetime):
        exp = dt.datetime(exp.year, exp.month, exp.day)
    if isinstance(exp, float) and exp == int(exp) and not isinstance(got, bool) and isinstance(got, int):
        return got == exp          # an integral float is stored as the same number; the file does not keep "1.0" vs "1"
    if isinstance(exp, str) and isinstance(got, str):
        # the translator may carry a text in a str subclass of its own (a marker for "stored as text"); a value handed out by a
        # generated class is a plain str
        return str(got) == str(exp)
    return type(got) is type(exp) and got == exp


def loader_view(path):
    """independent reading: regular loader -> per worksheet {(r,c): value}, order of titles, extents"""
    wb = openpyxl.load_workbook(path)
    out = []
    for ws in wb.worksheets:
        d = {}
        for row in ws.iter_rows():
            for c in row:
                if c.value is not None:
                    d[(c.row, c.column)] = c.value
        out.append((ws.title, d))
    wb.close()
    return out


_PREV_FILE = []


def check_book(ctx, spec, titles, plant, probes, name, far=False):
    r = ctx.r
    install_parse_hook(r)
    case0 = {'book': name, 'spec': spec}
    # ---- translate with the real Parser (whole file, or per cell for far layouts) -------------------
    del _captured[:]
    if far:
        book = pipeline.Book(spec, ctx.workdir, name=name, per_cell=True,
                             cells_of_interest=[(si, wbspec.a1(rr, cc)) for (si, rr, cc) in plant])
    else:
        book = pipeline.Book(spec, ctx.workdir, name=name)
    r.count('books:' + book.mode)
    if spec.get('dimension') or any(sh.get('touched') for sh in spec['sheets']):
        r.count('books_with_forged_size_record:' + str(spec.get('dimension') or 'touched'))
    if not far and book.cls is None:
        report(r, ID, None, case0, book.whole.brief(), 'a loadable translation of a readable workbook', monitor='translate')
        return
    lv = loader_view(book.path)
    # generator vs independent loader (guards the oracle itself)
    exp_sheets = []
    for si, t in enumerate(titles):
        exp_sheets.append({(rr, cc): v for (s, rr, cc), (k, v) in plant.items() if s == si})
    if [t for t, _ in lv] != titles:
        r.count('oracle_disagreement:titles')
        return
    for si, (t, d) in enumerate(lv):
        for key, v in exp_sheets[si].items():
            if key not in d or not (same_const(d[key], v) or (isinstance(v, float) and isinstance(d[key], float) and abs(d[key] - v) <= 1e-15 * abs(v))):
                if not isinstance(v, (dt.time,)):
                    r.count('oracle_disagreement:value')
    # ---- L2: the grid the translator saw ----------------------------------------------------------
    if not _captured:
        r.inconcl('Excel.parse hook saw no call')
        return
    ex = _captured[-1]
    data = getattr(ex, '_data', None)
    tmap = getattr(ex, '_titles', None)
    sizes = getattr(ex, '_sheets_size', None)
    if data is None or tmap is None or sizes is None:
        r.seen('unreached_state', 'Excel._data/_titles/_sheets_size')
    else:
        exp_tmap = {t: i for i, t in enumerate(titles)}
        r.ev()
        if dict(tmap) != exp_tmap:
            report(r, ID, None, dict(case0, what='titles'), dict(tmap), exp_tmap, monitor='parse-grid-titles')
        if len(data) != len(titles):
            report(r, ID, None, dict(case0, what='sheet count'), len(data), len(titles), monitor='parse-grid')
        for si in range(min(len(data), len(titles))):
            d = lv[si][1]
            grid = data[si]
            seen_keys = set()
            for ri, row in enumerate(grid):
                for ci, v in enumerate(row):
                    r.count('grid_cells_checked')
                    if v is None:
                        continue
                    key = (ri + 1, ci + 1)
                    seen_keys.add(key)
                    e = d.get(key)
                    if isinstance(e, ArrayFormula):
                        e = e.text
                    if e is None or not ((type(v) is type(e) and v == e) or (isinstance(v, str) and isinstance(e, str) and str(v) == str(e))):
                        report(r, ID, None, dict(case0, sheet=si, cell=wbspec.a1(*key)), wbspec.enc(v),
                               wbspec.enc(e) if e is not None else 'blank', monitor='parse-grid')
            for key in d:
                if key not in seen_keys:
                    report(r, ID, None, dict(case0, sheet=si, cell=wbspec.a1(*key)), 'blank / outside the grid',
                           wbspec.enc(d[key] if not isinstance(d[key], ArrayFormula) else d[key].text), monitor='parse-grid')
            mr = max([k[0] for k in d], default=0)
            mc = max([k[1] for k in d], default=0)
            got = (sizes[si].get('last_row'), sizes[si].get('last_column')) if si < len(sizes) else None
            ok = got == (mr, mc) or (not d and got == (1, 1))
            r.ev()
            if not ok:
                report(r, ID, None, dict(case0, sheet=si, what='size'), got, (mr, mc), monitor='parse-grid-size')
    # ---- L0: the generated class ------------------------------------------------------------------
    classes = [book.cls] if book.cls is not None else [o.value for o in book.per_cell.values() if o.ok][:1]
    for cls in classes:
        inst = pipeline.guarded(lambda: cls(), 'load')
        if not inst.ok:
            report(r, ID, None, case0, inst.brief(), 'instance', monitor='class')
            continue
        gt = pipeline.guarded(lambda: dict(inst.value.get_titles()), 'evaluate')
        gs = pipeline.guarded(lambda: [dict(x) for x in inst.value.get_sheets_size()], 'evaluate')
        r.ev(2)
        if not gt.ok or gt.value != {t: i for i, t in enumerate(titles)}:
            report(r, ID, None, dict(case0, what='get_titles'), gt.brief(), {t: i for i, t in enumerate(titles)}, monitor='class-titles')
        exp_sizes = []
        for si in range(len(titles)):
            d = lv[si][1]
            exp_sizes.append({'last_column': max([k[1] for k in d], default=0), 'last_row': max([k[0] for k in d], default=0)})
        if not gs.ok or len(gs.value) != len(exp_sizes) or any(
                g != e and not (e == {'last_column': 0, 'last_row': 0} and g == {'last_column': 1, 'last_row': 1})
                for g, e in zip(gs.value, exp_sizes)):
            report(r, ID, None, dict(case0, what='get_sheets_size'), gs.brief(), exp_sizes, monitor='class-sizes')
    # a SECOND user of the same class object: after an Executor on it was given a cell beyond the stored range of every sheet, a new instance
    # and a new Executor still report the sizes of the workbook (the tables belong to the workbook, what one user adds is that user's)
    if book.cls is not None and not far:
        from excel2pycl import Cell as _Cell
        first_user = pipeline.guarded(lambda: pipeline.Executor().set_executed_class(class_object=book.cls).set_cells(
            [_Cell(si_, 30 + si_, 40 + si_, 5) for si_ in range(len(titles))]), 'evaluate')
        second = pipeline.guarded(lambda: [dict(x) for x in book.cls().get_sheets_size()], 'evaluate')
        third = pipeline.guarded(lambda: [dict(x) for x in pipeline.Executor().set_executed_class(class_object=book.cls).get_executed_class().get_sheets_size()], 'evaluate')
        r.ev(2)
        r.count('second_users_of_a_class_object')
        for label, got_ in (('a new instance', second), ('a new Executor', third)):
            if first_user.ok and (not got_.ok or len(got_.value) != len(exp_sizes) or any(
                    g != e and not (e == {'last_column': 0, 'last_row': 0} and g == {'last_column': 1, 'last_row': 1}) for g, e in zip(got_.value, exp_sizes))):
                report(r, ID, None, dict(case0, what=f'get_sheets_size of {label} after ANOTHER Executor on the same class object was given cells beyond the stored range'),
                       got_.brief(), exp_sizes, monitor='class-sizes')
    # the class FILE of this book and of the book before it (same file name, directories of their own): written one after the other,
    # then the newer one is loaded first and the older one after it - each has to report the titles of its own workbook
    if book.cls is not None and book.whole is not None and book.whole.ok and not far:
        fx, fpath_ = pipeline.file_executor(book.whole.value, ctx.workdir, 'cls_' + name)
        r.count('class_files_loaded')
        if fx.ok:
            for (label, exf, exp_t) in [('this', fx.value, titles)] + ([('previous, loaded again after a newer one',
                                         pipeline.guarded(lambda: pipeline.Executor().set_executed_class(class_file=_PREV_FILE[0]), 'load_file'), _PREV_FILE[1])] if _PREV_FILE else []):
                if label != 'this':
                    if not exf.ok:
                        report(r, ID, None, dict(case0, what='class file of ' + label), exf.brief(), 'loads', monitor='class-titles')
                        continue
                    exf = exf.value
                gt_ = pipeline.guarded(lambda: dict(exf.get_executed_class().get_titles()), 'evaluate')
                r.ev()
                if not gt_.ok or gt_.value != {t: i for i, t in enumerate(exp_t)}:
                    report(r, ID, None, dict(case0, what='titles reported by the class loaded from the file of the workbook: ' + label), gt_.brief(),
                           {t: i for i, t in enumerate(exp_t)}, monitor='class-titles')
            del _PREV_FILE[:]
            _PREV_FILE.extend([fpath_, list(titles)])
    # constants: value and type through the executor
    pos_in_row = {}
    for (si, rr, cc) in sorted(plant):
        pos_in_row.setdefault((si, rr), []).append(cc)
    for (si, rr, cc), (k, v) in plant.items():
        a = wbspec.a1(rr, cc)
        if isinstance(v, float) and (rr, cc) in lv[si][1] and isinstance(lv[si][1][(rr, cc)], (int, float)):
            v = lv[si][1][(rr, cc)]       # the STORED number: openpyxl writes 16 significant digits, the file is the truth
            plant[(si, rr, cc)] = (k, v)
        out = book.value(si, a)
        r.ev()
        r.count('const_kind:' + k)
        case = dict(case0, sheet=si, cell=a, kind=k)
        if k == 'time':
            r.count('unjudged_type:time')
            continue
        if not out.ok or not same_const(out.value, v):
            report(r, ID, None, case, out.brief(), {'value': wbspec.enc(v), 'type': type(v).__name__}, monitor='constant-value')
        nontrivial = not (si == 0 and rr == 1 and cc == 1)
        if nontrivial:
            r.nt((name, si, rr, cc))
        if pos_in_row[(si, rr)].index(cc) + 1 != cc:
            r.count('cells_whose_column_differs_from_position_in_row')
    # a CURSOR: one Cell object of the caller, addressed by numbers, moved from constant to constant (also across sheets) between queries,
    # and the Cell objects a whole-sheet query handed out, moved to a neighbour: every query is answered for where the cell stands NOW
    if book.cls is not None and plant:
        from excel2pycl import Cell as _Cell
        exc_ = pipeline.Executor().set_executed_class(class_object=book.cls)
        walk = [k_ for k_ in sorted(plant) if plant[k_][0] != 'time'][:40]
        ctx.rng.shuffle(walk)
        cursor = None
        for (si, rr, cc) in walk[:16]:
            if cursor is None:
                cursor = _Cell(si, cc - 1, rr - 1)
            else:
                cursor.title, cursor.column, cursor.row = si, cc - 1, rr - 1
            o = pipeline.guarded(lambda: exc_.get_cell(cursor).value, 'evaluate')
            r.ev()
            r.count('cursor_cell_queries')
            if not o.ok or not same_const(o.value, plant[(si, rr, cc)][1]):
                report(r, ID, None, dict(case0, sheet=si, cell=wbspec.a1(rr, cc), what='one Cell object moved to this address by its integer coordinates'), o.brief(),
                       {'value': wbspec.enc(plant[(si, rr, cc)][1])}, monitor='moved-cell-object')
    # blanks inside / outside the used range
    if book.cls is not None:
        for si in range(len(titles)):
            d = lv[si][1]
            mr = max([k[0] for k in d], default=0)
            mc = max([k[1] for k in d], default=0)
            blanks = [(rr, cc) for rr in range(1, mr + 2) for cc in range(1, mc + 2) if (rr, cc) not in d]
            ctx.rng.shuffle(blanks)
            for (rr, cc) in blanks[:12]:
                out = book.value(si, wbspec.a1(rr, cc))
                r.ev()
                r.count('blank_queries')
                if not out.ok or not is_blank_lib(out.value):
                    report(r, ID, None, dict(case0, sheet=si, cell=wbspec.a1(rr, cc), what='blank'), out.brief(), 'blank', monitor='blank-cell')
        # whole-sheet grid shape = sizes
        for si in range(len(titles)):
            d = lv[si][1]
            mr = max([k[0] for k in d], default=0)
            mc = max([k[1] for k in d], default=0)
            g = pipeline.guarded(lambda si=si: pipeline.Executor().set_executed_class(class_object=book.cls).get_sheet(si), 'evaluate')
            r.ev()
            if not g.ok:
                report(r, ID, None, dict(case0, sheet=si, what='get_sheet'), g.brief(), 'grid', monitor='sheet-grid')
                continue
            shape = (len(g.value), len(g.value[0]) if g.value else 0)
            if shape != (mr, mc) and not (not d and shape == (1, 1)):
                report(r, ID, None, dict(case0, sheet=si, what='get_sheet shape'), shape, (mr, mc), monitor='sheet-grid')
    # probes: the translator's own reference path lands on the planted constant
    for (si, rr, cc), (f, (tsi, tr, tc), arr) in probes.items():
        out = book.value(si, wbspec.a1(rr, cc))
        r.ev()
        r.count('probe_formulas' + (':array' if arr else ''))
        exp = plant[(tsi, tr, tc)][1]
        case = dict(case0, sheet=si, cell=wbspec.a1(rr, cc), formula=f, target=[tsi, wbspec.a1(tr, tc)])
        if not out.ok or not same_const(out.value, exp):
            report(r, ID, None, case, out.brief(), wbspec.enc(exp), monitor='probe-reference')
        r.nt((name, 'probe', si, rr, cc))


EXOTIC = [('data table', {'$dtf': {'ref': 'C3:C5', 'r1': 'B1', 'dt2D': False, 'dtr': False}}), ('data table 2-d', {'$dtf': {'ref': 'D3:E4', 'r1': 'B1', 'r2': 'B2', 'dt2D': True}}),
          ('largest double', 1.7976931348623157e308), ('negative largest double', -1.7976931348623157e308), ('nearly largest double', 1.7976931348623155e308),
          ('smallest double', 5e-324), ('time of day', {'$t': '00:00:00'}), ('duration', {'$td': 90000.0})]


def run_exotic(ctx):
    """values openpyxl hands over as something else than int/float/bool/text/date-time (a data table object, a number it reads back as
    inf, a time of day, a duration): the workbook is refused with the library's exception, or the class loads and every ORDINARY cell of it
    still has its stored value - one strange cell must not turn the class of the whole workbook into text that does not compile"""
    from excel2pycl import E2PyclParserException
    r, rng = ctx.r, ctx.rng
    for what, val in EXOTIC:
        cells = {'A1': 11, 'A2': 'txt', 'B1': 2.5, 'B2': True, 'A3': '=A1+B1', 'C9': rng.randrange(100, 999)}
        where = rng.choice(['C3', 'F7', 'B4'])
        cells[where] = val
        spec = wbspec.spec(wbspec.sheet('S', cells), wbspec.sheet('T', {'A1': 5}))
        try:
            path = wbspec.write(spec, os.path.join(ctx.workdir, 'exotic_%s.xlsx' % what.replace(' ', '_')))
        except (TypeError, ValueError, AttributeError) as e:      # openpyxl cannot write it: nothing to observe
            r.count('exotic_not_writable:' + type(e).__name__)
            continue
        t = pipeline.translate(path)
        r.ev()
        r.count('exotic_books')
        r.nt(('exotic', what))
        if not t.ok:
            r.count('exotic:refused' if t.kind == pipeline.LIB_EXC else 'exotic:failed')
            if t.kind != pipeline.LIB_EXC:
                report(r, ID, None, {'spec': spec, 'what': what}, t.brief(), 'a class or an exception of the library', monitor='exotic-cell-value')
            continue
        ld = pipeline.load_text(t.value)
        if not ld.ok:
            report(r, ID, None, {'spec': spec, 'what': what}, ld.brief(), 'class text that loads (or a refusal by the library)', monitor='exotic-cell-value')
            continue
        r.count('exotic:translated')
        for a, want in (('A1', 11), ('A2', 'txt'), ('B1', 2.5), ('B2', True), ('A3', 13.5), ('C9', cells['C9'])):
            rr, cc = wbspec.rc(a)
            o = pipeline.query(ld.value, 0, rr, cc)
            r.ev()
            if not (o.ok and type(o.value) is type(want) and o.value == want):
                report(r, ID, None, {'spec': spec, 'what': what, 'cell': a}, o.brief(), want, monitor='exotic-cell-value')
        # the strange cell itself: whatever it evaluates to, it is a value (a member that names something undefined is not)
        o = pipeline.query(ld.value, 0, *wbspec.rc(where))
        r.ev()
        if not o.ok and o.kind != pipeline.LIB_EXC:
            report(r, ID, None, {'spec': spec, 'what': what, 'cell': where}, o.brief(), 'a value for a cell the translation accepted', monitor='exotic-cell-value')
    r.sample({'exotic_values': [w for w, _ in EXOTIC]})


def plan(tier, seed):
    n = 160 if tier == 'quick' else 4000
    nf = 16 if tier == 'quick' else 160
    shards = [{'kind': 'near', 'n': n // 16, 'k': i} for i in range(16)]
    shards += [{'kind': 'far', 'n': max(1, nf // 8), 'k': i} for i in range(8)]
    shards.append({'kind': 'exotic'})
    return shards


def run_shard(shard, ctx):
    r = ctx.r
    if 'replay' in shard:
        c = shard['replay']
        spec = c['spec']
        titles = [s['title'] for s in spec['sheets'] if not s.get('chart')]
        plant, probes = {}, {}
        for si, s in enumerate([s for s in spec['sheets'] if not s.get('chart')]):
            for a, v in s['cells'].items():
                v = wbspec.dec(v)
                rr, cc = wbspec.rc(a)
                if isinstance(v, ArrayFormula) or (isinstance(v, str) and v.startswith('=')):
                    f = v.text if isinstance(v, ArrayFormula) else v
                    m = _PROBE.match(f)
                    if m:
                        tt = m.group(1).replace("''", "'") if m.group(1) is not None else (m.group(2) or titles[si])
                        if tt in titles:
                            probes[(si, rr, cc)] = (f, (titles.index(tt), *wbspec.rc(m.group(3) + m.group(4))), isinstance(v, ArrayFormula))
                    continue
                plant[(si, rr, cc)] = ('time' if isinstance(v, dt.time) else 'replayed', v)
        far = any(rr > 60 or cc > 40 for (_, rr, cc) in plant)
        return check_book(ctx, spec, titles, plant, probes, 'replay', far=far)
    if shard['kind'] == 'exotic':
        return run_exotic(ctx)
    far = shard['kind'] == 'far'
    for i in range(shard['n']):
        spec, titles, plant, probes = gen_book(ctx.rng, ctx.tier, far=far)
        name = f'{shard["kind"]}{shard["k"]}_{i}'
        check_book(ctx, spec, titles, plant, probes, name, far=far)
        r.seen('sheet_counts', len(titles))
        r.seen('chart_sheets', sum(1 for s in spec['sheets'] if s.get('chart')))
        for s in spec['sheets']:
            if s.get('chart'):
                r.count('books_with_chart_sheet')
                break
        if i == 0:
            r.sample({'titles': titles, 'planted': {f'{si}!{wbspec.a1(rr, cc)}': wbspec.enc(v) for (si, rr, cc), (k, v) in list(plant.items())[:8]},
                      'probes': [p[0] for p in list(probes.values())[:3]], 'far': far})


def finish(r, tier, seed):
    return {'const_kinds': {k: v for k, v in r.counters.items() if k.startswith('const_kind:')}}
