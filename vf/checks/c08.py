"""C08 - evaluation is pure and repeatable; all query APIs agree.

The library is compared with itself: every observation made on ONE long-lived Executor under a random schedule of
get_cell (4 addressing spellings) / get_cells (lists with repeats, the same Cell object twice) / get_sheet (index and
title), interleaved with a second Executor on the same class under different overrides, must equal the observation a
FRESH Executor with the same overrides makes when it asks for that single coordinate once.  icontract contracts on the
three query methods check that the observable executor state (override set, sizes) is the same before and after each call;
the whole-sheet grid must have one entry per coordinate of (used range U overrides), in row-major order."""
import os
import re

from .. import pipeline, wbspec
from ..findings import report
from ..gen import books
from ..instr import boundary

ID = 'C08'
LEVEL = 'exploration'
RULE = ('layered random workbooks (1-3 sheets, ragged constant rows, 8-10 formulas per sheet from 22 templates incl. ranges, whole '
        'columns, cross-sheet references, list-valued and raising formulas) x override sets (constants, formula cells, cells '
        'beyond the used range) x random schedules of 60 (thorough 200) calls mixing get_cell in four spellings, get_cells with '
        'repeats, get_sheet by index and title, with a second executor on the same class interleaved; the same schedules over the workbooks of '
        'the semantic checks (aggregates, criteria incl. ==-equal criteria of different kinds, rounding modes of one amount, text forms of '
        'TRUE/1.0/FALSE/0.0, lookups, date functions with and without holiday ranges, one workbook using all 40 functions). Non-trivial: a coordinate '
        'that was observed at least 3 times through at least 2 different APIs/spellings under a non-empty override set; '
        'distinct by (book, coordinate)')
ASSUMPTIONS = ['a fresh Executor asked once is the reference observation', 'TODAY() is excluded (time-dependent by definition)',
               'values are compared by type and repr (lists element-wise)']
FLOORS = {'quick': {'evaluations': 20000, 'nontrivial': 1200, 'counters': {'contract_evals:query_leaves_state': 10000, 'sheet_grids_checked': 150}},
          'thorough': {'evaluations': 1000000, 'nontrivial': 40000, 'counters': {'contract_evals:query_leaves_state': 500000, 'sheet_grids_checked': 5000}}}

LAST_CASE = {}
_L = re.compile(r'([A-Z]+)(\d+)')


def canon(v):
    if isinstance(v, (list, tuple)):
        return [canon(i) for i in v]
    return (type(v).__name__, repr(v))


def obs(fn):
    o = pipeline.guarded(fn, 'evaluate')
    return ('V', canon(o.value)) if o.ok else ('E', o.exc_name)


def spelled(titles, si, r, c, k):
    from excel2pycl import Cell
    L = wbspec.get_column_letter(c)
    if (r + c + si) % 4 == 0:
        L = L.lower()          # column letters as a caller may type them
    if k == 0:
        return Cell(si, c - 1, r - 1)
    if k == 1:
        return Cell(titles[si], L, str(r))
    if k == 2:
        return Cell(titles[si], c - 1, r - 1)
    return Cell(si, L, str(r))


BAD_ROWS = ['x', '1.0', ' 7', '+7', '1_0', '\u0667', '\uff11', '0', '-1', '1e1', '0x1', 'A', '7 ', '\n3']
BAD_COLS = ['1', 'A1', 'a-b', ' ', 'ZZZZ', 'AAAA', '\u0410']
BAD_TITLES = ['no such sheet', '', ' ', 7, -1, 99, True, False, 1.0, 0.0, None, (0,)]


def probe_malformed(ctx, ex, titles, case0):
    """addresses that name no cell (a row text that is no plain number, impossible column letters, an unknown title), through get_cell,
    get_cells and set_cells: the answer is the library's cell exception - never a foreign one, and never the value of some cell the
    text does not name (a row text that IS a number in a looser spelling may be read as that number, nothing else)"""
    from excel2pycl import Cell
    r = ctx.r
    probes = [(titles[0], 'A', t) for t in BAD_ROWS] + [(titles[0], c, '1') for c in BAD_COLS] + [(t, 'A', '1') for t in BAD_TITLES]
    # positions given as numbers that are no whole number from 0
    # a position without a row: the way formulas name a whole column, not a cell that can be asked for or given a value
    probes += [(0, 0, None), (titles[0], 'A', None), (titles[0], 'B', ''), (0, 1, None)]
    probes += [(0, 2.0, 0), (0, 2, 0.0), (0, 5.5, 7), (0, 2, -1), (0, -1, 0), (0, True, 0), (0, 0, False), (0, 1, 1.5), (0, (1,), 0)]
    for t in BAD_TITLES:
        o = pipeline.guarded(lambda: ex.get_sheet(t), 'evaluate')
        r.ev()
        r.count('malformed_address_probes')
        if o.ok or o.kind != pipeline.LIB_EXC:
            report(r, ID, None, dict(case0, api='get_sheet', address=[t]), o.brief(), 'the cell exception of the library', monitor='malformed-address')
    for (t, c, row) in probes:
        for api in ('get_cell', 'get_cells', 'set_cells'):
            def call():
                if api == 'get_cell':
                    return ex.get_cell(Cell(t, c, row)).value
                if api == 'get_cells':
                    return ex.get_cells([Cell(titles[0], 'A', '1'), Cell(t, c, row)])[-1].value
                ex.set_cells([Cell(t, c, row, 424242)])
                return 'accepted'
            o = pipeline.guarded(call, 'evaluate')
            r.ev()
            r.count('malformed_address_probes')
            if o.ok:
                loose = row.strip().lstrip('+').replace('_', '') if isinstance(row, str) else ''
                named = isinstance(t, str) and isinstance(row, str) and t == titles[0] and c == 'A' and loose.isascii() and loose.isdigit() and int(loose) >= 1
                if api == 'set_cells' or not named:
                    report(r, ID, None, dict(case0, api=api, address=[t, c, row]), o.brief(), 'the cell exception of the library', monitor='malformed-address')
                    if api == 'set_cells':
                        return      # the executor now holds an override the schedule knows nothing about
                else:
                    want = pipeline.guarded(lambda: ex.get_cell(Cell(0, 0, int(loose) - 1)).value, 'evaluate')
                    if not (want.ok and canon(want.value) == canon(o.value)):
                        report(r, ID, None, dict(case0, api=api, address=[t, c, row]), o.brief(), 'the cell exception of the library', monitor='malformed-address')
            elif o.kind != pipeline.LIB_EXC:
                report(r, ID, None, dict(case0, api=api, address=[t, c, row]), o.brief(), 'the cell exception of the library', monitor='malformed-address')


def run_book(ctx, bi, ncalls, replay=None, source=None):
    from excel2pycl import Executor, Cell
    r, rng = ctx.r, ctx.rng
    if replay:
        spec = replay['spec']
        titles = [s['title'] for s in spec['sheets']]
        info = {'titles': titles, 'consts': {}, 'formulas': {}}
    elif source is not None:
        spec = source
        titles = [s_['title'] for s_ in spec['sheets']]
        info = {'titles': titles, 'consts': {}, 'formulas': {}}
        for si_, sh_ in enumerate(spec['sheets']):
            for a_, v_ in sh_['cells'].items():
                v_ = wbspec.dec(v_)
                key_ = (si_, *wbspec.rc(a_))
                if isinstance(v_, str) and v_.startswith('='):
                    info['formulas'][key_] = v_
                elif not isinstance(v_, (dict, list)):
                    info['consts'][key_] = v_
    else:
        spec, info = books.gen(rng, formulas_per_sheet=rng.randrange(6, 11))
    titles = info['titles']
    ns = len(titles)
    book = pipeline.Book(spec, ctx.workdir, name=f'b{bi}')
    if book.cls is None:
        # not this property's business (C06); count and move on
        r.count('books_not_translated')
        r.seen('untranslated_reason', book.whole.exc_name)
        return
    cls = book.cls
    used = {}
    for si, sh in enumerate(spec['sheets']):
        rows = [wbspec.rc(a) for a in sh['cells']]
        used[si] = (max([x[0] for x in rows], default=0), max([x[1] for x in rows], default=0))
    # override sets: A (main executor) and B (interleaved second executor)
    def make_overrides():
        ov = {}
        keys = list(info['consts']) + list(info['formulas'])
        for key in rng.sample(keys, min(len(keys), rng.randrange(0, 6))):
            ov[key] = books.const(rng)
        for _ in range(rng.randrange(0, 3)):
            si = rng.randrange(ns)
            ov[(si, rng.randrange(1, 14), rng.randrange(1, 12))] = books.const(rng)
        if rng.random() < 0.12:
            # a column whose letters have two characters (the A1 spelling of overrides and the grid width beyond Z)
            ov[(rng.randrange(ns), rng.randrange(1, 6), rng.choice([26, 27, 28, 52, 53]))] = books.const(rng)
        return ov
    if replay:
        ovA = {(s_, *wbspec.rc(a)): wbspec.dec(v) for (s_, a, v) in replay['overridesA']}
        ovB = {(s_, *wbspec.rc(a)): wbspec.dec(v) for (s_, a, v) in replay['overridesB']}
    else:
        ovA, ovB = make_overrides(), make_overrides()
    # epilogue (not in replays, which carry their own schedule): the grid of sheet X, then an override on ANOTHER sheet Y that formulas of X
    # read, then the grid of X again - late stages of executor A, supplied after the random part of the schedule
    epilogue = []
    if not replay and ns > 1:
        for _ in range(2):
            x = rng.randrange(ns)
            cand = []
            for (ys, yr, yc), v in info['consts'].items():
                if ys != x and (ys, yr, yc) not in ovA and any(k_[0] == x and titles[ys] in f_ and wbspec.a1(yr, yc) in f_.replace('$', '') for k_, f_ in info['formulas'].items()):
                    cand.append((ys, yr, yc))
            if not cand:
                cand = [k_ for k_ in info['consts'] if k_[0] != x and k_ not in ovA]
            if cand:
                key_ = rng.choice(cand)
                ovA[key_] = rng.choice([books.const(rng), rng.randrange(100, 999), rng.randrange(100, 999) + 0.5])
                epilogue.append((x, key_))
        if epilogue:
            r.count('books_with_cross_sheet_epilogue')

    def mk(ov):
        ex = Executor().set_executed_class(class_object=cls)
        if ov:
            ex.set_cells([Cell(si, c - 1, r_ - 1, v) for (si, r_, c), v in ov.items()])
        return ex

    def mk_noisy(ov):
        """the same overrides supplied in ONE set_cells call whose list names coordinates more than once (earlier entries with other values,
        other addressing spellings): the most recent entry of a coordinate is the override - the normal form is what mk() supplies"""
        import random as _random
        nrng = _random.Random(repr(sorted((k, repr(v)) for k, v in ov.items())))
        ex = Executor().set_executed_class(class_object=cls)
        if not ov:
            return ex
        final = list(ov.items())
        nrng.shuffle(final)
        lst = []
        for (si, r_, c), v in final:
            for _ in range(nrng.choice([0, 1, 1, 2, 3])):
                decoy = nrng.choice([0, 1, -7, 'decoy', True, 2.5, '', 12345, v])
                pos = nrng.randrange(len(lst) + 1)
                lst.insert(pos, ((si, r_, c), decoy))
        # the true values come last (in shuffled order), every decoy of a coordinate stands somewhere before its true value
        lst += final
        cells_ = []
        for (si, r_, c), v in lst:
            if nrng.random() < 0.5:
                cells_.append(Cell(si, c - 1, r_ - 1, v))
            else:
                cells_.append(Cell(titles[si], wbspec.get_column_letter(c), str(r_), v))
        ex.set_cells(cells_)
        r.count('noisy_override_lists')
        r.count('noisy_override_repeats', len(lst) - len(final))
        return ex

    def size(ov, si):
        mr, mc = used[si]
        for (s, r_, c) in ov:
            if s == si:
                mr, mc = max(mr, r_), max(mc, c)
        return mr, mc

    # reference observations: a fresh executor per coordinate
    def reference(ov, si, r_, c):
        ex = mk(ov)
        return obs(lambda: ex.get_cell(Cell(si, c - 1, r_ - 1)).value)

    refA, refB = {}, {}
    # executor A receives its overrides in 1-3 set_cells calls with queries in between: after each call the values must be those of
    # a fresh executor given everything supplied so far at once
    if replay and replay.get('stagesA'):
        cuts = replay['stagesA']
    else:
        n_pre = len(ovA) - len(epilogue)
        n_st = min(rng.choice([1, 1, 2, 3]), n_pre) if n_pre >= 2 else 1
        cuts = (sorted(rng.sample(range(1, n_pre), n_st - 1)) + [n_pre] if n_pre else [0]) + [n_pre + 1 + i_ for i_ in range(len(epilogue))]
    items_A = list(ovA.items())
    stagesA = [dict(items_A[:c_]) for c_ in cuts]
    cur = [0]

    def ovA_now():
        return stagesA[cur[0]]

    def ref_for(which, key):
        if which == 'A':
            k2 = (key, cur[0])
            if k2 not in refA:
                refA[k2] = reference(ovA_now(), *key)
            return refA[k2]
        if key not in refB:
            refB[key] = reference(ovB, *key)
        return refB[key]

    exA, exB = mk(stagesA[0]), mk_noisy(ovB)
    if bi % 2 and book.whole is not None and book.whole.ok:
        # every second book: the scheduled executor is loaded from the class FILE (one file name for all books of the process, each in
        # a directory of its own) - the references stay on the class object
        fx, _ = pipeline.file_executor(book.whole.value, ctx.workdir, f'cls_{bi}')
        if fx.ok:
            exA = fx.value
            if stagesA[0]:
                exA.set_cells([Cell(si, c - 1, r_ - 1, v) for (si, r_, c), v in stagesA[0].items()])
            r.count('scheduled_executor_loaded_from_file')
    case0 = {'book': bi, 'spec': spec, 'overridesA': [[s, wbspec.a1(x, y), wbspec.enc(v)] for (s, x, y), v in ovA.items()],
             'overridesB': [[s, wbspec.a1(x, y), wbspec.enc(v)] for (s, x, y), v in ovB.items()], 'stagesA': cuts}
    LAST_CASE.clear()
    LAST_CASE.update(case0)
    seen_by = {}     # key -> set of api labels (executor A only)
    log = []

    def check(which, key, got, api):
        r.ev()
        exp = ref_for(which, key)
        if which == 'A':
            seen_by.setdefault(key, []).append(api)
        if got != exp:
            report(r, ID, None, dict(case0, executor=which, cell=[key[0], wbspec.a1(key[1], key[2])], api=api, at_step=len(log)),
                   got, exp, monitor='repeatability')

    coords = []
    for si in range(ns):
        mr, mc = size(ovA, si)
        coords += [(si, r_, c) for r_ in range(1, mr + 2) for c in range(1, mc + 2)]
    hot = rng.sample(coords, min(len(coords), 10))
    if source is not None and info['formulas']:
        fkeys = list(info['formulas'])
        hot = rng.sample(fkeys, min(len(fkeys), 40))
        coords = fkeys + rng.sample(coords, min(len(coords), 30))
    if replay:
        schedule = replay['schedule']
    else:
        schedule = []
        for step in range(ncalls):
            which = 'A' if rng.random() < 0.8 else 'B'
            op = rng.random()
            if op < 0.55:
                key = rng.choice(hot) if rng.random() < 0.6 else rng.choice(coords)
                schedule.append(['get_cell', which, key[0], wbspec.a1(key[1], key[2]), rng.randrange(4)])
            elif op < 0.85:
                keys = [rng.choice(hot) if rng.random() < 0.6 else rng.choice(coords) for _ in range(rng.randrange(1, 6))]
                sp = [rng.randrange(4) for _ in keys]
                dup = len(keys) > 1 and rng.random() < 0.4
                schedule.append(['get_cells', which, [[k_[0], wbspec.a1(k_[1], k_[2])] for k_ in keys], sp, dup])
            else:
                si = rng.randrange(ns)
                schedule.append(['get_sheet', which, titles[si] if rng.random() < 0.5 else si])
        for k_ in range(1, len(stagesA) - len(epilogue)):
            schedule.insert(rng.randrange(3, max(4, len(schedule))), ['set_cells', 'A', k_])
        # stage ops must come in order
        order_ = [e_ for e_ in schedule if e_[0] == 'set_cells']
        it_ = iter(sorted(order_, key=lambda e_: e_[2]))
        schedule = [next(it_) if e_[0] == 'set_cells' else e_ for e_ in schedule]
        for i_, (x, key_) in enumerate(epilogue):
            k_ = len(stagesA) - len(epilogue) + i_
            schedule += [['get_sheet', 'A', x], ['set_cells', 'A', k_], ['get_sheet', 'A', titles[x]], ['get_cell', 'A', key_[0], wbspec.a1(key_[1], key_[2]), 0], ['get_sheet', 'A', x]]
    case0['schedule'] = schedule
    for entry in schedule:
        which = entry[1]
        ex = exA if which == 'A' else exB
        log.append(entry)
        if entry[0] == 'set_cells':
            k_ = entry[2]
            delta = [(key_, v_) for key_, v_ in stagesA[k_].items() if key_ not in stagesA[k_ - 1]]
            exA.set_cells([Cell(si_, c_ - 1, r_ - 1, v_) for (si_, r_, c_), v_ in delta])
            cur[0] = k_
            r.count('staged_set_cells')
            continue
        if entry[0] == 'get_cell':
            key = (entry[2], *wbspec.rc(entry[3]))
            k = entry[4]
            cell = spelled(titles, *key, k)
            got = obs(lambda: ex.get_cell(cell).value)
            check(which, key, got, f'get_cell/{k}')
        elif entry[0] == 'get_cells':
            keys = [(s_, *wbspec.rc(a)) for (s_, a) in entry[2]]
            cells = [spelled(titles, *k_, sp_) for k_, sp_ in zip(keys, entry[3])]
            if entry[4]:
                cells.append(cells[0])           # the same Cell object twice
                keys.append(keys[0])
            o = pipeline.guarded(lambda: [c.value for c in ex.get_cells(cells)], 'evaluate')
            if o.ok:
                for k_, v in zip(keys, o.value):
                    check(which, k_, ('V', canon(v)), 'get_cells')
            else:
                # the list call fails iff one of its cells fails, with that cell's exception
                r.ev()
                firsts = [ref_for(which, k_) for k_ in keys]
                failing = [f for f in firsts if f[0] == 'E']
                if not failing or failing[0][1] != o.exc_name:
                    report(r, ID, None, dict(case0, executor=which, api='get_cells', at_step=len(log)), o.brief(), firsts, monitor='repeatability')
        else:
            by_title = isinstance(entry[2], str)
            si = titles.index(entry[2]) if by_title else entry[2]
            o = pipeline.guarded(lambda: ex.get_sheet(titles[si] if by_title else si), 'evaluate')
            ov = ovA_now() if which == 'A' else ovB
            mr, mc = size(ov, si)
            r.count('sheet_grids_checked')
            if not o.ok:
                refs_ = [ref_for(which, (si, r_, c)) for r_ in range(1, mr + 1) for c in range(1, mc + 1)]
                failing = [f for f in refs_ if f[0] == 'E']
                r.ev()
                if not failing or failing[0][1] != o.exc_name:
                    report(r, ID, None, dict(case0, executor=which, api='get_sheet', sheet=si, at_step=len(log)), o.brief(),
                           'a grid (no cell of the sheet fails on its own)', monitor='sheet-grid')
                continue
            grid = o.value
            shape = (len(grid), len(grid[0]) if grid else 0)
            if shape != (mr, mc) or any(len(row) != mc for row in grid):
                report(r, ID, None, dict(case0, executor=which, api='get_sheet', sheet=si, at_step=len(log)), shape, (mr, mc), monitor='sheet-grid-shape')
                continue
            for ri, row in enumerate(grid):
                for ci, cell in enumerate(row):
                    pos = (getattr(cell, 'title', None), getattr(cell, 'row', None), getattr(cell, 'column', None))
                    if pos != (si, ri, ci):
                        report(r, ID, None, dict(case0, executor=which, api='get_sheet', sheet=si), pos, (si, ri, ci), monitor='sheet-grid-order')
                    check(which, (si, ri + 1, ci + 1), ('V', canon(cell.value)), 'get_sheet')
    if bi % 4 == 0:
        probe_malformed(ctx, exA, titles, case0)
    if bi % 3 == 0 and source is None:
        # the executor is given its class again: overrides, and the sizes that cover them, stay
        again = pipeline.guarded(lambda: exA.set_executed_class(class_object=exA.get_executed_class().__class__), 'evaluate')
        r.count('executed_class_set_again_before_the_size_check')
    # sizes reported after the schedule = sizes before it
    for which, ex, ov in (('A', exA, ovA_now()), ('B', exB, ovB)):
        for si in range(ns):
            o = pipeline.guarded(lambda: ex.get_sheet(si), 'evaluate')
            if o.ok:
                shape = (len(o.value), len(o.value[0]) if o.value else 0)
                r.ev()
                if shape != size(ov, si):
                    report(r, ID, None, dict(case0, executor=which, api='get_sheet-after', sheet=si, at_step=len(log)), shape, size(ov, si),
                           monitor='sizes-after-schedule')
    for key, apis in seen_by.items():
        if len(apis) >= 3 and len(set(apis)) >= 2 and ovA:
            r.nt((bi, key))
    r.seen('apis', 'get_cell/0..3,get_cells,get_sheet')
    if bi % 1000 == 0:
        r.sample({'titles': titles, 'formulas': list(info['formulas'].values())[:8], 'overridesA': case0['overridesA'][:4], 'schedule_head': log[:6]})


def semantic_book(rng, kind):
    """workbooks of the semantic checks (criteria, aggregates, rounding, text forms, branches, lookups): helpers that remember
    something on the instance or on the class between evaluations are exercised here, under schedules, on ONE executor"""
    from . import c11, c12, c14, c16, c17
    if kind == 'c11':
        return c11.make_book(rng)[0]
    if kind == 'c12':
        spec = c12.make_book(rng)[0]
        cells = spec['sheets'][0]['cells']
        # criteria that are ==-equal but of different kinds over a range holding both kinds
        cells.update({'M1': 1, 'M2': True, 'M3': '1', 'M4': 1.0, 'M5': 0, 'M6': False, 'M7': '0', 'M8': 2.5, 'N1': 10, 'N2': 100, 'N3': 1000, 'N4': 10000, 'N5': 1,
                      'N6': 2, 'N7': 3, 'N8': 4, 'O1': 1, 'O2': True, 'O3': 0, 'O4': False, 'O5': '1',
                      'P1': '=SUMIF(M1:M8,O1,N1:N8)', 'P2': '=SUMIF(M1:M8,O2,N1:N8)', 'P3': '=SUMIF(M1:M8,O3,N1:N8)', 'P4': '=SUMIF(M1:M8,O4,N1:N8)',
                      'P5': '=COUNTIFS(M1:M8,O5)', 'P6': '=COUNTIFS(M1:M8,1)', 'P7': '=COUNTIFS(M1:M8,TRUE)', 'P8': '=SUMIFS(N1:N8,M1:M8,0)',
                      'P9': '=SUMIFS(N1:N8,M1:M8,FALSE)', 'P10': '=AVERAGEIFS(N1:N8,M1:M8,1)', 'P11': '=AVERAGEIFS(N1:N8,M1:M8,TRUE)'})
        return spec
    if kind == 'c16':
        cells = {'A1': rng.choice([2.675, 1.005, 0.125, 2.5, -2.5, 1234.5678, 0.000045]), 'B1': rng.choice([0, 1, 2, 3]), 'A2': 2, 'A3': 2.0}
        for i, fn in enumerate(['ROUND', 'ROUNDUP', 'ROUNDDOWN']):
            cells[f'C{i + 1}'] = f'={fn}(A1,B1)'
            cells[f'D{i + 1}'] = f'={fn}(A1;B1)+0'
            cells[f'E{i + 1}'] = f'={fn}(A2/3,B1)'
            cells[f'F{i + 1}'] = f'={fn}(A3/3,B1)'
        cells['G1'] = '=A1%'
        cells['G2'] = '=(A1*100)%'
        return wbspec.spec(wbspec.sheet('S', cells))
    if kind == 'c17':
        cells = dict(c17.BASE)
        cells.update(c17.FORMS)
        cells.update({'I1': rng.choice([True, 1.0, False, 0.0, 1, 2.0]), 'I2': True, 'I3': 1.0, 'I4': False, 'I5': 0.0, 'K1': '=I2&I3&I4&I5', 'K2': '=I3&I2', 'K3': '=CONCATENATE(I5,I4,I3,I2)',
                      'K4': '=(2/2)&TRUE()', 'K5': '=TRUE()&(4/4)', 'K6': '=I1&"|"&I1'})
        return wbspec.spec(wbspec.sheet('S', cells))
    if kind == 'c14':
        keys, cells = c14.make_table(rng, rng.choice(['asc_int', 'asc_dup', 'mixed_int_float', 'with_blanks', 'text']))
        cells.update({'F1': keys[2] if keys[2] is not None else 1, 'G1': 2})
        cells.update(c14.FORMS)
        return wbspec.spec(wbspec.sheet('T', cells))
    if kind == 'mixed':
        from . import c20
        return wbspec.spec(wbspec.sheet('S1', dict(c20.MIXED)))
    if kind == 'nests':
        # typed random nests over the whole function set (vf/gen/exprs.py): results of one function arriving at another
        from ..gen import exprs
        g = exprs.Gen(rng)
        cells = dict(exprs.BLOCK)
        for i in range(40):
            cells[wbspec.a1(i + 1, 10)] = g.formula(rng.choice('NNNTTBD'), rng.choice([2, 3]))[0]
        return wbspec.spec(wbspec.sheet('S', cells))
    if kind == 'dates':
        import datetime as dt
        d0 = dt.datetime(2024, 1, 1)
        cells = {}
        for i in range(1, 9):
            cells[f'A{i}'] = d0 + dt.timedelta(days=rng.randrange(0, 40))
            cells[f'B{i}'] = d0 + dt.timedelta(days=rng.randrange(30, 90))
            cells[f'C{i}'] = d0 + dt.timedelta(days=rng.randrange(0, 90))           # holidays, several inside every span
        for i in range(1, 9):
            hol = rng.choice(['', ',C1:C8', ',C1:C3', ',C5:C8', f',C{i}:C{i}'])
            cells[f'E{i}'] = f'=NETWORKDAYS(A{i},B{i}{hol})'
            cells[f'F{i}'] = f'=DATEDIF(A{i},B{i},"{rng.choice(["D", "M", "Y", "YM"])}")'
            cells[f'G{i}'] = rng.choice([f'=EDATE(A{i},{rng.randrange(-3, 14)})', f'=EOMONTH(B{i},{rng.randrange(-2, 3)})', f'=YEAR(A{i})*100+MONTH(B{i})',
                                         f'=DATE(2024,{rng.randrange(-3, 15)},{rng.randrange(-5, 40)})', f'=DAY(C{i})'])
        return wbspec.spec(wbspec.sheet('D', cells))
    raise ValueError(kind)


SEM_KINDS = ['c11', 'c12', 'nests', 'c16', 'c17', 'c14', 'dates', 'mixed', 'nests', 'c12', 'dates']


def run_deepeval(ctx):
    """a running total down a column, whole-file translation, its last row asked through the three calls and from callers of different
    stack depth: one value from all of them (200 rows), or - the recorded finding for chains of several hundred rows - RecursionError
    from those whose stack is too short (every dependency level is two to four Python frames and nothing else bounds the depth).  A
    VALUE that differs between the calls is never the finding."""
    from excel2pycl import Cell, Executor
    r = ctx.r
    for n in ((200, 560) if ctx.tier == 'quick' else (100, 200, 300, 420, 560, 700)):
        cells = {'B1': '=A1'}
        for i in range(1, n + 1):
            cells[f'A{i}'] = 1
        for i in range(2, n + 1):
            cells[f'B{i}'] = f'=B{i - 1}+A{i}'
        spec = wbspec.spec(wbspec.sheet('S', cells))
        book = pipeline.Book(spec, ctx.workdir, name=f'deepeval{n}')
        r.count('deep_evaluation_chains')
        case = {'spec': {'chain_rows': n, 'formula': 'Bn = B(n-1)+An'}, 'cell': f'B{n}'}
        if book.cls is None:
            report(r, ID, None, case, book.whole.brief(), 'a loadable class', monitor='translate')
            continue
        ex = Executor().set_executed_class(class_object=book.cls)

        def deeper(fn, k):
            return deeper(fn, k - 1) if k else fn()
        calls = {'get_cell': lambda: ex.get_cell(Cell(0, 1, n - 1)).value, 'get_cells': lambda: ex.get_cells([Cell(0, 0, 0), Cell(0, 1, n - 1)])[1].value,
                 'get_sheet': lambda: ex.get_sheet(0)[n - 1][1].value, 'get_cell+100 frames': lambda: deeper(lambda: ex.get_cell(Cell('S', 'B', str(n))).value, 100),
                 'get_cell+300 frames': lambda: deeper(lambda: ex.get_cell(Cell(0, 1, n - 1)).value, 300)}
        outs = {k: pipeline.guarded(f, 'evaluate') for k, f in calls.items()}
        r.ev(len(outs))
        r.nt(('deepeval', n))
        values = {k: o.value for k, o in outs.items() if o.ok}
        failures = {k: o for k, o in outs.items() if not o.ok}
        if any(v != n or type(v) is not int for v in values.values()):
            report(r, ID, None, case, {k: o.brief() for k, o in outs.items()}, n, monitor='apis-agree')
        elif failures:
            only_recursion = all(o.exc_name == 'RecursionError' for o in failures.values())
            report(r, ID, 'KF-C08-deep-chain-evaluation-recursionerror' if (only_recursion and n >= 400) else None, case,
                   {k: o.brief() for k, o in outs.items()}, f'{n} from every call', monitor='apis-agree')
    r.sample({'deep_evaluation': 'Bn = B(n-1)+An over 200 / 560 rows through get_cell, get_cells, get_sheet, +100 and +300 caller frames'})


def run_classfile(ctx):
    """one class file under several names.  A service keeps the generated class under a fixed real path and publishes new versions
    through another name of the same file (a symbolic link in a "current" directory, a second hard link, a relative spelling, a path with
    ".." in it).  After write_translation through ANY of these names every name loads the same - new - class: the values queried do not
    depend on the spelling of the path, and the names are still what they were (the link a link, the hard links one inode)."""
    from excel2pycl import Parser
    r, rng = ctx.r, ctx.rng
    for trial in range(6):
        d = os.path.join(ctx.workdir, f'cf{trial}')
        os.makedirs(os.path.join(d, 'real'), exist_ok=True)
        os.makedirs(os.path.join(d, 'current'), exist_ok=True)
        real = os.path.join(d, 'real', 'model.py')
        link = os.path.join(d, 'current', 'model.py')
        hard = os.path.join(d, 'real', 'model_v.py')
        dotted = os.path.join(d, 'current', '..', 'real', 'model.py')
        books_ = []
        for v in range(3):
            base = rng.randrange(10, 99) * 100 * (v + 1)
            cells = {'A1': base, 'A2': base + v + 1, 'B1': '=A1+A2', 'B2': '=SUM(A1:A2)*2', 'C1': f'="v{v}"&A1'}
            spec = wbspec.spec(wbspec.sheet('Main', cells))
            path = wbspec.write(spec, os.path.join(d, f'w{v}.xlsx'))
            books_.append((path, {(1, 1): base, (2, 1): base + v + 1, (1, 2): 2 * base + v + 1, (2, 2): (2 * base + v + 1) * 2, (1, 3): f'v{v}{base}'}))
        o = pipeline.guarded(lambda: Parser().set_excel_file_path(books_[0][0]).write_translation(real), 'translate')
        if not o.ok:
            r.count('classfile_first_write_failed')
            continue
        os.symlink(os.path.join('..', 'real', 'model.py'), link)
        os.link(real, hard)
        import pathlib
        names = {'real': real, 'symlink': link, 'hardlink': hard, 'dotted': dotted, 'relative': os.path.join('real', 'model.py'),
                 'pathlib': pathlib.Path(real), 'pathlib-relative': pathlib.Path('current') / 'model.py'}
        through = ['symlink', 'hardlink', 'relative', 'dotted', 'real', 'pathlib'][trial % 6]
        for v in (1, 2):
            wpath, want = books_[v]
            cwd = os.getcwd()
            try:
                os.chdir(d)
                w = pipeline.guarded(lambda: Parser().set_excel_file_path(pathlib.Path(wpath) if v == 2 else wpath).write_translation(names[through]), 'translate')
            finally:
                os.chdir(cwd)
            r.ev()
            r.count('classfile_writes_through:' + through)
            case = {'what': 'class file with several names', 'written_through': through, 'version': v, 'trial': trial}
            if not w.ok:
                report(r, ID, None, case, w.brief(), 'the class file written', monitor='classfile-names')
                continue
            if not os.path.islink(link):
                report(r, ID, None, case, 'the symbolic link was replaced by something else', 'the link still a link', monitor='classfile-names')
            if os.stat(real).st_ino != os.stat(hard).st_ino:
                report(r, ID, None, case, 'the two hard links name two files now', 'one file with two names', monitor='classfile-names')
            for nm, pth in names.items():
                cwd = os.getcwd()
                try:
                    os.chdir(d)
                    ex = pipeline.guarded(lambda: pipeline.Executor().set_executed_class(class_file=pth), 'load_file')
                    got = {}
                    if ex.ok:
                        for (rr, cc) in want:
                            q = pipeline.guarded(lambda: ex.value.get_cell(pipeline.ncell(0, rr, cc)).value, 'query')
                            got[(rr, cc)] = q.value if q.ok else q.brief()
                finally:
                    os.chdir(cwd)
                r.ev()
                r.nt(('classfile', trial, v, through, nm))
                if not ex.ok or got != want:
                    report(r, ID, None, dict(case, loaded_through=nm), ex.brief() if not ex.ok else {wbspec.a1(rw, c): g for (rw, c), g in got.items()},
                           {wbspec.a1(rw, c): g for (rw, c), g in want.items()}, monitor='classfile-names')
    r.sample({'classfile': 'real path / symbolic link / hard link / relative / dotted spelling of one class file; three versions written through one name, loaded through all'})


def plan(tier, seed):
    n = 160 if tier == 'quick' else 1920
    sh = [{'n': n // 16, 'k': k, 'calls': 60 if tier == 'quick' else 200} for k in range(16)]
    m = 72 if tier == 'quick' else 960
    sh += [{'n': m // 8, 'k': 100 + k, 'calls': 80 if tier == 'quick' else 250, 'semantic': True} for k in range(8)]
    sh.append({'deepeval': 1, 'n': 0, 'k': 0})
    sh.append({'classfile': 1, 'n': 0, 'k': 0})
    return sh


def run_shard(shard, ctx):
    r = ctx.r
    boundary.install(r)
    if 'replay' in shard and shard['replay'].get('what') == 'class file with several names':
        return run_classfile(ctx)
    if 'replay' in shard:
        # schedules are regenerated from the seed: replay = re-run the recorded book under a fresh random schedule
        boundary.reset()
        run_book(ctx, 0, 0, replay=shard['replay'])
        for d in boundary.disagreements()[:3]:
            r.violation('contract:' + d['contract'], shard['replay'], d['detail'], 'query leaves overrides and sizes unchanged')
        return
    if 'deepeval' in shard:
        return run_deepeval(ctx)
    if 'classfile' in shard:
        return run_classfile(ctx)
    for i in range(shard['n']):
        boundary.reset()
        kind_ = SEM_KINDS[(i + shard['k'] * 4) % len(SEM_KINDS)]
        src = semantic_book(ctx.rng, kind_) if shard.get('semantic') else None
        if src is not None:
            r.count('semantic_books:' + kind_)
        run_book(ctx, shard['k'] * 1000 + i, shard['calls'], source=src)
        for d in boundary.disagreements()[:3]:
            r.violation('contract:' + d['contract'], dict(LAST_CASE), d['detail'], 'query leaves overrides and sizes unchanged')


def finish(r, tier, seed):
    return {'boundary_calls': {k: v for k, v in r.counters.items() if k.startswith('boundary:')}}
