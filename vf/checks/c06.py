"""C06 - translation is total: a loadable Python class or a library exception.

Adversarial workbooks are pushed through the real Parser while monitors classify what happens per phase:
  translate  : text | E2PyclException | FOREIGN exception (violation)            + logical step budget (sys.monitoring)
  compile    : the returned text compiles and its module loads                    (SyntaxError/NameError = violation)
  class      : get_titles / get_sheets_size equal the workbook; every translated non-blank cell has a member that the
               evaluation actually dispatches to (L1 trace 'method', never 'miss') and that terminates without a
               STRUCTURAL failure (SyntaxError, NameError, RecursionError, missing helper, wrong helper arity);
               data-dependent Excel errors (ZeroDivisionError, TypeError on operand kinds, ...) are other properties' business
  file/object: the written file holds exactly the returned text; loading it through Executor(class_file=) and using the
               class object give the same observation for every planted cell
"never hangs" is restated as bounded progress: every translation finishes within STEP_BUDGET Python function entries
(linear translations of <=600-character formulas use 10^3..10^5); wall-clock time is only the shard watchdog."""
import datetime as dt
import os
import sys
import re

import openpyxl
from openpyxl.worksheet.formula import ArrayFormula

from .. import pipeline, wbspec
from ..findings import report
from ..gen import books
from ..instr.interp import StepBudget, StepBudgetExceeded
from ..instr.runtime import RuntimeMonitor
from ..instr.translate import TranslateMonitor
from . import c05

ID = 'C06'
LEVEL = 'exploration'
STEP_BUDGET = 2_000_000
PER_CELL = 2_000        # extra steps earned per cell registered in the context (areas are translated cell by cell)
RULE = ('(a) formula texts: random token soups over the library\'s own lexicon (functions, brackets, separators, operators, '
        'references in every spelling, lower-case and unknown names, unknown sheets, literals, quotes, %, :, !, $), every '
        'prefix/suffix splice of valid formulas, C05-style token mutants, a fixed list of degenerate texts (=, ==, =(), =-, ="...), '
        'nesting probes (parentheses / IF / SUM / IFERROR / mixed, depth 1..64), towers of 70..215 levels at top level and inside the arguments '
        'of 26 functions/operators (members of their own), operator chains up to 400 operands, each '
        'translated on its own through the entry-point API under a step budget; (b) whole-file translation of generated '
        'workbooks (layered valid formulas incl. raising ones, every constant type openpyxl delivers: int, big int, float, bool, '
        'text with quotes/newlines/backslashes/braces/percent/5000 characters, date, datetime, time, timedelta, error text, '
        'array formula) under unusual sheet titles (quotes, braces, percent, Cyrillic, blanks, 31 characters), members called, '
        'file vs class-object compared. Non-trivial: a text that is not a valid formula of the reference grammar, or a nesting '
        'depth >= 4, or a workbook with a non-ASCII/quoted title or a non-numeric constant; distinct by text / workbook')
ASSUMPTIONS = ['a workbook written by openpyxl stands for "readable workbook"',
               'structural member failures = SyntaxError, NameError, RecursionError, AttributeError on the generated instance, TypeError '
               'about the number of positional arguments; every other exception of a member is data-dependent and not judged here',
               f'bounded progress: {STEP_BUDGET} PY_START events per translation + {PER_CELL} per cell the translation registers']
FLOORS = {'quick': {'evaluations': 6000, 'nontrivial': 3000, 'counters': {'translations_under_budget': 4000, 'members_called': 3000, 'file_vs_object': 500, 'two_executor_sessions': 30, 'scaling_pairs_timed': 6}},
          'thorough': {'evaluations': 150000, 'nontrivial': 60000, 'counters': {'translations_under_budget': 100000, 'members_called': 60000, 'file_vs_object': 10000}}}

LEX = (list(c05.ARITY) + ['FOO', 'sum', 'If', 'TEXT', 'NOW', 'PI'])
ATOMS = ['1', '2.5', '1e3', '1E3', '1e30007', '7.5e310', '.5', '1.', '0', '007', '"x"', '""', '"a""b"', '"it\'s"', '"a\\"', '"{0}"', '"%s"', '"*a?"', '"~*"', 'TRUE', 'FALSE', 'TRUE()',
         'A1', '$A$1', 'A$1', 'a1', 'AA10', 'XFD1048576', 'XFE1', 'A0', 'A1:B2', 'A:A', 'A:C', '1:1', 'A1:A', 'B2:A1', 'S2!A1', "'S2'!A1", "'my sheet'!B2",
         'Nope!A1', "'No pe'!A1:B2", 'S2!A:A', '!A1', "''!A1", 'S2!', "'S2'", '#REF!', '#N/A', 'A1.B2', 'R1C1', '_x', 'x']
PUNCT = ['(', ')', ',', ';', '+', '-', '*', '/', '&', '=', '<>', '<', '>', '<=', '>=', '%', ':', '!', '$', "'", '"', ' ', '\n', '\t', '^', '~', '{', '}', '[', ']', '@', '#', '\\', '.']

DEGENERATE = ['=', '==', '=()', '=(', '=)', '=-', '=+', '=%', '=""', '="', "='", '=A', '=1:', '=A1:', '=:A1', '=$', '=A$', '=!A1', "=''!A1", '=TRUE(', '=1e', '=1e-',
              '=1.', '=.5', '=1..2', '=1,2', '=A1 A2', '=((((((1))))))', '=-(-(-1))', '=1++2', '=1--2', '=1+-+-2', '=SUM()', '=SUM(,)', '=SUM(1,)', '=IF(,,)',
              '=IF()', '=IF(1)', '=IFS()', '=IFS(1)', '=SUM', '=SUM(', '=SUM)', '=SUM(A1', '=SUM A1)', '=(SUM)(1)', '=SUM((1,2))', '=SUM(A1:B2 B2:C3)', '=A1:B2:C3',
              '=1%%', '=%1', '=1%2', '=(1)(2)', '=1(2)', '="a"1', '=1"a"', '="a""', '=""""', '=&', '=A1&', '=&A1', '=<>', '=A1<>', '=1<2<3', '=1=1=1',
              '= 1', '=\n1', '=1\n', '=1 ', '=\t', '= ', '=COLUMN(1)', '=COLUMN("a")', '=COLUMN(XFE1)', '=COLUMN(SUMB3)', '=COLUMN(ZZZZ1)', '=COLUMN(Nope!B3)', "=COLUMN('No pe'!$B$3)", '=COLUMN(XFE1:XFF2)', '=SUM(COLUMN(SUMB3),1)', '=COLUMN(A1:B2:C3)', '=COUNT(-1)', '=COUNT((1))', '=COUNT()', '=XMATCH(1,A1:A3)',
              '=MATCH(1,A1:A3)', '=INDEX(A1:B2)', '=INDEX(A1:B2,)', '=VLOOKUP(1,A1:B2)', '=ADDRESS(1)', '=DATE(1,2)', '=TODAY(1)', '=LEFT()', '=MID("a",1)',
              '=SEARCH("a")', '=SUMIF(A1:A3)', '=SUMIF(A1:A3,)', '=SUMIFS(A1:A3,A1:A3)', '=COUNTIFS(A1:A3)', '=AVERAGEIFS(A1:A3)', '=NETWORKDAYS(A1)',
              '=DATEDIF(A1,A2)', '=ROUND(1)', '=IFERROR(1)', '=IFERROR(,)', '=SUM(1;2,3)', '=SUM(1,,2)', '=IF(1>0;2,3)', '=TRUEA1', '=FALSE1', '=TRUE1',
              "='S2'!A1:'S2'!B2", '=S2!A1:S2!B2', '=S2!A1:B2', "='S2'A1", "=S2'!A1", '=A1!B2', '=1!A1', '=-A1:A3', '=A1:A3%', '=A1:A3+1', '=(A1:A3)', '=SUM((A1:A3))',
              '=SUM(A1:A3)(1)', '=1e400', '=1e-400', '=1e30007', '=1.5e400', '=2e308', '=1e309', '=9.9e999', '=99999999999999999999', '=0.' + '1' * 400, '="' + 'x' * 5000 + '"',
              # literals with more digits than int() is willing to read (mantissa, fraction, exponent), wildcard texts without their closing quote
              '=' + '9' * 4301, '=' + '1' * 5000 + '+1', '=0.' + '3' * 4400, '=1e' + '9' * 5000, '=1.5e-' + '9' * 4400, '=SUM(1,' + '7' * 4305 + ')',
              '="' + '*' * 300, '="' + '?*' * 150, '=COUNTIFS(A1:A3,"' + '*' * 200 + ')', '="~*' + '*?' * 100, '=A' * 50, '=' + '-' * 60 + '1',
              '=' + '(' * 80, '=' + ')' * 80, '=' + '"' * 7, '=SUM(' * 30, '=' + 'IF(' * 20 + '1' + ',2,3)' * 19]


# areas spelled in an unusual corner order or anchoring, in every argument position that takes an area
ODD_AREAS = ['C1:A1', 'A3:A1', 'C3:A1', 'A3:C1', 'C1:A3', 'C:A', 'B:A', '$C$1:$A$1', 'C$3:$A1', 'A1:A1', 'B2:A1', 'S2!C1:A1', "'S2'!B:A", 'B1:A2', 'E5:D4', 'AA1:Z1', 'AB:AA']
AREA_USES = ['SUM({a})', 'SUMIF({a},">0")', 'SUMIF({a},">0",{b})', 'SUMIF({b},">0",{a})', 'SUMIFS({a},{b},1)', 'SUMIFS({b},{a},1)', 'COUNTIFS({a},1)', 'COUNTIFS({a},1,{b},2)',
             'AVERAGEIFS({a},{b},">0")', 'AVERAGEIFS({b},{a},">0")', 'COUNTIF({a},1)', 'VLOOKUP(1,{a},2,FALSE)', 'VLOOKUP(1,{a},1)', 'INDEX({a},1,1)', 'INDEX({a},0,1)',
             'MATCH(1,{a},0)', 'XMATCH(1,{a})', 'MAX({a})', 'MIN({a},{b})', 'AVERAGE({a})', 'COUNT({a})', 'COUNTBLANK({a})', 'COLUMN({a})', 'AND({a})', 'OR({a})',
             'IFERROR({a},0)', 'SUM(IFERROR({a},0))', 'CONCATENATE({a})', 'NETWORKDAYS(A1,A2,{a})', 'SUM({a},{b})', '{a}', 'SUM({a})+SUM({b})', 'IF(1,SUM({a}),SUM({b}))']
ODD_AREA_FORMULAS = ['=' + u.format(a=a, b=b) for u in AREA_USES for a in ODD_AREAS for b in ('A2:C2', 'A:C', 'C2:A2', a)]


# every argument position of every supported function takes, in turn, an argument of every kind (the other positions keep an ordinary one)
ARG_KINDS = ['1', '-2.5', '0', '"x"', '""', 'TRUE', 'A1', 'Z99', 'A1:C1', 'A3:A5', 'A3:B5', 'A:A', 'A:B', 'S2!A1', 'S2!A1:B2', "'my sheet'!B:B", '$A$1', '$A$1:$B$2', 'A1%',
             '-A1', '(A1)', '1/0', 'SUM(A1:C1)', 'IF(A1>1,A1:C1,B1)', 'DATE(2024,1,2)', '"#N/A"', 'A1:A1', '""&A2', 'A1=1', 'TODAY()', 'INDEX(A3:B5,0,1)', 'IFERROR(A3:A5,0)',
             '1e308*10', '"2024-01-15"', '">"&A1', '"a*"', 'A2', 'J8', 'XFD1', 'A1048576', 'A1:XFD1', '-"5"', '(A3:A5)', 'A3:A5&"x"',
             # functions without arguments and functions whose code is not text-like inside the translator
             'COLUMN()', 'COLUMN(B1)', 'TRUE()', 'FALSE()', 'COLUMN(A1:C1)', 'ADDRESS(1,1)', 'COUNTBLANK(A1:C1)', 'ROUNDUP(A1)', 'LEFT(A2)']


def arg_sweep():
    out = []
    for fn, (counts, args) in c05.ARITY.items():
        for n in sorted({min(c for c in counts if c > 0) if any(c > 0 for c in counts) else 0, max(c for c in counts if c <= len(args))}):
            if n == 0:
                continue
            base = list(args[:n])
            for i in range(n):
                for kind in ARG_KINDS:
                    a = list(base)
                    a[i] = kind
                    out.append(f'={fn}({",".join(a)})')
    return list(dict.fromkeys(out))


def soup(rng):
    n = rng.randrange(1, 10)
    parts = []
    for _ in range(n):
        k = rng.random()
        if k < 0.3:
            parts.append(rng.choice(LEX) + ('(' if rng.random() < 0.8 else ''))
        elif k < 0.65:
            parts.append(rng.choice(ATOMS))
        else:
            parts.append(rng.choice(PUNCT))
    return '=' + ''.join(parts)


def splices(rng, n):
    fs = c05.FUNC_FORMULAS
    out = []
    for _ in range(n):
        a, b = rng.choice(fs), rng.choice(fs)
        ta, tb = c05.split(a), c05.split(b)
        k = rng.random()
        if k < 0.4:
            out.append('=' + ''.join(ta[:rng.randrange(0, len(ta) + 1)]))
        elif k < 0.6:
            out.append('=' + ''.join(ta[rng.randrange(0, len(ta) + 1):]))
        else:
            out.append('=' + ''.join(ta[:rng.randrange(0, len(ta) + 1)] + tb[rng.randrange(0, len(tb) + 1):]))
    return out


def nest(kind, d):
    f = 'A1'
    for i in range(d):
        if kind == 'PAR':
            f = f'({f}+1)'
        elif kind == 'IF':
            f = f'IF(A1>{i},{f},0)'
        elif kind == 'IF2':
            f = f'IF(A1>{i},{f})'
        elif kind == 'SUM':
            f = f'SUM({f},2)'
        elif kind == 'IFERROR':
            f = f'IFERROR({f}/1,0)'
        elif kind == 'ROUND':
            f = f'ROUND({f},2)'
        elif kind == 'NEG':
            f = f'-({f})'
        elif kind == 'MIX':
            f = [f'IF({f}>0,{f},1)', f'SUM({f},MAX({f},1))', f'({f})*2', f'IFERROR({f},{f})'][i % 4] if d <= 12 else f'({f}+1)'
        elif kind == 'LEFTIF':
            f = f'IF(IF(A1>0,{f},0)>0,1,0)'
    return '=' + f


def chain(op, n):
    return '=' + op.join(['A1'] * n)


BASEC = dict(c05.BASEC)


# ---- one formula per translation ----------------------------------------------------------------------
def structural(exc):
    """member failure that shows broken generated code rather than an Excel error of the data"""
    n = type(exc).__name__
    msg = str(exc)
    if n in ('SyntaxError', 'NameError', 'RecursionError', 'IndentationError', 'UnboundLocalError', 'StepBudgetExceeded'):
        return True
    if n == 'AttributeError' and "'ExcelInPython' object has no attribute" in msg:
        return True
    if n == 'TypeError' and re.search(r'(takes \d+ positional arguments? but|missing \d+ required positional|unexpected keyword|got multiple values)', msg):
        return True
    return False


def _col(letters):
    try:
        return wbspec.column_index_from_string(letters.upper())
    except ValueError:
        return 0


def judge_formulas(ctx, items, tag):
    """items: [(text, how)] - each becomes the entry cell of its own translation"""
    r = ctx.r
    tmon = TranslateMonitor.install(r)
    per = 40
    for off in range(0, len(items), per):
        batch = items[off:off + per]
        cells = dict(BASEC)
        addrs = []
        for i, (text, how) in enumerate(batch):
            a = f'J{i + 8}'
            cells[a] = text
            addrs.append(a)
        spec = wbspec.spec(wbspec.sheet('S1', cells), wbspec.sheet('S2', {'A1': 4, 'B2': 'z'}), wbspec.sheet('my sheet', {'B2': 9}))
        path = wbspec.write(spec, os.path.join(ctx.workdir, f'{tag}{off}.xlsx'))
        for a, (text, how) in zip(addrs, batch):
            case = {'text': text, 'how': how}
            rr, cc = wbspec.rc(a)
            tmon.drain()
            try:
                base_cells = tmon.cells_set
                # linear work is no hang: the budget earns steps per cell the translation registers and per COLUMN a whole-column span
                # of the text names (T:RUE - a mutant of TRUE - is 12 000 columns, each looked at once although none holds a cell)
                span = sum(abs(_col(m_.group(2)) - _col(m_.group(1))) + 1
                           for m_ in re.finditer(r'(?<![A-Za-z0-9])\$?([A-Za-z]{1,3}):\$?([A-Za-z]{1,3})(?![A-Za-z0-9(])', text)
                           if max(len(m_.group(1)), len(m_.group(2))) <= 3 and all(1 <= _col(x) <= 18278 for x in m_.groups()))
                with StepBudget(STEP_BUDGET, lambda: PER_CELL * (tmon.cells_set - base_cells) + 400 * span) as sb:
                    t = pipeline.translate(path, entry=pipeline.entry_cell('S1', a))
            except StepBudgetExceeded as e:
                r.ev()
                report(r, ID, None, case, {'steps': str(e)}, f'translation within {STEP_BUDGET} steps', monitor='step-budget')
                continue
            r.ev()
            r.count('translations_under_budget')
            r.seen('max_steps', f'{max([sb.steps] + [int(x) for x in r.sets.get("max_steps", ())]):09d}') if sb.steps > max([0] + [int(x) for x in r.sets.get('max_steps', ())]) else None
            if how.startswith('nest:') or how.startswith('chain:'):
                r.seen('steps_by_probe', f'{how}={sb.steps}')
            r.count('outcome:' + t.kind + ('' if t.ok else ':translate'))
            if t.kind == pipeline.FOREIGN_EXC:
                report(r, ID, classify(text, t), case, t.brief(), 'text or an E2PyclException', monitor='translate-foreign-exception')
                r.nt(text)
                continue
            if not t.ok:
                r.seen('library_exceptions', t.exc_name)
                r.nt(text)
                rep = pipeline.refusal_repeatable(t)
                r.count('refusals_asked_again')
                if rep:
                    report(r, ID, None, case, rep, 'a library exception again (not None, a stale class or a foreign exception)', monitor='refusal-not-repeatable')
                continue
            if not isinstance(t.value, str):
                report(r, ID, None, case, type(t.value).__name__, 'source text', monitor='translate-returns-text')
                continue
            ld = pipeline.load_text(t.value)
            if not ld.ok:
                report(r, ID, classify(text, ld), case, ld.brief(), 'the returned text compiles and loads', monitor='load')
                continue
            mon = RuntimeMonitor(r, trace=True)
            mon.install(ld.value)
            try:
                with StepBudget(STEP_BUDGET):
                    out = pipeline.query(ld.value, 0, rr, cc)
            except StepBudgetExceeded as e:
                report(r, ID, None, case, {'steps': str(e)}, 'member terminates', monitor='member-step-budget')
                continue
            r.count('members_called')
            r.count('member_outcome:' + ('value' if out.ok else out.exc_name))
            if mon.trace and mon.trace[0][1] == 'miss':
                report(r, ID, None, case, 'no member for the entry cell', 'one evaluable member per translated cell', monitor='member-missing')
            if not out.ok and structural(out.exc):
                report(r, ID, classify(text, out), case, out.brief(), 'an evaluable member (Excel errors of the data allowed)', monitor='member-structural')
            if how != 'valid':
                r.nt(text)


def classify(text, out):
    return None


# ---- whole workbooks ----------------------------------------------------------------------------------
HOSTILE_TITLES = ["it's", 'say "hi"', 'a{0}b', '{x}', '%s %d', 'Лист1', 'my sheet', '2024', 'a.b', 'T-1', 'x' * 31, ' lead', 'trail ', 'a,b;c', '(p)', 'A1', 'SUM',
                  'TRUE', "'q'", 'x=y', 'a+b', 'a&b', 'tab\tx', '#N/A', '$A$1', 'ñandú', '日本', 'a~b', 'a|b', 'class', 'self', 'None']
HOSTILE_CONSTS = ["\U0001F680 rocket", "\U0001D518\U00020000", "e\u0301", "\ufeffbom", "a\u2028b", "{titles}", "{sheets_size}", "{functions}", "{0}{1}", "it's", 'say "hi"', 'back\\slash', 'trail\\', 'line\nbreak', 'cr\r\nlf', 'tab\t', '{0}', '{', '}', '{{}}', '%s', '%(x)s', "'''", '"""', "'; import os; '",
                  '\\n', '\\x41', '\\', 'x' * 5000, 'ünï', ' sep', '\x7f', '#N/A', '#REF!', '#DIV/0!', '00', '1e5', 'TRUE', "=", "'=1+1", ' ', 'None', 'self._x',
                  0, -0.0, 1, -1, 2 ** 31, 2 ** 53 + 1, 2 ** 63, 10 ** 20, 1e308, 5e-324, 0.1, -2.5, 1e-7, 123456789.123456789, True, False,
                  dt.datetime(1900, 1, 1), dt.datetime(9999, 12, 31, 23, 59, 59), dt.datetime(2024, 2, 29, 12, 0, 0, 500000), dt.date(2000, 1, 1), dt.time(0, 0), dt.time(23, 59, 59),
                  dt.timedelta(hours=5), dt.timedelta(days=2, seconds=3), dt.timedelta(0)]


CODING_TITLES = ['Barcoding=EAN13', 'coding=latin-1', 'Encoding=Latin1 export', 'coding=utf-16', '-- coding=cp1251 --', 'fileencoding=koi8-r']


def valid_title(t):
    return 0 < len(t) <= 31 and not re.search(r'[\\*?:/\[\]]', t)


_PREV_TEXT = []


def whole_book(ctx, bi):
    r, rng = ctx.r, ctx.rng
    spec, info = books.gen(rng, formulas_per_sheet=rng.randrange(4, 10))
    # rename sheets to hostile titles, fixing the quoted references that name them
    old = list(info['titles'])
    new = rng.sample([t for t in HOSTILE_TITLES if valid_title(t)], len(old))
    if rng.random() < 0.4:
        # a title that reads like a source-encoding declaration (PEP 263 looks for "coding=" in any comment of the first two lines of a FILE)
        new[rng.randrange(len(new))] = rng.choice(CODING_TITLES)
        r.count('books_with_encoding_declaration_titles')
    unref = [t for t in new if "'" in t or '!' in t]       # no spelling in the grammar: such a sheet is simply never referenced
    ren = {}
    for o, n in zip(old, new):
        ren[o] = n
    for sh in spec['sheets']:
        for a, v in list(sh['cells'].items()):
            if isinstance(v, str) and v.startswith('='):
                for o, n in ren.items():
                    if f"'{o}'!" in v:
                        v = v.replace(f"'{o}'!", f"'{n}'!" if n not in unref else '')
                sh['cells'][a] = v
        sh['title'] = ren[sh['title']]
    titles = [s['title'] for s in spec['sheets']]
    # hostile constants in free cells (columns L..N)
    planted = {}
    for si, sh in enumerate(spec['sheets']):
        for k in range(rng.randrange(2, 7)):
            a = wbspec.a1(k + 1, 12 + rng.randrange(3))
            v = rng.choice(HOSTILE_CONSTS)
            sh['cells'][a] = wbspec.enc(v)
            planted[(si, a)] = v
        if rng.random() < 0.3:
            a = 'P1'
            sh['cells'][a] = wbspec.enc(ArrayFormula('P1', '=1+2'))
        if rng.random() < 0.3:
            sh['cells']['P2'] = "=L1&\"-\"&M1"
    # a worksheet that never had a cell written (Excel's spare sheet), first / in the middle / last
    if rng.random() < 0.3:
        pos = rng.randrange(0, len(spec['sheets']) + 1)
        spec['sheets'].insert(pos, wbspec.sheet(rng.choice(['Spare', 'Sheet3', 'empty one']), {}))
        titles = [s['title'] for s in spec['sheets']]
        planted = {((si + 1 if si >= pos else si), a): v for (si, a), v in planted.items()}
        r.count('books_with_empty_worksheet')
    name = f'w{bi}'
    path = wbspec.write(spec, os.path.join(ctx.workdir, name + '.xlsx'))
    case = {'book': name, 'spec': spec}
    try:
        tmon = TranslateMonitor.install(r)
        base_cells = tmon.cells_set
        with StepBudget(STEP_BUDGET, lambda: PER_CELL * (tmon.cells_set - base_cells)) as sb:
            p = pipeline.make_parser(path)
            t = pipeline.guarded(lambda: p.get_translation(), 'translate')
    except StepBudgetExceeded as e:
        report(r, ID, None, case, {'steps': str(e)}, 'translation within the step budget', monitor='step-budget')
        return
    r.ev()
    r.count('translations_under_budget')
    r.count('whole_outcome:' + t.kind)
    nontriv = any(not t_.isascii() or "'" in t_ or '"' in t_ or '{' in t_ for t_ in titles) or bool(planted)
    if nontriv:
        r.nt(('book', name, ctx.shard_index))
    if t.kind == pipeline.FOREIGN_EXC:
        report(r, ID, None, case, t.brief(), 'text or an E2PyclException', monitor='translate-foreign-exception')
        return
    if not t.ok:
        r.seen('library_exceptions', t.exc_name)
        r.seen('whole_rejected_reason', str(t.exc)[:80])
        return
    text = t.value
    ld = pipeline.load_text(text)
    if not ld.ok:
        report(r, ID, None, case, ld.brief(), 'the returned text compiles and loads', monitor='load')
        return
    cls = ld.value
    # file: bytes = text; loading through the Executor
    # every book writes a file of the SAME name into a directory of its own, every second one through a path relative to the current
    # directory: a loader that remembers modules by file name, or a writer that resolves the path differently, mixes the books up
    os.makedirs(os.path.join(ctx.workdir, name + '_d'), exist_ok=True)
    # ... under any file name: a class file is a text file with Python in it, whatever its name ends in
    fname = ['excel_in_python.py', 'excel_in_python.py', 'translated_class', 'model.txt', 'my model.py', 'модель.py', 'class.v2.py', 'excel_in_python.PY'][bi % 8]
    if not fname.isascii() and sys.getfilesystemencoding().lower() not in ('utf-8', 'utf8'):
        fname = 'excel_in_python.py'      # the interpreter itself cannot name such a file (ASCII locale shard): not the library's business
    r.count('class_file_name:' + ('.py' if fname.endswith('.py') else 'other suffix'))
    fpath = os.path.join(ctx.workdir, name + '_d', fname)
    if bi % 2:
        fpath = os.path.relpath(fpath)
        r.count('class_files_by_relative_path')
    if bi % 3 != 1:
        # the path already holds a LONGER text (the class of the book before it and more): what is there afterwards is the new class only
        with open(fpath, 'w', encoding='utf-8', newline='') as f0:
            f0.write((_PREV_TEXT[0] if _PREV_TEXT else 'class ExcelInPython:\n    pass\n') + '\n' + 'leftover_of_an_earlier_translation = (\n' * 3 + '# filler\n' * 60000)
        r.count('class_files_written_over_a_longer_file')
    w = pipeline.guarded(lambda: p.write_translation(fpath), 'translate')
    if not w.ok:
        report(r, ID, None, case, w.brief(), 'write_translation succeeds after get_translation did', monitor='write')
        return
    with open(fpath, encoding='utf-8', newline='') as f:
        ftext = f.read()
    if ftext != text:
        report(r, ID, None, case, {'file_len': len(ftext), 'text_len': len(text)}, 'file holds the returned text', monitor='file-equals-text')
    del _PREV_TEXT[:]
    _PREV_TEXT.append(text)
    exf = pipeline.guarded(lambda: pipeline.Executor().set_executed_class(class_file=fpath), 'load_file')
    if not exf.ok:
        report(r, ID, None, case, exf.brief(), 'the written file loads', monitor='load-file')
        return
    exo = pipeline.Executor().set_executed_class(class_object=cls)
    # titles / sizes
    wb = openpyxl.load_workbook(path)
    exp_titles = {ws.title: i for i, ws in enumerate(wb.worksheets)}
    exp_sizes = []
    for ws in wb.worksheets:
        coords = [(c.row, c.column) for row in ws.iter_rows() for c in row if c.value is not None]
        exp_sizes.append({'last_column': max([c[1] for c in coords], default=0), 'last_row': max([c[0] for c in coords], default=0)})
    wb.close()
    inst = cls()
    gt, gs = pipeline.guarded(lambda: dict(inst.get_titles()), 'evaluate'), pipeline.guarded(lambda: [dict(x) for x in inst.get_sheets_size()], 'evaluate')
    r.ev()
    if not gt.ok or gt.value != exp_titles:
        report(r, ID, None, dict(case, what='titles'), gt.brief(), exp_titles, monitor='class-titles')
    if not gs.ok or gs.value != exp_sizes:
        report(r, ID, None, dict(case, what='sizes'), gs.brief(), exp_sizes, monitor='class-sizes')
    # members: every non-blank cell
    mon = RuntimeMonitor(r, trace=True)
    mon.install(cls)
    from excel2pycl import Cell
    from .c08 import canon
    for si, sh in enumerate(spec['sheets']):
        for a in sh['cells']:
            rr, cc = wbspec.rc(a)
            mon.trace = []
            try:
                with StepBudget(STEP_BUDGET):
                    o1 = pipeline.guarded(lambda: exo.get_cell(Cell(si, cc - 1, rr - 1)).value, 'evaluate')
            except StepBudgetExceeded as e:
                report(r, ID, None, dict(case, cell=[si, a]), {'steps': str(e)}, 'member terminates', monitor='member-step-budget')
                continue
            first = mon.trace[0] if mon.trace else None
            o2 = pipeline.guarded(lambda: exf.value.get_cell(Cell(si, cc - 1, rr - 1)).value, 'evaluate')
            r.ev()
            r.count('members_called')
            r.count('file_vs_object')
            c = dict(case, cell=[si, a], content=sh['cells'][a] if not isinstance(sh['cells'][a], dict) else str(sh['cells'][a])[:80])
            if first and first[1] == 'miss':
                report(r, ID, None, c, 'no member', 'one evaluable member per translated cell', monitor='member-missing')
            if not o1.ok and structural(o1.exc):
                report(r, ID, None, c, o1.brief(), 'an evaluable member', monitor='member-structural')
            a_, b_ = (('V', canon(o1.value)) if o1.ok else ('E', o1.exc_name)), (('V', canon(o2.value)) if o2.ok else ('E', o2.exc_name))
            if a_ != b_:
                report(r, ID, None, c, {'class_object': a_, 'class_file': b_}, 'same behaviour from file and from class object', monitor='file-vs-object')
    # the same short session against both loadings: a first Executor overrides a cell beyond the sheet bounds, a SECOND Executor on the
    # same class object / on the same file reports titles, sizes and the grid of the first sheet - both loadings must agree, and the
    # second Executor must report the workbook's own sizes
    def session(make):
        ex1 = make()
        ex1.set_cells([Cell(0, exp_sizes[0]['last_column'] + 3, exp_sizes[0]['last_row'] + 5, 7)])
        ex2 = make()
        sizes = [dict(x) for x in ex2.get_executed_class().get_sheets_size()]
        try:
            grid = ex2.get_sheet(0)
            dims = (len(grid), max([len(row) for row in grid], default=0))
        except Exception as e:  # noqa: BLE001 - a failing member (data error) fails the whole grid: the sizes are still compared
            dims = type(e).__name__
        return sizes, dims
    s_obj = pipeline.guarded(lambda: session(lambda: pipeline.Executor().set_executed_class(class_object=cls)), 'evaluate')
    s_file = pipeline.guarded(lambda: session(lambda: pipeline.Executor().set_executed_class(class_file=fpath)), 'evaluate')
    r.ev()
    r.count('two_executor_sessions' if s_obj.ok and s_file.ok else 'two_executor_sessions_failed')
    so, sf = (s_obj.value if s_obj.ok else ('E', s_obj.exc_name)), (s_file.value if s_file.ok else ('E', s_file.exc_name))
    if so != sf or (s_obj.ok and s_obj.value[0] != exp_sizes):
        report(r, ID, None, dict(case, what='second executor after an out-of-bounds override by a first one'), {'class_object': so, 'class_file': sf},
               {'sizes': exp_sizes}, monitor='file-vs-object')
    if bi % 500 == 0:
        r.sample({'titles': titles, 'hostile_constants': [wbspec.enc(v) if not isinstance(v, str) else v[:40] for v in list(planted.values())[:6]]})


def rewrite_same_second(ctx):
    """one path, rewritten with another translation of the same length while its modification time (whole seconds) stays the same: what is
    loaded is the class that is in the file now (with bytecode writing on, the import system would trust the old bytecode file)"""
    r = ctx.r
    from excel2pycl import Cell, Parser, Executor
    d = os.path.join(ctx.workdir, 'rewrite')
    os.makedirs(d, exist_ok=True)
    out = os.path.join(d, 'excel_in_python.py')
    got = []
    for v in (1, 2, 7):
        path = wbspec.write(wbspec.spec(wbspec.sheet('S', {'A1': v, 'B1': '=A1+1'})), os.path.join(d, f'b{v}.xlsx'))

        def step():
            Parser().set_excel_file_path(path).set_entrypoint_cell(Cell('S', 'B', '1')).write_translation(out)
            os.utime(out, (1700000000, 1700000000))
            return Executor().set_executed_class(class_file=out).get_cell(Cell('S', 'B', '1')).value
        o = pipeline.guarded(step, 'evaluate')
        got.append(o.value if o.ok else o.exc_name)
    r.ev()
    r.count('rewrites_within_one_second' + (':bytecode_written' if not sys.dont_write_bytecode else ''))
    if got != [2, 3, 8]:
        report(r, ID, None, {'what': 'class file rewritten (same length, same whole-second mtime) and loaded again', 'bytecode_written': not sys.dont_write_bytecode},
               got, [2, 3, 8], monitor='file-vs-object')


SCALING_FAMILIES = {
    'unclosed wildcard text': lambda n: '="' + '*' * n,
    'unclosed ?* text': lambda n: '="' + '?*' * (n // 2),
    'unclosed wildcard text in a criterion': lambda n: '=COUNTIFS(A1:A3,"' + '*' * n + ')',
    'closed wildcard text': lambda n: '="' + '*' * n + '"',
    'tilde wildcard mix, unclosed': lambda n: '="' + '~*?' * (n // 3),
    'quotes and wildcards': lambda n: '=' + '"*"&' * (n // 4) + '"*',
}
_SCALE_SCRIPT = r"""
import sys, time, os, tempfile
from vf import pipeline, wbspec
text = eval(sys.argv[1])
d = tempfile.mkdtemp(dir=sys.argv[2])
path = wbspec.write(wbspec.spec(wbspec.sheet('S', {'A1': 1, 'A2': 2, 'A3': 3, 'F1': text})), os.path.join(d, 'b.xlsx'))
t0 = time.process_time()
t = pipeline.translate(path, entry=pipeline.entry_cell('S', 'F1'))
print('ELAPSED', time.process_time() - t0, t.kind)
"""


def run_scaling(ctx):
    """translation TERMINATES: one call into the regex engine cannot be watched by the step budget (it is a single Python step), so
    texts that make a pattern with overlapping repeats split them in polynomially many ways are timed in a process of their own at two
    sizes.  Verdict by growth, not by a deadline: refusing / translating a text of 2n characters more than 3.2 times slower than one of n
    AND slower than 4 s is a hang in the making (linear: 2x per doubling, quadratic 4x, cubic 8x); a process killed at the 90 s watchdog with a fast small
    size counts the same; anything else slow is inconclusive (a loaded machine), never a violation.  Times are CPU times of the child
    process (time.process_time), the watchdog alone is wall clock."""
    import subprocess
    import sys
    r = ctx.r
    n1, n2 = (1500, 3000) if ctx.tier == 'quick' else (2500, 5000)
    env = dict(os.environ, PYTHONPATH=os.path.dirname(os.path.dirname(os.path.dirname(os.path.abspath(__file__)))))

    def timed(text):
        try:
            c = subprocess.run([sys.executable, '-c', _SCALE_SCRIPT, repr(text), ctx.workdir], env=env, capture_output=True, text=True, timeout=90)
        except subprocess.TimeoutExpired:
            return 90.0, 'killed by the watchdog'
        for line in c.stdout.splitlines():
            if line.startswith('ELAPSED'):
                return float(line.split()[1]), line.split()[2]
        return None, (c.stderr or c.stdout)[-300:]

    for fam, mk in SCALING_FAMILIES.items():
        t1, k1 = timed(mk(n1))
        t2, k2 = timed(mk(n2))
        r.ev(2)
        r.count('scaling_pairs_timed')
        if t1 is None or t2 is None:
            r.count('scaling_pairs_without_a_time')
            continue
        r.nt(('scaling', fam))
        r.counters['scaling_slowest_ms'] = max(r.counters.get('scaling_slowest_ms', 0), int(t2 * 1000))
        if t2 > 4.0 and t2 > 3.2 * max(t1, 0.05):
            report(r, ID, None, {'text': mk(40) + ' ... (%d and %d characters)' % (n1, n2), 'how': 'scaling:' + fam, 'family': fam},
                   {'seconds_n': round(t1, 3), 'seconds_2n': round(t2, 3), 'outcome': k2}, 'time that grows about linearly with the length of the text',
                   monitor='translation-time-superlinear')
        elif t2 > 30:
            r.count('scaling_pairs_slow_but_linear')
    r.sample({'scaling_families': list(SCALING_FAMILIES), 'sizes': [n1, n2]})


RAW_CELLS = [('shared string without a value', '<c r="B2" t="s"/>'), ('shared string with an empty value', '<c r="B2" t="s"><v></v></c>'),
             ('number without a value', '<c r="B2" t="n"/>'), ('no type, no value', '<c r="B2"/>'), ('styled blank', '<c r="B2" s="0"/>'),
             ('error cell', '<c r="B2" t="e"><v>#N/A</v></c>'), ('error cell whose text starts with =', '<c r="B2" t="e"><v>=A1*2</v></c>'),
             ('boolean cell', '<c r="B2" t="b"><v>1</v></c>'), ('boolean cell without a value', '<c r="B2" t="b"/>'),
             ('formula with a cached text', '<c r="B2" t="str"><f>A1&amp;"x"</f><v>cached</v></c>'), ('formula with a cached error', '<c r="B2" t="e"><f>1/0</f><v>#DIV/0!</v></c>'),
             ('rich text', '<c r="B2" t="inlineStr"><is><r><t>ri</t></r><r><rPr><b/></rPr><t>ch</t></r></is></c>'), ('empty inline string', '<c r="B2" t="inlineStr"><is><t></t></is></c>'),
             ('inline string without text', '<c r="B2" t="inlineStr"><is/></c>'), ('ISO date cell', '<c r="B2" t="d"><v>2024-01-31T00:00:00</v></c>'),
             ('number written with an exponent', '<c r="B2"><v>1.5E+3</v></c>'), ('formula without a cached value', '<c r="B2"><f>A1+1</f></c>'),
             ('text with leading blanks preserved', '<c r="B2" t="inlineStr"><is><t xml:space="preserve">  padded  </t></is></c>')]


def run_rawxml(ctx):
    """cells as OTHER writers store them (the sheet XML of a workbook written by openpyxl is patched): whatever openpyxl's reader hands over
    for them, translation ends with a class that loads - every ordinary cell of it evaluable - or with an exception of the library"""
    r = ctx.r
    for what, raw in RAW_CELLS:
        cells = {'A1': 5, 'A2': 'txt', 'B1': 2.5, 'B2': 'PLACEHOLDER', 'C2': '=A1+1', 'C3': '=B2', 'C4': '=IFERROR(B2&"|",0)', 'D1': True}
        spec = wbspec.spec(wbspec.sheet('S', cells), wbspec.sheet('T', {'A1': '=S!B2'}))
        path = wbspec.write(spec, os.path.join(ctx.workdir, 'raw_%s.xlsx' % re.sub(r'\W+', '_', what)))
        if not wbspec.replace_cell_xml(path, 1, 'B2', raw):
            r.count('raw_cell_not_planted')
            continue
        try:
            openpyxl.load_workbook(path, read_only=True).close()
        except Exception:
            r.count('raw_cell_unreadable_for_openpyxl')       # not a readable workbook: outside the property
            continue
        r.count('raw_cell_books')
        t = pipeline.translate(path)
        r.ev()
        r.nt(('rawxml', what))
        case = {'text': raw, 'how': 'raw-cell:' + what}
        if not t.ok:
            if t.kind != pipeline.LIB_EXC:
                report(r, ID, None, case, t.brief(), 'a class or an exception of the library', monitor='translate-foreign-exception')
            continue
        ld = pipeline.load_text(t.value)
        if not ld.ok:
            report(r, ID, None, case, ld.brief(), 'the returned text compiles and loads', monitor='load')
            continue
        for a, want in (('A1', 5), ('A2', 'txt'), ('B1', 2.5), ('C2', 6), ('D1', True)):
            o = pipeline.query(ld.value, 0, *wbspec.rc(a))
            r.ev()
            if not (o.ok and type(o.value) is type(want) and o.value == want):
                report(r, ID, None, dict(case, cell=a), o.brief(), want, monitor='member-evaluable')
        o = pipeline.query(ld.value, 0, 2, 2)
        r.ev()
        if not o.ok and o.kind != pipeline.LIB_EXC and o.exc_name in ('NameError', 'SyntaxError', 'AttributeError'):
            report(r, ID, None, dict(case, cell='B2'), o.brief(), 'an evaluable member for the cell', monitor='member-evaluable')
    r.sample({'raw_cells': [w for w, _ in RAW_CELLS]})


def run_entry_coordinates(ctx):
    """entry cells whose coordinates are no whole numbers from 0 (floats, negatives, logicals, None, tuples) and positions far outside the
    sheet: the translation is refused with a library exception or yields a class that loads - never a foreign exception, never a member name
    no class can define"""
    from excel2pycl import Cell, Parser
    r = ctx.r
    cells = {'A1': 1, 'B1': 2, 'C1': '=A1+B1', 'A2': 'x'}
    path = wbspec.write(wbspec.spec(wbspec.sheet('S', cells)), os.path.join(ctx.workdir, 'entrycoords.xlsx'))
    odd = [(0, 2.0, 0), (0, 2, 0.0), (0, 99, 0.5), (0, None, 0), (0, 5.5, 7), (0, 2, -1), (0, -1, 0), (0, True, 0), (0, 2, True), (0, (2,), 0), (0, '2', 0), (0, 2, '0'),
           (0, 'C', 1), (0, 2, '1'), (0, 10 ** 6, 0), (0, 2, 10 ** 7), (True, 2, 0), (0.0, 2, 0), (None, 2, 0), (-1, 2, 0), (0, 'c', '1'), (0, 'C', '01'), ('S', 2.0, '1')]
    for (t, c, row) in odd:
        tr = pipeline.guarded(lambda: Parser().set_excel_file_path(path).set_entrypoint_cell(Cell(t, c, row)).get_translation(), 'translate')
        r.ev()
        r.count('entry_coordinate_probes')
        r.nt(('entry-coord', repr((t, c, row))))
        case = {'text': f'entry Cell({t!r}, {c!r}, {row!r}) on a sheet with =A1+B1 in C1', 'how': 'entry-coordinates'}
        if not tr.ok:
            if tr.kind != pipeline.LIB_EXC:
                report(r, ID, None, case, tr.brief(), 'a class or an exception of the library', monitor='translate-foreign-exception')
            continue
        ld = pipeline.load_text(tr.value)
        if not ld.ok:
            report(r, ID, None, case, ld.brief(), 'the returned text compiles and loads', monitor='load')
    r.sample({'entry_coordinates': [repr(o) for o in odd[:8]]})


def plan(tier, seed):
    q = tier == 'quick'
    sh = [{'kind': 'degenerate'}] + [{'kind': 'nest', 'max': 24 if q else 64, 'part': p, 'parts': 8} for p in range(8)]
    n = 8 if q else 32
    for k in range(n):
        sh.append({'kind': 'soup', 'n': 500 if q else 4000, 'k': k})
    for k in range(8 if q else 16):
        sh.append({'kind': 'whole', 'n': 12 if q else 250, 'k': k})
    for k in range(8):
        sh.append({'kind': 'args', 'part': k, 'parts': 8})
    # the same whole-workbook workload (hostile titles and constants, file vs class object) in an interpreter whose locale
    # encoding is not UTF-8: what is written and what is read back must not depend on it
    # ... and in an interpreter that writes bytecode files, as most programs do (the harness itself runs with PYTHONDONTWRITEBYTECODE)
    sh.append({'kind': 'whole', 'n': 4 if q else 40, 'k': 200, '_env': {'VERIF_WRITE_BYTECODE': '1'}})
    sh.append({'kind': 'scaling'})
    sh.append({'kind': 'rawxml'})
    for k in range(2 if q else 4):
        sh.append({'kind': 'whole', 'n': 6 if q else 60, 'k': 100 + k, 'ascii_locale': True,
                   '_env': {'LC_ALL': 'C', 'LANG': 'C', 'PYTHONUTF8': '0', 'PYTHONCOERCECLOCALE': '0'}})
    return sh


def run_shard(shard, ctx):
    r, rng = ctx.r, ctx.rng
    if 'replay' in shard:
        c = shard['replay']
        if 'text' in c:
            return judge_formulas(ctx, [(c['text'], c.get('how', 'replay'))], 'rep')
        r.inconcl('whole-workbook cases are regenerated from VERIF_SEED; re-run the check with the recorded seed')
        return
    k = shard['kind']
    if k == 'degenerate':
        items = [(t, 'degenerate') for t in DEGENERATE]
        items += [(f, 'valid') for f in c05.FUNC_FORMULAS]
        # nests over the whole function set: a valid formula has to come out as loadable code whose member evaluates
        from ..gen import exprs
        g = exprs.Gen(rng)
        items += [(g.formula(rng.choice('NNNTTBD'), rng.choice([2, 3, 4]))[0], 'valid') for _ in range(150 if ctx.tier == 'quick' else 3000)]
        odd = list(dict.fromkeys(ODD_AREA_FORMULAS))
        rng.shuffle(odd)
        items += [(f, 'odd-area') for f in odd[:240 if ctx.tier == 'quick' else len(odd)]]
        judge_formulas(ctx, items, 'deg')
        r.sample({'degenerate': DEGENERATE[:12]})
    elif k == 'args':
        import random as _random
        allf = arg_sweep()
        _random.Random(ctx.seed).shuffle(allf)
        if ctx.tier == 'quick':
            allf = allf[:1600]
        items = [(f, 'arg-kind') for i, f in enumerate(allf) if i % shard['parts'] == shard['part']]
        r.count('arg_kind_formulas', len(items))
        judge_formulas(ctx, items, 'arg')
    elif k == 'nest':
        items = []
        for kind in ('PAR', 'IF', 'IF2', 'SUM', 'IFERROR', 'ROUND', 'NEG', 'MIX', 'LEFTIF'):
            for d in sorted(set(list(range(1, 13)) + [16, 24, 32, 48, 64])):
                if d <= shard['max'] and not (kind in ('MIX', 'LEFTIF') and d > 12):
                    items.append((nest(kind, d), f'nest:{kind}:{d:02d}'))
        # towers beyond what Python can compile (200 nested brackets), at top level AND inside an argument of a function that
        # gets a member of its own (sub-cell): either refused with a library exception or emitted in a form that loads
        towers = [('PAR', 70), ('PAR', 105), ('PAR', 210), ('IF', 105), ('IF2', 110), ('NEG', 105), ('NEG', 215), ('IFERROR', 105), ('ROUND', 210)]
        wrappers = ['{}', 'SUM({},1)', 'MAX(2,{})', 'MIN({})', 'AVERAGE({},{})', 'AND({}>0,TRUE)', 'OR(FALSE,{}>0)', 'COUNT({})', 'IFS(1>0,{})', 'IFS({}>0,1)',
                    'VLOOKUP({},A3:B5,2)', 'VLOOKUP({},A3:B5,2,FALSE)', 'MATCH({},A3:A5,0)', 'INDEX(A3:B5,{},1)', 'IF({}>0,1,2)', 'IFERROR({},0)', 'ROUND({},0)',
                    'LEFT("abc",{})', 'CONCATENATE("a",{})', 'SUMIF(A3:A5,">"&{})', 'COUNTIFS(A3:A5,{})', 'SUMIFS(B3:B5,A3:A5,{})', 'DATE(2024,1,{})',
                    'SUM(MAX({},1),2)', '1+{}', '-{}', '{}%']
        for (kind, d) in towers:
            if d > shard['max'] * 4 and False:
                continue
            inner = nest(kind, d)[1:]
            for wi, w in enumerate(wrappers):
                items.append(('=' + w.format(*([inner] * w.count('{}'))), f'nest:tower-{kind}-in-{wi:02d}:{d:03d}'))
        for n in (70, 98, 101, 140):
            amp = '&'.join(['A1'] * n)
            for wi, w in enumerate(['{}', 'SUM({},1)', 'LEFT({},3)', 'CONCATENATE({},"x")', 'COUNTIFS(A3:A5,{})', 'IFS(1>0,{})']):
                items.append(('=' + w.format(amp), f'chain:amp-in-{wi}:{n:03d}'))
        for op in ('+', '*', '&', '-', '=', '<'):
            for n in (2, 10, 40, 60, 70, 80, 90, 100, 150, 400):
                if op in '=<' and n > 40:
                    continue
                items.append((chain(op, n), f'chain:{op}:{n:03d}'))
        items = [it for i, it in enumerate(items) if i % shard.get('parts', 1) == shard.get('part', 0)]
        judge_formulas(ctx, items, 'nest')
        for t, how in items:
            d = int(how.split(':')[2])
            if d >= 4:
                r.nt(t)
        r.sample({'nesting': [nest('IF', 3), nest('MIX', 4)], 'depths': 'parentheses/IF/SUM/IFERROR/ROUND/unary/mixed up to %d' % shard['max']})
    elif k == 'soup':
        items = [(soup(rng), 'soup') for _ in range(shard['n'] // 2)]
        items += [(t, 'splice') for t in splices(rng, shard['n'] // 4)]
        base = c05.FUNC_FORMULAS
        for _ in range(shard['n'] // 40):
            items += [(m, 'mutant') for m in c05.mutants(rng.choice(base), rng, 10)]
        judge_formulas(ctx, items, 'soup')
        if shard['k'] == 0:
            r.sample({'soups': [t for t, h in items if h == 'soup'][:8], 'splices': [t for t, h in items if h == 'splice'][:5]})
    elif k == 'scaling':
        run_scaling(ctx)
    elif k == 'rawxml':
        run_rawxml(ctx)
        run_entry_coordinates(ctx)
    elif k == 'whole':
        rewrite_same_second(ctx)
        for i in range(shard['n']):
            whole_book(ctx, shard['k'] * 1000 + i)


def finish(r, tier, seed):
    return {'outcome_classes': {k: v for k, v in r.counters.items() if k.startswith('outcome:') or k.startswith('member_outcome:') or k.startswith('whole_outcome:')},
            'max_steps_per_translation': max([0] + [int(x) for x in r.sets.get('max_steps', ())]), 'step_budget': STEP_BUDGET}
