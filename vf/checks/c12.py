"""C12 - conditional aggregates select exactly the positions meeting every criterion.

Oracle: vf/xlref select-then-fold over the planted columns (criterion = plain value | operator-prefixed value, literal
or assembled with & | wildcard pattern matching the whole cell, texts case-insensitive), outcome sets where the statement
is silent (blank cell against a numeric criterion, numeric-looking text against a number, booleans in the target range).
Mis-sized ranges must end in an error value or a failing evaluation, never in a number."""
import datetime as dt
import json

from .. import pipeline, wbspec
from ..findings import report
from ..refcheck import judge_book, replay_case
from ..xlref.values import is_num

ID = 'C12'
LEVEL = 'exploration'
RULE = ('three aligned criteria columns A,B,C (rows 1-8) over {int, float, 0, negative, text, mixed-case text, text with regex '
        'metacharacters, numeric text, blank} + numeric target column D (some TRUE/FALSE/blank) + shorter/longer/offset columns; '
        'criteria: number, text, "op number" for 6 operators, "=text", "<>text", "op"&cell, cell reference, wildcards (? * ~? ~* and '
        'regex-special characters) ; SUMIF with and without target (derived geometry), SUMIFS / COUNTIFS / AVERAGEIFS with 1-3 pairs, '
        'aligned and mis-sized, over column vectors, horizontal vectors and 2-D blocks (mis-sized also with equal row counts but different '
        'column counts and vector against block); contents re-drawn through overrides. Non-trivial: at least one position is accepted and at least one '
        'rejected by the criteria, or the ranges are mis-sized; distinct by (formula, valuation)')
ASSUMPTIONS = ['vf/xlref criterion semantics = the clauses of the statement', 'booleans and dates are not placed in criteria ranges; dates are not placed in the target range (texts are: a sum passes over them, an average over them is unjudged)',
               'blank vs numeric criterion, numeric text vs number, boolean target cells: either reading accepted']
HOST_SETTINGS = {'shards': lambda shards: [0, len(shards) - 1], 'env': {'VERIF_HOST_DECIMAL': '3'}}
FLOORS = {'quick': {'evaluations': 8000, 'nontrivial': 3000, 'counters': {'clock_checks': 300}}, 'thorough': {'evaluations': 250000, 'nontrivial': 100000, 'counters': {'clock_checks': 2000}}}

TEXTS = ['apple\n', 'pear\n', 'ap\n', 'apple\n\n', 'a*b\n', '12345678901-1', 'acct 40702810500000012345', '1:99999999999999999999', 'Total\n2024', 'ap\nple', 'a\tb', 'apple', 'Apple', 'APPLE', 'pear', 'a.c', 'abc', 'a*b', 'a?c', '[x]', 'x+y', 'pine apple', 'ap',
         # tildes in cells: literal tildes are written ~~ in a pattern, and a wildcard after ~~ is a live wildcard again
         '~', '~a', 'v~x', '~*', 'a~b', '~~', 'v~', '~apple',
         # words a date parser takes for dates: month and weekday names are plain texts
         'May', 'may', 'mon', 'Sat', 'march', 'dec', 'sunday', 'Jan', 'noon', 'today', 'am', 'T']


def crit_cell(rng, col):
    k = rng.random()
    if col == 'A':          # numeric flavoured
        if k < 0.45:
            return rng.randrange(-3, 12)
        if k < 0.6:
            return round(rng.uniform(0, 10), 1)
        if k < 0.7:
            return 0
        if k < 0.8:
            return rng.choice(['5', '3.5', '10', '0', '0.0', ' 0', '3', '1', '-1'])
        if k < 0.9:
            return rng.choice(TEXTS)
        return None
    if col == 'B':          # text flavoured
        if k < 0.7:
            return rng.choice(TEXTS)
        if k < 0.8:
            return rng.randrange(0, 9)
        if k < 0.9:
            return rng.choice(['5', '10', '0', '3'])
        return None
    if k < 0.4:
        return rng.randrange(0, 6)
    if k < 0.8:
        return rng.choice(TEXTS[:6])
    return None


def target_cell(rng):
    k = rng.random()
    if k < 0.7:
        return rng.randrange(1, 100)
    if k < 0.8:
        return round(rng.uniform(1, 50), 2)
    if k < 0.87:
        return rng.random() < 0.5
    if k < 0.93:
        return -rng.randrange(1, 20)
    if k < 0.97:
        return rng.choice(['n/a', 'txt', '12 pcs', '-'])      # a remark where a number belongs: a conditional sum passes over it
    return None


def criterion(rng, col):
    """-> formula text of a criterion suited to column col"""
    ops = ['>', '>=', '<', '<=', '<>', '=']
    k = rng.random()
    if col in ('A', 'C') and k < 0.55:
        n = rng.choice([0, 1, 3, 5, 3.5, 10, -1])
        form = rng.random()
        if form < 0.2:
            return str(n) if n >= 0 else f'"{n}"'
        if form < 0.65:
            return f'"{rng.choice(ops)}{n}"'
        if form < 0.85:
            return f'"{rng.choice(ops)}"&F1'
        return 'F1'
    t = rng.choice(TEXTS)
    form = rng.random()
    if form < 0.25:
        return f'"{t.replace("*", "~*").replace("?", "~?")}"'
    if form < 0.35:
        return f'"<>{t.replace("*", "~*").replace("?", "~?")}"'
    if form < 0.42:
        return f'"={t.replace("*", "~*").replace("?", "~?")}"'
    if form < 0.5:
        return 'F2'
    if form < 0.56:
        return '"<>"&F2'
    pats = ['a*', '*e', '?pple', 'a?c', '*p*', 'A*', '*', '?*', 'a~*b', 'a~?c', '*.*', '[x]', 'x+y', 'a.c', '??', 'p*r', 'ap*e', '*apple', 'pine*',
            '~~*', 'v~~?', '~~~*', '~~', 'a~~b', '*~~*', '~~?*', '~~~~*', 'v~~*', '~~?', '~*', '~~a*', '<>~~*', '=~~?',
            'Total*', '*2024', 'total?2024', '<>*20??', 'ap*e', 'a?b']
    return f'"{rng.choice(pats)}"'


def make_book(rng):
    cells = {}
    for r in range(1, 9):
        for col in 'ABC':
            v = crit_cell(rng, col)
            if v is not None:
                cells[f'{col}{r}'] = v
        v = target_cell(rng)
        if v is not None:
            cells[f'D{r}'] = v
        cells[f'E{r}'] = rng.randrange(1, 9)
    cells['E9'] = 4
    cells['E10'] = 6
    cells['F1'] = rng.choice([0, 3, 5, 3.5, 1 / 3, 0.1 + 0.2, 0.33333333332, 1.00000000001, 2.50000000004, 12345.678901234])
    for r_ in rng.sample(range(1, 9), 3):
        # cells holding exactly such a value and its neighbours at the 11th-16th digit
        cells[f'A{r_}'] = rng.choice([1 / 3, 0.1 + 0.2, 0.3333333333, 0.33333333332, 0.33333333331, 1.00000000001, 1, 1.000000000005, 2.50000000004, 2.5, 2.50000000002,
                                       12345.678901234, 12345.6789, 12345.67890125, 0.3])
    cells['F2'] = rng.choice(TEXTS)
    forms = []
    row = 1

    def put(f, **m):
        nonlocal row
        a = wbspec.a1((row - 1) % 45 + 1, 8 + (row - 1) // 45)
        row += 1
        cells[a] = f
        forms.append((a, f, m))

    def rng_of(col, r1=1, r2=8):
        return f'{col}{r1}:{col}{r2}'
    for _ in range(50):
        fn = rng.choice(['SUMIF', 'SUMIF3', 'SUMIFS', 'SUMIFS', 'COUNTIFS', 'COUNTIFS', 'AVERAGEIFS'])
        npairs = rng.choice([1, 1, 2, 3])
        cols = [rng.choice('ABC') for _ in range(npairs)]
        sep = rng.choice([',', ';'])
        missized = rng.random() < 0.12 and fn in ('SUMIFS', 'COUNTIFS', 'AVERAGEIFS')
        pairs = []
        for i, c in enumerate(cols):
            r1, r2 = (1, 8)
            if missized and i == len(cols) - 1:
                r1, r2 = rng.choice([(1, 7), (1, 9), (2, 8), (1, 4), ('row', 0), ('rect', 0)])
            if r1 == 'row':
                # as many cells as the target column, lying in a ROW (or in a 4x2 block): another shape is another size
                pairs.append(f'H20:O20{sep}{criterion(rng, c)}')
                continue
            if r1 == 'rect':
                pairs.append(f'H21:I24{sep}{criterion(rng, c)}')
                continue
            pairs.append(f'{rng_of(c, r1, r2)}{sep}{criterion(rng, c)}')
        if missized and fn == 'COUNTIFS' and npairs == 1:
            missized = False
            pairs = [f'{rng_of(cols[0])}{sep}{criterion(rng, cols[0])}']
        if fn == 'SUMIF':
            c = cols[0]
            put(f'=SUMIF({rng_of(c)}{sep}{criterion(rng, c)})', missized=False)
        elif fn == 'SUMIF3':
            c = cols[0]
            tgt = rng.choice(['D1:D8', 'D1', 'E1:E8', 'D1:D3', 'E3', 'D:D', 'E:E'])
            put(f'=SUMIF({rng_of(c)}{sep}{criterion(rng, c)}{sep}{tgt})', missized=False)
        elif fn == 'SUMIFS':
            put(f'=SUMIFS(D1:D8{sep}{sep.join(pairs)})', missized=missized)
        elif fn == 'COUNTIFS':
            put(f'=COUNTIFS({sep.join(pairs)})', missized=missized)
        else:
            put(f'=AVERAGEIFS({rng.choice(["D1:D8", "E1:E8"])}{sep}{sep.join(pairs)})', missized=missized)
    # other shapes than column vectors: horizontal vectors (rows 12/13) and 2-D blocks; aligned ones must fold like their
    # row-major flattening, mis-sized ones (same number of rows, different number of columns; vector against block) must fail
    for c in range(1, 7):
        v = crit_cell(rng, 'A')
        if v is not None:
            cells[wbspec.a1(12, c)] = v
        cells[wbspec.a1(13, c)] = rng.randrange(1, 60)
    shapes_ok = [('A13:F13', 'A12:F12'), ('B13:E13', 'B12:E12'), ('D1:E4', 'A1:B4'), ('D3:E8', 'B3:C8'), ('E1:E8', 'A1:A8'), ('D2:E3', 'A6:B7')]
    shapes_bad = [('A13:F13', 'A12:C12'), ('A13:C13', 'A12:F12'), ('D1:E4', 'A1:A4'), ('D1:D4', 'A1:B4'), ('D1:E4', 'A1:B3'), ('A13:F13', 'A1:A5'),
                  ('D1:E3', 'A1:C3'), ('B13:E13', 'B12:F12')]
    for _ in range(14):
        bad = rng.random() < 0.5
        tgt, cr = rng.choice(shapes_bad if bad else shapes_ok)
        col = 'A' if cr[0] in 'A' or '12' in cr else 'B'
        c1 = criterion(rng, col)
        fn = rng.choice(['SUMIFS', 'COUNTIFS', 'AVERAGEIFS'])
        if fn == 'COUNTIFS':
            put(f'=COUNTIFS({tgt},">0",{cr},{c1})', missized=bad)
        else:
            put(f'={fn}({tgt},{cr},{c1})', missized=bad)
    # SUMIF derives its target from the geometry of the criteria area: blocks of several rows AND columns, horizontal vectors, the
    # target named by its first cell, in full, or left out
    for _ in range(8):
        cr, tgt = rng.choice([('A1:B4', 'D1'), ('A1:B4', 'D1:E4'), ('A1:B4', None), ('B3:C8', 'D3'), ('A1:C3', 'D1:E3'), ('A12:F12', 'A13'), ('A12:F12', 'A13:F13'),
                              ('B12:E12', None), ('A1:B8', 'D1:E8'), ('A2:B3', 'E5'), ('A1:C2', 'D4:E5')])
        col = 'A' if cr[0] == 'A' or '12' in cr else 'B'
        c1 = criterion(rng, col)
        put(f'=SUMIF({cr},{c1}' + (f',{tgt})' if tgt else ')'), missized=False)
    return wbspec.spec(wbspec.sheet('S', cells)), forms


def valuations(rng):
    vals = [[]]
    for _ in range(3):
        ov = []
        for _ in range(rng.randrange(5, 14)):
            col = rng.choice('ABCD')
            r = rng.randrange(1, 9)
            v = target_cell(rng) if col == 'D' else crit_cell(rng, col)
            if v is None:
                continue
            ov.append((0, f'{col}{r}', v))
        ov.append((0, 'F1', rng.choice([0, 1, 3, 5, 3.5, 10, 1 / 3, 0.33333333332, 1.00000000001, 2.50000000004, 12345.678901234])))
        ov.append((0, 'F2', rng.choice(TEXTS)))
        vals.append(ov)
    return vals


def classify(case, out, outs):
    return None


def run_book(ctx, bi):
    r, rng = ctx.r, ctx.rng
    spec, forms = make_book(rng)
    meta = {a: m for a, f, m in forms}

    def nontrivial(case, outs):
        # accepted and rejected positions both exist <=> the result differs from "all" and from "none" folds; approximated by:
        # the reference value is neither 0/ANY nor the fold over every row, or the ranges are mis-sized
        o = outs[0]
        return bool(meta.get(case['cell'], {}).get('missized')) or (is_num(o) and o != 0)

    def on_result(case, out, outs, ok):
        fn = case['formula'][1:case['formula'].index('(')]
        r.count('fn:' + fn)
        if meta.get(case['cell'], {}).get('missized'):
            r.count('missized_cases')
    judge_book(ctx, ID, spec, [(0, a) for a, f, m in forms], valuations(rng), exact=False, name=f'cr{bi}', monitor='criteria-reference',
               classify=classify, nontrivial=nontrivial, on_result=on_result)
    if bi % 100 == 0:
        r.sample({'formulas': [f for a, f, m in forms[:12]]})


DAYS = [dt.datetime(2024, 1, 14), dt.datetime(2024, 1, 15), dt.datetime(2024, 1, 16), dt.datetime(2024, 2, 1), dt.datetime(2023, 12, 31)]
# the first weeks of the calendar (serial numbers 2-61, around the day Excel's calendar has and the real one has not)
EARLY_DAYS = [dt.datetime(1900, 1, 5), dt.datetime(1900, 2, 10), dt.datetime(1900, 2, 27), dt.datetime(1900, 2, 28), dt.datetime(1900, 3, 1), dt.datetime(1900, 3, 2)]
DATE_CRITS = ['G1', 'G2', '"={d}"', '">{d}"', '"<{d}"', '">={d}"', '"<={d}"', '"<>{d}"', '"{d}"', '"<>"&"{d}"', '">="&"{d}"',
              # assembled with & from a DATE cell: the text form of a date is its serial number
              '">="&G1', '"<"&G1', '">"&G1', '"<="&G1', '"<>"&G1', '"="&G1']


_EARLY = [False]


def moment(rng):
    d = rng.choice(DAYS if not _EARLY[0] else EARLY_DAYS)
    if rng.random() < 0.55:
        return d + dt.timedelta(hours=rng.randrange(0, 24), minutes=rng.choice([0, 30, 59]), seconds=rng.choice([0, 0, 1, 59]))
    return d


def date_cell(rng):
    k = rng.random()
    if k < 0.75:
        return moment(rng)
    if k < 0.85:
        return rng.choice(['n/a', 'soon', 'later'])
    return None


STAMP_TEXTS = ['2024-01-31T10:00:00+05:00', '2024-02-10T10:00:00Z', '2024-03-01 12:00 UTC', 'Wed, 31 Jan 2024 10:00:00 +0000', '2024-01-15T23:59:59-08:00',
               '2024-01-31 10:00:00+00:00', '10:00 PM PST', '1900-01-20T00:00:00+01:00', 'Sat Oct 11 17:13:46 UTC 2003']


def run_dates(ctx, bi):
    """date-time cells (with and without a time part) in the criteria range, the criterion a date cell handed over as a plain value or
    a date written year-month-day after an operator: a cell meets '=' only when it is that very moment"""
    r, rng = ctx.r, ctx.rng
    _EARLY[0] = (bi % 3 == 2)          # every third book lives in the first weeks of 1900
    days = EARLY_DAYS if _EARLY[0] else DAYS
    cells = {}
    for row in range(1, 9):
        v = date_cell(rng)
        if v is not None:
            cells[f'A{row}'] = v
        cells[f'B{row}'] = rng.randrange(1, 50)
    cells['G1'] = rng.choice(days)
    cells['G2'] = moment(rng)
    forms = []
    for i in range(40):
        def crit():
            return rng.choice(DATE_CRITS).format(d=rng.choice(days).strftime('%Y-%m-%d'))
        fn = rng.choice(['COUNTIFS', 'COUNTIFS2', 'SUMIF', 'SUMIFS', 'SUMIFS2', 'AVERAGEIFS'])
        f = {'COUNTIFS': f'=COUNTIFS(A1:A8,{crit()})', 'COUNTIFS2': f'=COUNTIFS(A1:A8,{crit()},B1:B8,">10")', 'SUMIF': f'=SUMIF(A1:A8,{crit()},B1:B8)',
             'SUMIFS': f'=SUMIFS(B1:B8,A1:A8,{crit()})', 'SUMIFS2': f'=SUMIFS(B1:B8,A1:A8,{crit()},A1:A8,{crit()})', 'AVERAGEIFS': f'=AVERAGEIFS(B1:B8,A1:A8,{crit()})'}[fn]
        a = wbspec.a1(i + 1, 10)
        cells[a] = f
        forms.append(a)
        r.count('date_criteria_formulas')
    vals = [[]]
    for _ in range(4):
        ov = []
        for row in rng.sample(range(1, 9), 5):
            v = date_cell(rng)
            if v is not None:
                ov.append((0, f'A{row}', v))
        ov.append((0, 'G1', rng.choice(days)))
        # the criterion cell sometimes holds exactly the moment of one of the cells, sometimes the midnight of its day
        pick = [v for (_, _, v) in ov if isinstance(v, dt.datetime)]
        ov.append((0, 'G2', rng.choice(pick) if pick and rng.random() < 0.6 else moment(rng)))
        vals.append(ov)

    def on_result(case, out, outs, ok):
        r.count('fn:' + case['formula'][1:case['formula'].index('(')])
    book = judge_book(ctx, ID, wbspec.spec(wbspec.sheet('S', cells)), [(0, a) for a in forms], vals, exact=False, name=f'dt{bi}', monitor='criteria-reference',
                      classify=classify, nontrivial=lambda case, outs: is_num(outs[0]) and outs[0] != 0, on_result=on_result)
    # a date or a time of day IN THE SUM RANGE (a timesheet): what it adds is not stated (Excel adds the serial number, the library passes
    # over it like SUM does) - but the conditional sum is a value, never a failure of the addition
    ov = list(vals[-1]) + [(0, f'B{rng.randrange(1, 9)}', rng.choice(days)), (0, f'B{rng.randrange(1, 9)}', dt.time(8, 30))]
    for a in forms:
        f = cells[a]
        if not f.startswith(('=SUMIF(', '=SUMIFS(')):
            continue
        o = book.value(0, a, ov)
        r.ev()
        r.count('sums_over_a_target_range_with_a_date')
        if not o.ok and o.kind != pipeline.LIB_EXC:
            report(r, ID, None, {'formula': f, 'cell': a, 'sheet': 0, 'overrides': ov, 'spec': wbspec.spec(wbspec.sheet('S', cells)), 'demand': 'no-foreign-exception'}, o.brief(),
                   'a value (whatever a date adds to it)', monitor='criteria-reference')
    # timestamps as other systems export them - TEXT cells with a UTC offset, a zone name, RFC 2822 - IN THE CRITERIA RANGE next to real date
    # cells: whether such a text meets a date criterion is not stated, but the aggregate is a value, never a failure of the comparison
    ov = list(vals[-2]) + [(0, f'A{row}', rng.choice(STAMP_TEXTS)) for row in rng.sample(range(1, 9), 3)]
    for a in forms:
        o = book.value(0, a, ov)
        r.ev()
        r.count('criteria_ranges_with_timestamp_texts')
        if not o.ok and o.kind != pipeline.LIB_EXC:
            report(r, ID, None, {'formula': cells[a], 'cell': a, 'sheet': 0, 'overrides': ov, 'spec': wbspec.spec(wbspec.sheet('S', cells)), 'demand': 'no-foreign-exception'}, o.brief(),
                   'a value (whatever a timestamp text is taken for)', monitor='criteria-reference')


CLOCKS = [dt.datetime(2024, 3, 1, 9, 0), dt.datetime(2024, 3, 15, 9, 0), dt.datetime(2024, 3, 31, 23, 59), dt.datetime(2024, 2, 29, 12, 0), dt.datetime(2024, 4, 30, 0, 0),
          dt.datetime(2024, 12, 31, 23, 59, 59), dt.datetime(2024, 1, 1, 0, 0)]
CLOCK_CRITS = ['">=Jan 2024"', '">=January 2024"', '"<Feb 2024"', '">=2024-01"', '"<=Jan 2024"', '">Dec 2023"', '">="&"Jan 2024"', '"<>Jan 2024"', '">=1 Jan 2024"', '"<15 Jan 2024"',
               '">=2024-01-10"', '"<=31.01.2024"', '"Jan 2024"', '">Jan 2024"']


def run_clock(ctx, bi):
    """date criteria that leave the day (or the day and month) out, evaluated under several dates of the SAME year on a virtual clock (the
    clock seen by the loaded class and by dateutil): which cells a criterion selects is a matter of the workbook, not of the day on
    which it is asked.  Metamorphic: the values under all clocks are the same."""
    from .c15 import make_shim
    r, rng = ctx.r, ctx.rng
    cells = {}
    for row in range(1, 32):
        cells[f'A{row}'] = dt.datetime(2024, 1, row) if rng.random() < 0.9 else dt.datetime(2023, 12, rng.randrange(1, 32))
        cells[f'B{row}'] = rng.randrange(1, 9)
    forms = {}
    for i, c in enumerate(CLOCK_CRITS):
        fn = ['=COUNTIFS(A1:A31,{c})', '=SUMIFS(B1:B31,A1:A31,{c})', '=SUMIF(A1:A31,{c},B1:B31)', '=AVERAGEIFS(B1:B31,A1:A31,{c})'][(i + bi) % 4]
        forms[wbspec.a1(i + 1, 6)] = fn.format(c=c)
    cells.update(forms)
    book = pipeline.Book(wbspec.spec(wbspec.sheet('S', cells)), ctx.workdir, name=f'clk{bi}')
    if book.cls is None:
        r.violation('translate', {'spec': 'clock'}, book.whole.brief(), 'a loadable class')
        return
    g = None
    for name in ('_today', 'exec_function_in'):
        f = book.cls.__dict__.get(name)
        f = getattr(f, '__func__', f)
        f = getattr(f, '__wrapped__', f)
        if f is not None and hasattr(f, '__globals__'):
            g = f.__globals__
            break
    import dateutil.parser._parser as dparser
    if g is None or 'datetime' not in g or not hasattr(dparser, 'datetime'):
        r.inconcl('cannot reach the loaded module / dateutil to install the virtual clock')
        return
    saved, dsaved = g['datetime'], dparser.datetime
    seen = {}
    for now in CLOCKS:
        shim = make_shim(now, 0)
        g['datetime'], dparser.datetime = shim, shim
        try:
            outs = book.values(0, list(forms))
        finally:
            g['datetime'], dparser.datetime = saved, dsaved
        for a, o in zip(forms, outs):
            r.ev()
            r.count('clock_checks')
            seen.setdefault(a, []).append((now, o))
    for a, lst in seen.items():
        briefs = {json.dumps(o.brief(), sort_keys=True, default=str) for _, o in lst}
        r.nt(('clock', forms[a], bi))
        if len(briefs) > 1:
            report(r, ID, None, {'formula': forms[a], 'how': 'virtual clocks of one year', 'cells': 'A1:A31 = days of January 2024 (some of December 2023)'},
                   {str(now.date()): o.brief() for now, o in lst}, 'the same value on every day of the year', monitor='criterion-depends-on-the-clock')
    r.sample({'clock_criteria': CLOCK_CRITS[:5], 'clocks': [str(c) for c in CLOCKS]})


def run_rows(ctx, bi):
    """the same functions over ranges that lie in a ROW (a month per column): criteria rows 1-2, the target in row 3, several aggregates
    over the same rows in one formula and in cells that add each other up"""
    r, rng = ctx.r, ctx.rng
    n = 8
    cells = {}
    for j in range(1, n + 1):
        L = wbspec.get_column_letter(j)
        cells[f'{L}1'] = rng.choice([1, 2, 3, 3, 5, 0, -1, 2.5])
        cells[f'{L}2'] = rng.choice(['apple', 'pear', 'Apple', 'plum', 'ap', 'x'])
        cells[f'{L}3'] = rng.randrange(1, 60)
    cells['J1'] = 2
    cells['J2'] = 'apple'
    crits1 = ['">2"', '"<=2"', '"<>3"', '3', '">="&J1', 'J1', '"<"&J1']
    crits2 = ['"apple"', '"<>apple"', '"a*"', '"p*"', 'J2', '"?????"', '"<>"&J2']
    forms = []
    for i in range(26):
        c1, c2 = rng.choice(crits1), rng.choice(crits2)
        f = rng.choice(['SUMIFS(A3:H3,A1:H1,{c1})', 'SUMIFS(A3:H3,A2:H2,{c2})', 'SUMIFS(A3:H3,A1:H1,{c1},A2:H2,{c2})', 'AVERAGEIFS(A3:H3,A1:H1,{c1})', 'COUNTIFS(A1:H1,{c1})',
                        'COUNTIFS(A1:H1,{c1},A2:H2,{c2})', 'SUMIF(A1:H1,{c1},A3:H3)', 'SUMIF(A2:H2,{c2},A3:H3)', 'SUMIF(A1:H1,{c1})',
                        # the same target row twice in one evaluation
                        'SUMIFS(A3:H3,A1:H1,{c1})+SUMIFS(A3:H3,A2:H2,{c2})', 'SUMIFS(A3:H3,A1:H1,">2")+SUMIFS(A3:H3,A1:H1,"<=2")', 'SUMIF(A1:H1,{c1},A3:H3)+SUM(A3:H3)',
                        'IFERROR(AVERAGEIFS(A3:H3,A2:H2,{c2}),0)+IFERROR(AVERAGEIFS(A3:H3,A1:H1,{c1}),0)', 'SUMIFS(A3:H3,A2:H2,{c2})+MAX(A3:H3)',
                        'SUMIFS(C3:C3,C1:C1,{c1})+C3', 'SUM(A3:H3)-SUMIFS(A3:H3,A1:H1,{c1})']).format(c1=c1, c2=c2)
        a = f'L{i + 1}'
        cells[a] = '=' + f
        forms.append(a)
    cells['M1'] = '=L1+L2'
    cells['M2'] = '=L3+L4+L5'
    forms += ['M1', 'M2']
    vals = [[]]
    for _ in range(4):
        ov = [(0, f'{wbspec.get_column_letter(rng.randrange(1, n + 1))}{rng.choice([1, 3])}', rng.choice([0, 1, 2, 3, 7, 2.5, None])) for _ in range(4)]
        ov.append((0, 'J1', rng.choice([1, 2, 3])))
        ov.append((0, 'J2', rng.choice(['apple', 'pear', 'x'])))
        vals.append(ov)
    r.count('row_layout_books')
    judge_book(ctx, ID, wbspec.spec(wbspec.sheet('S', cells)), [(0, a) for a in forms], vals, exact=False, name=f'rw{bi}', monitor='criteria-reference',
               classify=classify, nontrivial=lambda case, outs: is_num(outs[0]) and outs[0] != 0)


def run_kinds(ctx, bi):
    """criteria that are EQUAL in Python but of different kinds (TRUE and 1, FALSE and 0, 1 and "1", 1 and 1.0) over a range holding all of these
    kinds, asked of ONE class instance in several orders and of a fresh Executor each.  No reference is used (what a logical cell is
    to a numeric criterion is the library's reading): the law is that the value of a conditional aggregate is a matter of its arguments,
    not of which other criteria the instance has analysed before - and that a formula holding two of them gives what its parts give."""
    from excel2pycl import Executor, Cell
    r, rng = ctx.r, ctx.rng
    pool = [True, False, 1, 0, 1.0, 0.0, '1', '0', 'TRUE', 'true', None, 2, 'x', True, 1, False, 0]
    cells = {}
    for row in range(1, 11):
        v = rng.choice(pool)
        if v is not None:
            cells[f'A{row}'] = v
        cells[f'B{row}'] = 10 ** (row % 5) * rng.randrange(1, 9)
    cells.update({'E1': True, 'E2': 1, 'E3': False, 'E4': 0, 'E5': '1', 'E6': 1.0})
    crits = ['TRUE', '1', 'FALSE', '0', '"1"', '"TRUE"', 'E1', 'E2', 'E3', 'E4', 'E5', 'E6', '"=1"', '"=TRUE"', '"<>0"', '"<>FALSE"', '1.0', '">0"']
    forms = {}
    for i, c in enumerate(crits):
        for j, fn in enumerate(['=COUNTIFS(A1:A10,{c})', '=SUMIF(A1:A10,{c},B1:B10)', '=SUMIFS(B1:B10,A1:A10,{c})', '=AVERAGEIFS(B1:B10,A1:A10,{c})']):
            forms[wbspec.a1(i + 1, 8 + j)] = fn.format(c=c)
    pairs = {}
    keys = list(forms)
    for k in range(12):
        a, b = rng.sample([x for x in keys if forms[x].startswith(('=COUNTIFS', '=SUMIF('))], 2)
        pairs[wbspec.a1(k + 1, 14)] = (a, b)
        cells[wbspec.a1(k + 1, 14)] = f'={forms[a][1:]}*100000+{forms[b][1:]}'
    cells.update(forms)
    spec = wbspec.spec(wbspec.sheet('S', cells))
    book = pipeline.Book(spec, ctx.workdir, name=f'kinds{bi}')
    if book.cls is None:
        r.violation('translate', {'spec': spec}, book.whole.brief(), 'a loadable class')
        return

    def ask(ex, a):
        rr, cc = wbspec.rc(a)
        o = pipeline.guarded(lambda: ex.get_cell(Cell(0, cc - 1, rr - 1)).value, 'evaluate')
        return json.dumps(o.brief(), sort_keys=True, default=str), o
    base = {}
    for a in list(forms) + list(pairs):
        base[a] = ask(Executor().set_executed_class(class_object=book.cls), a)
        r.ev()
    for trial in range(4):
        ex = Executor().set_executed_class(class_object=book.cls)
        order = list(forms)
        rng.shuffle(order)
        for a in order:
            got, o = ask(ex, a)
            r.ev()
            r.count('criteria_kind_order_checks')
            r.nt(('kinds', bi, trial, a))
            if got != base[a][0]:
                report(r, ID, None, {'formula': forms[a], 'cell': a, 'sheet': 0, 'spec': spec, 'asked_before': [forms[x] for x in order[:order.index(a)]][-6:],
                                     'how': 'one Executor, criteria of several kinds in a random order', 'kinds_law': True},
                       o.brief(), base[a][1].brief(), monitor='criterion-depends-on-earlier-criteria')
                break
    for a, (x, y) in pairs.items():
        ox, oy, oz = base[x][1], base[y][1], base[a][1]
        if ox.ok and oy.ok and is_num(ox.value) and is_num(oy.value):
            r.ev()
            r.count('criteria_kind_pair_checks')
            want = ox.value * 100000 + oy.value
            if not (oz.ok and is_num(oz.value) and abs(oz.value - want) < 1e-6):
                report(r, ID, None, {'formula': cells[a], 'cell': a, 'sheet': 0, 'spec': spec, 'how': 'two conditional aggregates in one formula', 'kinds_law': True},
                       oz.brief(), want, monitor='criterion-depends-on-earlier-criteria')
    r.sample({'criteria_of_equal_value_and_other_kind': crits[:8]})


def _plan(tier, seed):
    n = 6 if tier == 'quick' else 160
    return [{'k': k, 'n': n} for k in range(16)] + [{'dates': k, 'n': 2 if tier == 'quick' else 40} for k in range(4)] + [{'clock': k, 'n': 2 if tier == 'quick' else 12} for k in range(2)] + [{'rows': k, 'n': 3 if tier == 'quick' else 40} for k in range(2)] + [{'kinds': k, 'n': 3 if tier == 'quick' else 40} for k in range(2)]


def run_shard(shard, ctx):
    if isinstance(shard, dict) and 'mixed' in shard:
        from ..mixed import run_mixed
        return run_mixed(ctx, ID, shard['n'])
    if 'replay' in shard and shard['replay'].get('kinds_law'):
        for i in range(6):
            run_kinds(ctx, i)
        return
    if 'replay' in shard and shard['replay'].get('demand') == 'no-foreign-exception':
        c = shard['replay']
        book = pipeline.Book(c['spec'], ctx.workdir, name='replay')
        o = book.value(c['sheet'], c['cell'], [(s_, a_, wbspec.dec(v_)) for (s_, a_, v_) in c['overrides']]) if book.cls is not None else book.whole
        ctx.r.ev()
        if not o.ok and o.kind != pipeline.LIB_EXC:
            report(ctx.r, ID, None, c, o.brief(), 'a value or a library exception', monitor='criteria-reference')
        return
    if 'replay' in shard:
        return replay_case(ctx, ID, shard['replay'], exact=False, classify=classify)
    if 'rows' in shard:
        for i in range(shard['n']):
            run_rows(ctx, shard['rows'] * 1000 + i)
        return
    if 'kinds' in shard:
        for i in range(shard['n']):
            run_kinds(ctx, shard['kinds'] * 1000 + i)
        return
    if 'clock' in shard:
        for i in range(shard['n']):
            run_clock(ctx, shard['clock'] * 1000 + i)
        return
    if 'dates' in shard:
        for i in range(shard['n']):
            run_dates(ctx, shard['dates'] * 1000 + i)
        return
    for i in range(shard['n']):
        run_book(ctx, shard['k'] * 1000 + i)


def finish(r, tier, seed):
    from ..refcheck import flag_consistency_verdict
    extra = flag_consistency_verdict(r, ID)
    return {**extra, 'functions': {k: v for k, v in r.counters.items() if k.startswith('fn:')},
            'silent_clauses_used': {k: v for k, v in r.counters.items() if k.startswith('silent_clause:')}}


def plan(tier, seed):
    # 'mixed': nests over the whole function set that use at least one function of this property (vf/mixed.py)
    return _plan(tier, seed) + [{'mixed': k, 'n': 3 if tier == 'quick' else 60} for k in range(3 if tier == 'quick' else 8)]
