"""C01 - formula operators keep their Excel meaning (precedence, sign, %, &).

Oracle: independent precedence-climbing evaluator (vf/xlref) on the same formula text and valuation.
E1 exhaustive operator chains with decorations, E2 random trees, E3 numeric-literal sweep (exact)."""
import itertools

from .. import pipeline, wbspec
from ..findings import report
from ..instr.translate import TranslateMonitor
from ..instr.runtime import RuntimeMonitor
from ..xlref import evalr
from ..xlref.parser import parse, FLAT, ParseError
from ..xlref.values import outcome_matches, Err, XlError

ID = 'C01'
LEVEL = 'exploration'
RULE = ('E1: every chain of k binary operators from {+ - * / & = <> < > <= >=} (quick k<=2, thorough k<=3 sampled), at '
        'most one operand decorated with unary -, unary + or postfix %, every parenthesisation of one sub-chain (quick also samples 3 000 chains '
        'of length 3), operand '
        'kinds (number cell / text cell / literals) chosen so that the reference has an opinion; E2: random operator '
        'trees (depth<=4); each formula evaluated under workbook constants and under override valuations incl. a blank, a '
        'negative and a decimal operand and operands of magnitude 1e-14..1e15; E3: numeric literal sweep compared exactly with float(text). A formula is '
        'non-trivial when at least two groupings (Excel / flat-left / flat-right) give different values under the '
        'valuation, i.e. a mis-grouping would be observable; literals: every distinct text counts')
ASSUMPTIONS = ['vf/xlref is the reading of Excel operator semantics (precedence table of the statement)',
               'non-literal arithmetic compared at 1e-12 relative (15-digit normalisation of percent operands is an accepted reading)',
               'text forms of booleans/floats under & belong to C17 and are not generated']
HOST_SETTINGS = {'shards': lambda shards: [0, len(shards) // 2], 'env': {'VERIF_HOST_DECIMAL': '3'}}
FLOORS = {'quick': {'evaluations': 12000, 'nontrivial': 4000, 'counters': {'entrypoint_parses': 6000}},
          'thorough': {'evaluations': 120000, 'nontrivial': 20000, 'counters': {'entrypoint_parses': 50000}}}

BIN = ['+', '-', '*', '/', '&', '=', '<>', '<', '>', '<=', '>=']
NCELLS = ['A1', 'B1', 'C1', 'D1', 'E1']
TCELLS = ['A2', 'B2', 'C2', 'D2', 'E2']
BLANKCELL = 'G1'
BASE = {'A1': 2, 'B1': 3, 'C1': 5, 'D1': 7, 'E1': 11, 'F1': 13,
        'A2': 'a', 'B2': 'bb', 'C2': 'ccc', 'D2': 'd', 'E2': 'ee'}
VALUATIONS = [
    [],
    [('A1', -4), ('B1', 2.5), ('C1', 7), ('D1', 0.5), ('E1', -3), ('A2', 'zz'), ('B2', 'a'), ('C2', 'm')],
    [('A1', 6), ('B1', -1.25), ('C1', 0.75), ('D1', 9), ('E1', 2), ('A2', 'q'), ('B2', 'Q'), ('D2', 'BB'), ('C2', 'Ccc')],
    [('A1', 100), ('B1', 7), ('C1', -2), ('D1', 3), ('E1', 0.1), ('A2', 'bb'), ('C2', 'a'), ('E2', 'a')],
    # magnitudes far from 1: "15 significant digits" is not "15 decimal places"
    [('A1', 1.23456789e-10), ('B1', 7e-14), ('C1', 2.5e15), ('D1', -3.3e-7), ('E1', 4.1e-9), ('A2', 'q'), ('B2', 'r')],
]
NLITS = ['4', '9', '2.5', '0.5', '10']
TLITS = ['"x"', '"yy"', '"a"', '"a  b"', '"p\tq"', '" lead"', '"trail  "', '"l1\nl2"', '"a b"', '"A"', '"YY"', '"X"']


def atoms_for(kinds, variant):
    out = []
    for i, k in enumerate(kinds):
        if k == 'N':
            out.append(NCELLS[i] if variant == 0 or i % 2 == 0 else NLITS[i % len(NLITS)])
        elif k == 'T':
            out.append(TCELLS[i] if variant == 0 or i % 2 == 1 else TLITS[i % len(TLITS)])
        elif k == 'B':
            out.append(BLANKCELL)
    return out


def render(atoms, ops, deco=None, paren=None):
    """deco: (slot, kind) with kind in '-','+','%'; paren: (i, j) parenthesise operands i..j inclusive"""
    parts = []
    for i, a in enumerate(atoms):
        s = a
        if deco and deco[0] == i:
            s = (deco[1] + s) if deco[1] in '+-' else (s + '%')
        if paren and paren[0] == i:
            s = '(' + s
        if paren and paren[1] == i:
            s = s + ')'
            if deco and deco[0] == 'P':
                s = s + '%' if deco[1] == '%' else s
        parts.append(s)
        if i < len(ops):
            parts.append(ops[i])
    f = ''.join(parts)
    if paren and deco and deco[0] == 'P' and deco[1] in '+-':
        # sign in front of the group
        k = sum(len(p) for p in parts[:2 * paren[0]])
        f = f[:k] + deco[1] + f[k:]
    return '=' + f


def ref_opinion(formula, valuation, spec_cache={}):
    """-> (outcomes list, nontrivial bool) or None when the reference has no opinion"""
    cells = dict(BASE)
    cells['Z9'] = formula
    sp = wbspec.spec(wbspec.sheet('S1', cells))
    ov = {('S1', *wbspec.rc(a)): v for a, v in valuation}
    env_ = evalr.Env(sp, ov)
    try:
        outs, flags = evalr.outcomes(env_, 'S1', 'Z9', strict_text=True, text_arith='excel')
    except (evalr.NoOpinion, ParseError, evalr.Cycle):
        return None
    LAST_REF['text_in_arith'] = evalr.LAST.get('text_in_arith', False)
    LAST_REF['python_model'] = None
    if LAST_REF['text_in_arith']:
        # defect model of KF-C01-text-operand-arithmetic: the emitted operators are Python's (str*int repeats, str+str joins, else TypeError)
        try:
            LAST_REF['python_model'] = [evalr.evaluate_once(evalr.Env(sp, ov), 'S1', 'Z9', strict_text=True, text_arith='python')[0]]
        except Exception:  # noqa: BLE001 - no prediction
            # what the enclosing operators make of the mis-computed text is not modelled (a repeated text compared with a number, ...):
            # such a formula is left unjudged, as every formula with a text operand in arithmetic was before this finding was recorded
            return None
    alts = []
    for kw in ({'prec': FLAT, 'right': False}, {'prec': FLAT, 'right': True}):
        try:
            v, _ = evalr.evaluate_once(evalr.Env(sp, ov), 'S1', 'Z9', parse_fn=lambda t, kw=kw: parse(t, **kw))
            alts.append(v)
        except Exception as e:  # a mis-grouping that fails is distinguishable too
            alts.append(('fail', type(e).__name__))
    nontrivial = any(not _same(outs[0], a) for a in alts)
    return outs, nontrivial


LAST_REF = {}


def _same(a, b):
    if isinstance(b, tuple):
        return False
    if isinstance(a, Err) or isinstance(b, Err):
        return isinstance(a, Err) and isinstance(b, Err)
    if isinstance(a, bool) != isinstance(b, bool):
        return False
    if isinstance(a, (int, float)) and isinstance(b, (int, float)):
        return abs(a - b) <= 1e-9 * max(1, abs(a), abs(b))
    return type(a) is type(b) and a == b


def chain_formulas(k, rng=None, sample=None):
    """yield formulas for all operator chains of length k with typed operands and decorations"""
    n = k + 1
    parens = [None] + [(i, j) for i in range(n) for j in range(i + 1, n) if not (i == 0 and j == n - 1)]
    if k == 1:
        parens = [None, (0, 1)]
    for ops in itertools.product(BIN, repeat=k):
        kind_sets = []
        for kinds in itertools.product('NT', repeat=n):
            f = render(atoms_for(kinds, 0), ops)
            if ref_opinion(f, VALUATIONS[0]) is not None:
                kind_sets.append(kinds)
            if len(kind_sets) == 2:
                break
        for ks_i, kinds in enumerate(kind_sets):
            decos = [None] + [(i, d) for i in range(n) if kinds[i] == 'N' for d in '-+%']
            for paren in parens:
                dlist = list(decos)
                if paren:
                    dlist += [('P', '%'), ('P', '-')]
                for deco in dlist:
                    for variant in (0, 1):
                        if variant == 1 and (deco is not None or paren is not None):
                            continue
                        yield render(atoms_for(kinds, variant), ops, deco, paren)
        # blank operand: one numeric formula per chain with the last operand blank
        if all(o in '+-*/' for o in ops):
            yield render(atoms_for(('N',) * k + ('B',), 0), ops)
            yield render(atoms_for(('B',) + ('N',) * k, 0), ops)


def random_tree(rng, depth, want='N'):
    """random expression text of kind N (number), T (text) or L (logical)"""
    if depth <= 0 or rng.random() < 0.25:
        if want == 'N':
            a = rng.choice(NCELLS + NLITS + [BLANKCELL])
        elif want == 'T':
            a = rng.choice(TCELLS + TLITS)
        else:
            a = rng.choice(['TRUE', 'FALSE', f'{rng.choice(NCELLS)}>{rng.choice(NLITS)}'])
            return a
        return a
    if want == 'N':
        c = rng.random()
        if c < 0.55:
            op = rng.choice('+-*/')
            l, r_ = random_tree(rng, depth - 1, 'N'), random_tree(rng, depth - 1, 'N')
            if rng.random() < 0.2 and len(l) > 2:
                # the SAME sub-expression text again right of a bracketed group: (A1+B1)*A1+B1 groups only what the brackets hold
                return f'({l}){op}{l}' if rng.random() < 0.6 else f'({l})%{op}{l}{rng.choice("+-*")}{r_}'
            if rng.random() < 0.35:
                l = f'({l})'
            if rng.random() < 0.35:
                r_ = f'({r_})'
            return f'{l}{op}{r_}'
        if c < 0.7:
            return rng.choice('-+') + random_tree(rng, depth - 1, 'N')
        if c < 0.85:
            a = rng.choice(NCELLS + NLITS)
            return a + '%'
        return '(' + random_tree(rng, depth - 1, 'N') + ')'
    if want == 'T':
        l = random_tree(rng, depth - 1, rng.choice('TTN'))
        r_ = random_tree(rng, depth - 1, rng.choice('TTN'))
        return f'{l}&{r_}'
    k = rng.choice('NNT')
    op = rng.choice(['=', '<>', '<', '>', '<=', '>='])
    return f'{random_tree(rng, depth - 1, k)}{op}{random_tree(rng, depth - 1, k)}'


def _plan(tier, seed):
    shards = []
    if tier == 'quick':
        for part in range(10):
            shards.append({'kind': 'chains', 'k': [1, 2], 'part': part, 'parts': 10, 'vals': [0, 1, 4] if part % 2 else [0, 1]})
        for part in range(6):
            shards.append({'kind': 'chains', 'k': [3], 'part': part, 'parts': 24, 'vals': [0, 1], 'sample': 500})
        for part in range(6):
            shards.append({'kind': 'random', 'n': 400, 'depth': 4, 'vals': [0, 1, 2]})
        shards.append({'kind': 'literals', 'n': 5000})
        shards.append({'kind': 'special', 'vals': [0, 1, 4]})
        shards.append({'kind': 'sheets', 'n': 6})
        shards.append({'kind': 'sheets', 'n': 6})
    else:
        shards.append({'kind': 'special', 'vals': [0, 1, 2, 3, 4]})
        for part in range(8):
            shards.append({'kind': 'chains', 'k': [1, 2], 'part': part, 'parts': 8, 'vals': [0, 1, 2, 3]})
        for part in range(24):
            shards.append({'kind': 'chains', 'k': [3], 'part': part, 'parts': 24, 'vals': [0, 1, 2], 'sample': 1300})
        for part in range(10):
            shards.append({'kind': 'random', 'n': 2000, 'depth': 4, 'vals': [0, 1, 2, 3, 4]})
        for part in range(6):
            shards.append({'kind': 'literals', 'n': 25000})
        for part in range(8):
            shards.append({'kind': 'sheets', 'n': 40})
    return shards


PER_BOOK = 150
# hand-picked operator mixes that the enumerations do not produce (several decorations at once, chained %)
SPECIAL = ['=0/-5&""', '=(0*-2.5)&"|"', '=-0%&"x"', '=-(0/3)&""', '=G1/-B1&"x"', '=G1*-0.5&""', '="<"&0/-B1&">"', '=-G1%&"p"', '=0/-5=0', '=A1%%', '=5%%', '=A1%%+B1', '=(A1)%%', '=-A1%', '=-A1%*-B1%', '=-(A1+B1)%', '=--A1', '=-+-A1', '=A1--B1', '=A1-+B1', '=(A1+B1)*A1+B1', '=(A1-B1)-A1-B1', '=(A1+B1)%*A1+B1', '=2*(A1+B1)*A1+B1', '=(1+2)*1+2', '=(A1-B1)/A1-B1', '=(A1*B1)+A1*B1', '=(A1+B1)*$A$1+B$1',
           '=(A1&B1)&A1&B1=A1&B1', '=(A1<B1)=A1<B1', '=(A1-B1)*(A1-B1)-A1-B1',
           '=A1*-B1', '=A1/-B1%', '=-A1*B1+C1', '=-(A1)*B1', '=(-A1)%', '=((A1))', '=((A1+B1))*((C1))', '=(A1+B1)%*C1',
           '=(A1+B1)%+C1', '=(A1+B1)%-C1', '=(A1+B1)%/C1', '=(A1+B1)%&A2', '=A2&(A1+B1)%', '=A1+B1%+C1%', '=A1%+B1%', '=A1%-B1',
           '=A1%*B1%', '=A1%/B1', '=A1%&A2', '=A1%=B1%', '=A1<B1=TRUE', '=A1+B1<C1+D1', '=A1&B1=A1&B1', '=A1+B1&C1+D1',
           '=A1*B1&C1/A1', '=A1<>B1&C1', '=A1-B1-C1-D1-E1', '=A1/B1/C1/D1', '=A1-B1+C1-D1+E1', '=A1/B1*C1/D1*E1',
           '=A1+B1*C1-D1/E1', '=A1*B1+C1*D1', '=A1+G1', '=G1+G1', '=G1*A1', '=G1-A1', '=-G1', '=G1%', '=A1/G1', '=G1=0',
           '=2.5+A1', '=0.5*4', '=10/4', '=TRUE+1', '=TRUE*FALSE', '=TRUE()+A1', '=FALSE()=FALSE', '="a"="a"', '="a"<>"b"',
           '="x"&"yy"&"a"', '="a"<"b"', '="a"="A"', '="a"<>"A"', '="Abc"="aBC"', '="a"<="A"', '="a">="A"', '="a"<"A"', '=A2="A"', '=A2&"x"="AX"', '="b"=B2&""', '="a  b"&"c"', '="x  y"="x y"', '="x  y"<>"x y"', '="t\tu"&1', '="l1\nl2"&A2', '=A2&"  "&B2', '="  "&A1&"  "', '=" a"=" a"', '="a  "="a "', '=A2&B2<C2&D2', '= A1 + B1', '=A1 +B1* C1', '=( A1+B1 )*C1', '=A1+\tB1']


def classify(f, out):
    if '%%' in f.replace(' ', '') and out.kind == 'LIB_EXC' and out.exc_name == 'E2PyclParserException' and out.phase == 'translate':
        return 'KF-C01-chained-percent-rejected'
    # a TEXT value reached an arithmetic operator in the reference evaluation AND the observed outcome is the one Python's operators give
    if LAST_REF.get('text_in_arith') and LAST_REF.get('python_model') is not None and outcome_matches(out, LAST_REF['python_model'], exact=False):
        return 'KF-C01-text-operand-arithmetic'
    return None


def run_formulas(formulas, vals, ctx, tag):
    """translate formulas in batches (whole file, falling back to per-cell) and judge every (formula, valuation)"""
    r = ctx.r
    tmon = TranslateMonitor.install(r)
    bi = 0
    staged_i = [0]
    for off in range(0, len(formulas), PER_BOOK):
        batch = formulas[off:off + PER_BOOK]
        cells = dict(BASE)
        where = {}
        for i, f in enumerate(batch):
            addr = f'J{i + 4}'
            cells[addr] = f
            where[addr] = f
        spec = wbspec.spec(wbspec.sheet('S1', cells))
        tmon.drain()
        book = pipeline.Book(spec, ctx.workdir, name=f'{tag}{bi}')
        bi += 1
        r.count('books:' + book.mode)
        cons = tmon.drain()
        broken = {e.get('text'): e for e in cons if e['type'] == 'parser'}
        for e in cons:
            if e['type'] == 'lexer':
                report(r, ID, None, {'formula': e['text']}, e, 'consumed pieces add up to the text', monitor='lexer-conservation')
        rmon = None
        if book.cls is not None:
            rmon = RuntimeMonitor(r)
            rmon.install(book.cls)
        for addr, f in where.items():
            for vi in vals:
                val = VALUATIONS[vi]
                if vi == 4 and ('+' in f or '-' in f):
                    # operands of magnitude 1e-14..1e15: sums and differences cancel catastrophically, so the accepted 15-digit
                    # normalisation of a percent operand is no longer within 1e-12 of the raw double - only products, quotients,
                    # percent, & and comparisons are judged under this valuation
                    r.count('extreme_valuation_skipped_additive')
                    continue
                ref = ref_opinion(f, val)
                if ref is None:
                    r.count('ref_no_opinion')
                    continue
                outs, nontrivial = ref
                out = book.value(0, addr, [(0, a, v) for a, v in val])
                r.ev()
                literal_only = not any(ch.isalpha() for ch in f.replace('TRUE', '').replace('FALSE', '')) and not any(
                    o in f for o in '+-*/%')
                # a difference of nearly equal terms keeps only the round-off of the terms: judged to 1e-13 of the largest operand in sight
                # (the accepted 15-digit normalisation of a percent operand moves a term by that much)
                mags = [abs(v) for _, v in val if isinstance(v, (int, float)) and not isinstance(v, bool)] + [1.0]
                ok = outcome_matches(out, outs, exact=literal_only, scale=0.0 if literal_only else max(mags))
                case = {'formula': f, 'valuation': vi, 'overrides': val}
                if not ok:
                    report(r, ID, classify(f, out), case, out.brief(), outs, monitor='operator-semantics',
                           detail={'parser_conservation': broken.get(f), 'mode': book.mode})
                elif f in broken and out.ok:
                    # value agreed by luck although part of the formula was dropped
                    report(r, ID, None, case, broken[f], 'whole formula consumed', monitor='parser-conservation')
                if nontrivial:
                    r.nt((f, vi))
                # operands "whether from the workbook or from an override": the same overrides handed over in two set_cells calls with
                # an evaluation in between must give the value they give when handed over at once
                staged_i[0] += 1
                if len(val) >= 2 and staged_i[0] % 7 == 0 and book.cls is not None:
                    half = len(val) // 2
                    rr_, cc_ = wbspec.rc(addr)

                    def staged():
                        ex = pipeline.Executor().set_executed_class(class_object=book.cls)
                        ex.set_cells([pipeline.ncell(0, *wbspec.rc(a), v) for a, v in val[:half]])
                        pipeline.guarded(lambda: ex.get_cell(pipeline.ncell(0, rr_, cc_)).value, 'evaluate')
                        ex.set_cells([pipeline.ncell(0, *wbspec.rc(a), v) for a, v in val[half:]])
                        return ex.get_cell(pipeline.ncell(0, rr_, cc_)).value
                    o2 = pipeline.guarded(staged, 'evaluate')
                    r.ev()
                    r.count('staged_override_evaluations')
                    same_ = (o2.ok == out.ok) and (not out.ok or (type(o2.value) is type(out.value) and o2.value == out.value))
                    if not same_:
                        report(r, ID, None, dict(case, staged='set_cells(first half), evaluate, set_cells(second half), evaluate'), o2.brief(), out.brief(),
                               monitor='overrides-staged-vs-at-once')
        # operands "whether from the workbook or from an override": two Executors alive on the SAME class object, one with overrides and
        # one without (then the other way round), asked in turn - each answers from its own operands
        if book.cls is not None and len(vals) >= 2:
            addrs = list(where)[:12]
            va, vb = VALUATIONS[vals[1]], VALUATIONS[vals[0]]

            def fresh_values(val):
                return [book.value(0, a, [(0, c_, v) for c_, v in val]) for a in addrs]
            exp_a, exp_b = fresh_values(va), fresh_values(vb)

            def interleaved():
                ea = pipeline.Executor().set_executed_class(class_object=book.cls)
                eb = pipeline.Executor().set_executed_class(class_object=book.cls)
                if va:
                    ea.set_cells([pipeline.ncell(0, *wbspec.rc(c_), v) for c_, v in va])
                if vb:
                    eb.set_cells([pipeline.ncell(0, *wbspec.rc(c_), v) for c_, v in vb])
                got = []
                for a in addrs:
                    rr_, cc_ = wbspec.rc(a)
                    q = lambda e_: pipeline.guarded(lambda: e_.get_cell(pipeline.ncell(0, rr_, cc_)).value, 'evaluate')      # noqa: E731
                    got.append((q(ea), q(eb), q(ea)))
                return got
            res = pipeline.guarded(interleaved, 'evaluate')
            if res.ok:
                for a, (ga, gb, ga2), xa, xb in zip(addrs, res.value, exp_a, exp_b):
                    r.ev()
                    r.count('interleaved_executor_checks')
                    same3 = lambda g, x: (g.ok == x.ok) and (not x.ok or (type(g.value) is type(x.value) and g.value == x.value))      # noqa: E731
                    if not (same3(ga, xa) and same3(gb, xb) and same3(ga2, xa)):
                        report(r, ID, None, {'formula': where[a], 'valuation_A': va, 'valuation_B': vb, 'sequence': 'A.get, B.get, A.get on one class object'},
                               {'A': ga.brief(), 'B': gb.brief(), 'A_again': ga2.brief()}, {'A': xa.brief(), 'B': xb.brief()}, monitor='two-executors-one-class')
        if off == 0:
            r.sample({'formulas': batch[:4], 'valuations': [VALUATIONS[v] for v in vals][:2]})


def run_literals(shard, ctx):
    r, rng = ctx.r, ctx.rng
    texts = set()
    while len(texts) < shard['n']:
        c = rng.random()
        ip = rng.choice([0, 1, 2, 7, 12, 123, 99999, rng.randrange(1000)])
        nd = rng.randrange(1, 5)
        frac = f'{rng.randrange(10 ** nd):0{nd}d}'
        if c < 0.7:
            texts.add(f'{ip}.{frac}')
        elif c < 0.85:
            texts.add(f'{ip}.{frac}e{rng.choice(["", "-"])}{rng.randrange(0, 9)}')
        elif c < 0.95:
            texts.add(f'{rng.randrange(1, 1000)}e{rng.choice(["", "-"])}{rng.randrange(0, 7)}')
        else:
            texts.add(str(rng.randrange(0, 10 ** rng.randrange(1, 16))))
    # whole numbers no double holds exactly (beyond 2^53), written out or with an exponent: an Excel number is a double
    big = {'9007199254740993', '9007199254740994', '9007199254740995', '18014398509481985', '123456789012345678', '99999999999999999999', '1e22', '1e23', '7e300', '1e308',
           '179769313486231570' + '0' * 291}
    while len(big) < 11 + shard['n'] // 20:
        big.add(str(rng.randrange(2 ** 53, 10 ** rng.randrange(17, 30))))
    texts = sorted(texts | big)
    per = 400
    for off in range(0, len(texts), per):
        batch = texts[off:off + per]
        cells = {f'A{i + 1}': '=' + t for i, t in enumerate(batch)}
        book = pipeline.Book(wbspec.spec(wbspec.sheet('S1', cells)), ctx.workdir, name=f'lit{off}')
        r.count('books:' + book.mode)
        for i, t in enumerate(batch):
            out = book.value(0, f'A{i + 1}')
            r.ev()
            exp = float(t) if ('.' in t or 'e' in t or int(t) > 2 ** 53) else int(t)
            if t in big:
                r.count('literals_beyond_2^53')
            if not outcome_matches(out, [exp], exact=True) or (t in big and out.ok and type(out.value) is not float):
                report(r, ID, None, {'formula': '=' + t, 'literal': True}, out.brief(), exp, monitor='literal-nearest-double')
            r.nt('L' + t)
        # ... and arithmetic on them rounds and overflows like arithmetic on doubles
        bigs = [t for t in batch if t in big]
        if bigs:
            cells2 = {}
            for i, t in enumerate(bigs):
                cells2[f'A{i + 1}'] = f'={t}+1'
                cells2[f'B{i + 1}'] = f'={t}*3-{t}*3'
                cells2[f'C{i + 1}'] = f'=IFERROR({t}*1e10*1e300,"overflow")'
            book2 = pipeline.Book(wbspec.spec(wbspec.sheet('S1', cells2)), ctx.workdir, name=f'big{off}')
            for i, t in enumerate(bigs):
                x = float(t)
                for col, exp in (('A', x + 1), ('B', x * 3 - x * 3), ('C', 'overflow' if x * 1e10 * 1e300 == float('inf') else x * 1e10 * 1e300)):
                    out = book2.value(0, f'{col}{i + 1}')
                    r.ev()
                    if isinstance(exp, float) and (exp != exp or abs(exp) == float('inf')):
                        r.count('overflowed_results_unjudged')      # what a cell shows for an overflow is outside the statement
                        continue
                    r.count('arithmetic_on_literals_beyond_2^53')
                    if not outcome_matches(out, [exp], exact=True):
                        report(r, ID, None, {'formula': cells2[f'{col}{i + 1}'], 'literal': True}, out.brief(), exp, monitor='literal-nearest-double')
    r.sample({'literals': ['=' + t for t in texts[:5]]})


SHEET_TITLES = ['1', '2', '0', '3', '10', '2024', 'Data_2', 'my sheet', '\u041b\u0438\u0441\u04421', 'A1', 'TRUE', 'x.y', 'S', '01']


def qual(title):
    simple = title.isascii() and title.replace('_', '').isalnum() and not title[0].isdigit() and title not in ('A1', 'TRUE')
    return (title if simple else "'" + title + "'") + '!'


def run_sheets(shard, ctx):
    """operands living on other worksheets - titles that are all digits (and differ from the sheet's own position), quoted titles,
    titles shaped like addresses - supplied by the workbook and by overrides addressed by title or by index"""
    from excel2pycl import Cell
    r, rng = ctx.r, ctx.rng
    for b in range(shard['n']):
        ns = rng.randrange(3, 6)
        while True:
            titles = rng.sample(SHEET_TITLES, ns)
            # at least one all-digit title below the sheet count that is not the position of its sheet
            if any(t.isdigit() and int(t) < ns and int(t) != i for i, t in enumerate(titles)):
                break
        sheets = []
        for si, t in enumerate(titles):
            cells = {f'{c}1': (si + 1) * 10 + k + (0.5 if k == 3 else 0) for k, c in enumerate('ABCDE')}
            cells.update({'A2': f't{si}', 'B2': 'bb'})
            sheets.append(wbspec.sheet(t, cells))
        calc = rng.randrange(ns)
        where = {}
        for i in range(24):
            n_op = rng.randrange(2, 5)
            parts = []
            for k in range(n_op):
                t = rng.choice(titles)
                a = rng.choice(NCELLS) if rng.random() < 0.85 else rng.choice(['A2', 'B2'])
                parts.append((qual(t) if (t != titles[calc] or rng.random() < 0.5) else '') + a)
                if k < n_op - 1:
                    parts.append(rng.choice(['+', '-', '*', '/', '&', '=', '<', '>=', '<>']))
            f = '=' + ''.join(parts)
            addr = f'J{i + 4}'
            sheets[calc]['cells'][addr] = f
            where[addr] = f
        spec = wbspec.spec(*sheets)
        book = pipeline.Book(spec, ctx.workdir, name=f'sh{b}')
        r.count('books:' + book.mode)
        if book.cls is None:
            report(r, ID, None, {'spec': spec}, book.whole.brief(), 'a workbook with cross-sheet operands translates', monitor='operator-semantics')
            continue
        vals = [[]]
        for _ in range(3):
            vals.append([(rng.randrange(ns), rng.choice(NCELLS), rng.choice([-4, 2.5, 7, 0.5, 100, 0, 3])) for _ in range(rng.randrange(1, 5))])
        for vi, val in enumerate(vals):
            ov = {(titles[s], *wbspec.rc(a)): v for (s, a, v) in val}
            by_title = vi % 2 == 1
            for addr, f in where.items():
                try:
                    outs, _ = evalr.outcomes(evalr.Env(spec, ov), titles[calc], addr, strict_text=True)
                except (evalr.NoOpinion, ParseError, evalr.Cycle):
                    r.count('ref_no_opinion')
                    continue

                def lib():
                    ex = pipeline.Executor().set_executed_class(class_object=book.cls)
                    if val:
                        ex.set_cells([Cell(titles[s], a[0], a[1:], v) if by_title else pipeline.ncell(s, *wbspec.rc(a), v) for (s, a, v) in val])
                    return ex.get_cell(Cell(titles[calc], addr[0], addr[1:]) if by_title else pipeline.ncell(calc, *wbspec.rc(addr))).value
                out = pipeline.guarded(lib, 'evaluate')
                r.ev()
                r.count('cross_sheet_operand_evaluations')
                if not outcome_matches(out, outs, exact=False):
                    report(r, ID, None, {'formula': f, 'cell': addr, 'sheet': calc, 'titles': titles, 'overrides': [[s, a, v] for (s, a, v) in val],
                                         'addressed_by': 'title' if by_title else 'index', 'spec': spec}, out.brief(), outs, monitor='operator-semantics')
                r.nt((f, tuple(titles), vi))
    r.sample({'sheet_titles': SHEET_TITLES})


def run_shard(shard, ctx):
    if isinstance(shard, dict) and 'mixed' in shard:
        from ..mixed import run_mixed
        return run_mixed(ctx, ID, shard['n'])
    if shard.get('kind') == 'sheets':
        return run_sheets(shard, ctx)
    if 'replay' in shard:
        c = shard['replay']
        if 'titles' in c:
            ctx.r.inconcl('cross-sheet cases are regenerated from VERIF_SEED; re-run the check with the recorded seed')
            return
        if c.get('literal'):
            t = c['formula'][1:]
            book = pipeline.Book(wbspec.spec(wbspec.sheet('S1', {'A1': c['formula']})), ctx.workdir, name='rep')
            out = book.value(0, 'A1')
            ctx.r.ev()
            exp = float(t) if ('.' in t or 'e' in t) else int(t)
            if not outcome_matches(out, [exp], exact=True):
                ctx.r.violation('literal-nearest-double', c, out.brief(), exp)
            return
        return run_formulas([c['formula']], [c['valuation']], ctx, 'rep')
    if shard['kind'] == 'chains':
        fs = []
        for k in shard['k']:
            fs += list(chain_formulas(k))
        fs = sorted(set(fs))
        if shard.get('sample'):
            ctx.rng.__class__(ctx.seed)  # same shuffle in every shard
            rr = ctx.rng.__class__(ctx.seed * 7919 + 13)
            rr.shuffle(fs)
        fs = [f for i, f in enumerate(fs) if i % shard['parts'] == shard['part']]
        if shard.get('sample'):
            fs = fs[:shard['sample']]
        run_formulas(fs, shard['vals'], ctx, 'ch')
    elif shard['kind'] == 'special':
        run_formulas(SPECIAL, shard['vals'], ctx, 'sp')
    elif shard['kind'] == 'random':
        fs = set()
        while len(fs) < shard['n']:
            fs.add('=' + random_tree(ctx.rng, shard['depth'], ctx.rng.choice('NNNTLL')))
        run_formulas(sorted(fs), shard['vals'], ctx, 'rnd')
    else:
        run_literals(shard, ctx)


def finish(r, tier, seed):
    return {'exhaustive': False,
            'exhaustive_subspaces': ['operator chains of length 1 and 2 over all 11 binary operators with the stated decorations']}


def plan(tier, seed):
    # 'mixed': operators and comparisons over the results of functions (vf/mixed.py)
    return _plan(tier, seed) + [{'mixed': k, 'n': 3 if tier == 'quick' else 60} for k in range(2 if tier == 'quick' else 8)]
