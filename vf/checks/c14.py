"""C14 - lookup and reference functions return the addressed element.

Oracle: vf/xlref (independent linear search / slicing; openpyxl.get_column_letter for ADDRESS letters)."""
import datetime as dt

from openpyxl.utils import get_column_letter

from .. import pipeline, wbspec
from ..findings import report
from ..refcheck import judge_book, replay_case
from ..instr.runtime import RuntimeMonitor
from ..xlref.values import outcome_matches, Err, BLANK, norm, is_num

ID = 'C14'
LEVEL = 'exploration'
RULE = ('lookup tables (key column ascending / unsorted / duplicates / text / with blanks x value columns holding unique '
        'numbers) x lookup values (every key, between, below, above, float equal to an int key) x VLOOKUP exact/approx/default, '
        'MATCH 0/1/default, XMATCH default/first/last, INDEX(MATCH) x result column 1..width; the same lookups over whole-column tables (A:C, A:A) of a data-only sheet whose columns end at different rows; INDEX exhaustive over '
        '(r,c) in [-1..h+2]x[-1..w+2] for every shape <=4x4 incl. 2-argument vector form; ADDRESS for EVERY column '
        '1..16384 x 3 rows; COLUMN over boundary/random columns, sheet-prefixed and absolute spellings, COLUMN() in place. '
        'Approximate modes only on ascending keys. Non-trivial: lookups whose answer is not row 1 / not the first candidate, '
        'INDEX points off the (1,1) corner, ADDRESS columns >= 27, COLUMN >= 2; distinct by (formula, valuation)')
ASSUMPTIONS = ['vf/xlref lookup semantics = the clauses of the statement; case of text keys never differs',
               'openpyxl.utils.get_column_letter is the independent letter oracle', 'descending / binary / wildcard match modes not generated']
FLOORS = {'quick': {'evaluations': 60000, 'nontrivial': 20000}, 'thorough': {'evaluations': 200000, 'nontrivial': 80000}}

FORMS = {
    'H1': '=VLOOKUP(F1,A1:D8,G1,FALSE)', 'H2': '=VLOOKUP(F1,A1:D8,G1,TRUE)', 'H3': '=VLOOKUP(F1,A1:D8,G1)',
    'H4': '=VLOOKUP(F1;A1:D8;G1;0)', 'H5': '=VLOOKUP(F1,A1:D8,ROUND(G1,0),FALSE)', 'H6': '=VLOOKUP(F1,A1:D8,G1/1,0)',
    'I1': '=MATCH(F1,A1:A8,0)', 'I2': '=MATCH(F1,A1:A8,1)', 'I3': '=MATCH(F1,A1:A8)',
    'J1': '=XMATCH(F1,A1:A8)', 'J2': '=XMATCH(F1,A1:A8,0)', 'J3': '=XMATCH(F1,A1:A8,0,1)', 'J4': '=XMATCH(F1,A1:A8,0,-1)',
    'K1': '=INDEX(B1:B8,MATCH(F1,A1:A8,0))', 'K2': '=INDEX(A1:D8,MATCH(F1,A1:A8,0),G1)', 'K3': '=INDEX(C1:C8,XMATCH(F1,A1:A8,0,-1))',
    # the key column read twice in one evaluation, once from the end
    'K4': '=INDEX(A1:A8,XMATCH(F1,A1:A8,0,-1))', 'K5': '=IFERROR(XMATCH(F1,A1:A8,0,-1),0)*100+IFERROR(MATCH(F1,A1:A8,0),0)', 'K6': '=IFERROR(XMATCH(F1,A1:A8,0,-1),0)&"|"&IFERROR(INDEX(A1:D8,2,1),"e")',
}
APPROX = {'H2', 'H3', 'I2', 'I3'}


def make_table(rng, kind):
    n = 8
    if kind == 'asc_int':
        keys = sorted(rng.sample(range(-20, 60), n))
    elif kind == 'asc_float':
        keys = sorted(round(rng.uniform(-5, 30), 2) for _ in range(n))
    elif kind == 'asc_dup':
        base = sorted(rng.sample(range(0, 30), 5))
        keys = sorted(base + rng.sample(base, 3))
    elif kind == 'unsorted':
        keys = rng.sample(range(-20, 60), n)
    elif kind == 'unsorted_dup':
        base = rng.sample(range(0, 30), 5)
        keys = base + rng.sample(base, 3)
        rng.shuffle(keys)
    elif kind == 'text':
        keys = sorted(rng.sample(['apple', 'bee', 'cat', 'dog', 'eel', 'fox', 'gnu', 'hen', 'ibis', 'jay', 'kiwi', 'lynx'], n))
        keys = [k.capitalize() if i % 3 == 1 else k for i, k in enumerate(keys)]      # sorted without regard to case
    elif kind == 'text_unsorted_dup':
        base = rng.sample(['apple', 'bee', 'cat', 'dog', 'eel', 'fox'], 5)
        keys = base + rng.sample(base, 3)
        rng.shuffle(keys)
    elif kind == 'digit_text':
        # texts made of digits are texts: '007', '07' and '7' differ, and their order is the order of texts ('10' < '2' < '9')
        keys = sorted(rng.sample(['007', '07', '7', '10', '2', '9', '100', '31', '0', '00', '25', '250'], n))
    elif kind == 'with_blanks':
        keys = rng.sample(range(1, 40), n)
        for i in rng.sample(range(n), 2):
            keys[i] = None
    elif kind == 'asc_tail_blank':
        # a table sized generously: the ascending keys end before the area does (the value columns may go on)
        m = rng.randrange(3, 7)
        keys = sorted(rng.sample(range(-5, 40), m)) + [None] * (n - m)
    elif kind == 'logical_keys':
        # logicals among the keys: TRUE is not the number 1 and FALSE not 0 (and the other way round)
        keys = rng.sample([True, False, 1, 0, 10, 20, 5, 30, 2, 1.0, 7, 0.0], n)
    elif kind == 'mixed_int_float':
        keys = sorted(rng.sample(range(0, 30), n))
        keys = [float(k) if i % 2 else k for i, k in enumerate(keys)]
    cells = {}
    for i, k in enumerate(keys):
        if k is not None:
            cells[f'A{i + 1}'] = k
        for j, col in enumerate('BCD'):
            if k is not None or kind != 'asc_tail_blank' or rng.random() < 0.5:
                cells[f'{col}{i + 1}'] = 1000 * (j + 2) + i + 1
    return keys, cells


def lookups_for(rng, kind, keys):
    real = [k for k in keys if k is not None]
    out = list(dict.fromkeys(real))
    if kind == 'logical_keys':
        return [1, 0, True, False, 10, 1.0, 0.0, 2, 99]
    if kind == 'digit_text':
        return out + ['0007', '3', '1', '99', '8', '70', '000', '26', 7, 10]
    if kind.startswith('text'):
        out += ['aardvark', 'zebra', 'cow', 'bee ', 7]
        # the same keys in another case: text keys match without regard to case in every lookup function
        out += [k.upper() for k in real[:3]] + [k.capitalize() for k in real[3:5]] + ['COW', 'Zebra']
    else:
        lo, hi = min(real), max(real)
        out += [lo - 1, hi + 1, hi + 100, lo - 0.5]
        if None in keys:
            out += [0, 0.0]          # a blank key cell is not the key 0
        srt = sorted(set(real))
        for a, b in zip(srt, srt[1:]):
            if b - a > 1 or isinstance(a, float) or isinstance(b, float):
                out.append((a + b) / 2)
        out += [float(k) for k in real[:3] if isinstance(k, int)]
        out += [int(k) for k in real if isinstance(k, float) and k == int(k)][:2]
        out += ['text']
    return out


KINDS = ['asc_int', 'asc_float', 'asc_dup', 'unsorted', 'unsorted_dup', 'text', 'text_unsorted_dup', 'with_blanks', 'mixed_int_float', 'digit_text', 'asc_tail_blank', 'logical_keys']


def classify(case, out, outs):
    f = case['formula'] or ''
    ov = {a: v for (_, a, v) in case['overrides']}
    look = ov.get('F1')
    exp = outs[0]
    # recogniser: type gate of _match/_xmatch - a float lookup value never equals an int key (and vice versa)
    if ('MATCH(' in f) and 'VLOOKUP' not in f and is_num(look) and out.ok:
        keys = case.get('keys') or []
        got = norm(out.value)
        same_type_keys = [k if (k is not None and type(k) is type(look)) else None for k in keys]
        from ..xlref import evalr
        try:
            if 'XMATCH' in f and ',-1)' in f:
                pred = evalr.match_pos(look, [BLANK if k is None else k for k in same_type_keys], 0, from_end=True)
            elif f.startswith('=INDEX'):
                pred = None
            else:
                mode = 1 if case['cell'] in APPROX else 0
                pred = evalr.match_pos(look, [BLANK if k is None else k for k in same_type_keys], mode) if mode == 0 else None
        except Exception:
            pred = Err('#N/A')
        if pred is not None and (got == pred or (isinstance(pred, Err) and isinstance(got, Err) and got.kind == '#N/A')):
            return 'KF-C14-match-float-vs-int-gate'
    return None


def _plan(tier, seed):
    shards = []
    nb = 6 if tier == 'quick' else 40
    for i, kind in enumerate(KINDS):
        shards.append({'kind': 'lookup', 'table': kind, 'books': nb})
    shards.append({'kind': 'index'})
    shards.append({'kind': 'horizontal', 'books': 6 if tier == 'quick' else 40})
    shards.append({'kind': 'addressopt', 'books': 3 if tier == 'quick' else 20})
    for k in range(2 if tier == 'quick' else 6):
        shards.append({'kind': 'bigtable', 'books': 2 if tier == 'quick' else 5})
    shards.append({'kind': 'wholecol', 'books': 4 if tier == 'quick' else 30})
    for part in range(4):
        shards.append({'kind': 'address', 'part': part, 'parts': 4})
    shards.append({'kind': 'column', 'n': 300 if tier == 'quick' else 5000})
    return shards


def run_lookup(shard, ctx):
    r, rng = ctx.r, ctx.rng
    kind = shard['table']
    for bi in range(shard['books']):
        keys, cells = make_table(rng, kind)
        cells.update({'F1': 1, 'G1': 2})
        asc = kind.startswith('asc') or kind in ('text', 'mixed_int_float')
        targets = []
        for addr, f in FORMS.items():
            if addr in APPROX and not asc:
                continue
            cells[addr] = f
            targets.append((0, addr))
        spec = wbspec.spec(wbspec.sheet('T', cells))
        vals = []
        for lv in lookups_for(rng, kind, keys):
            for col in ([1, 2, 3, 4] if bi % 2 == 0 else [rng.randrange(1, 5), rng.choice([0, 5, -1, 6, 2.0])]):
                vals.append([(0, 'F1', lv), (0, 'G1', col)])

        if None in keys and not kind.startswith('text'):
            # the free rows of a generously sized table get a key and entries through overrides: the row is part of the table from then on
            free = [i for i, k in enumerate(keys) if k is None]
            real = [k for k in keys if k is not None]
            for row0 in free[:2]:
                newkey = (max(real) + 5 + row0) if (asc or row0 == free[0]) else min(real) - 3
                if asc and row0 != min(free):
                    continue          # ascending keys stay ascending only when the first free row below the data is filled
                fill = [(0, f'A{row0 + 1}', newkey)] + [(0, f'{col}{row0 + 1}', 7000 + 100 * j + row0) for j, col in enumerate('BCD')]
                for lv in (newkey, newkey + 1, max(real)):
                    vals.append(fill + [(0, 'F1', lv), (0, 'G1', rng.randrange(1, 5))])
                r.count('overrides_filling_a_blank_key_row')

        def nontrivial(case, outs):
            e = outs[0]
            return not (is_num(e) and e in (1, 2001))

        # the statement names the error value for a failed lookup itself (#N/A); for INDEX(MATCH(absent)) any error will do
        judge_book(ctx, ID, spec, targets, vals, exact=True, err_exact=lambda case: not case['formula'].startswith('=INDEX'),
                   classify=classify, nontrivial=nontrivial, name=f'lk{bi}', case_extra={'keys': keys, 'table': kind}, monitor='lookup-reference')
        if bi == 0:
            r.sample({'table': kind, 'keys': keys, 'formulas': list(FORMS.values())[:5], 'lookups': [v[0][2] for v in vals[:6]]})


def run_wholecol(shard, ctx):
    """lookup tables given as whole columns (A:C, A:A) on a data-only sheet whose columns end at different rows: the table still has the
    rows in which only the key column holds something"""
    r, rng = ctx.r, ctx.rng
    for bi in range(shard['books']):
        n = rng.randrange(6, 11)
        keys = sorted(rng.sample(range(1, 90), n))
        data = {}
        h2, h3 = rng.randrange(2, n), rng.randrange(1, n + 1)
        for i, k in enumerate(keys):
            data[f'A{i + 1}'] = k
            if i < h2:
                data[f'B{i + 1}'] = 2000 + i + 1
            if i < h3 and rng.random() < 0.8:
                data[f'C{i + 1}'] = 3000 + i + 1
        forms = {'F1': 1, 'G1': 2,
                 'H1': "=VLOOKUP(F1,Data!A:C,G1,FALSE)", 'H2': "=VLOOKUP(F1,'Data'!$A:$C,G1,TRUE)", 'H3': '=VLOOKUP(F1,Data!A:B,2,FALSE)', 'H4': '=VLOOKUP(F1,Data!A:A,1,TRUE)',
                 'I1': '=MATCH(F1,Data!A:A,0)', 'I2': '=MATCH(F1,Data!A:A,1)', 'J1': '=XMATCH(F1,Data!A:A)', 'J2': '=XMATCH(F1,Data!A:A,0,-1)',
                 'K1': '=INDEX(Data!A:C,MATCH(F1,Data!A:A,0),1)', 'K2': '=INDEX(Data!A:A,G1)'}
        spec = wbspec.spec(wbspec.sheet('Calc', forms), wbspec.sheet('Data', data))
        targets = [(0, a) for a in forms if a not in ('F1', 'G1')]
        vals = []
        for lv in keys + [keys[0] - 1, keys[-1] + 5, (keys[0] + keys[1]) / 2]:
            for col in (1, 2, 3):
                vals.append([(0, 'F1', lv), (0, 'G1', col)])
        judge_book(ctx, ID, spec, targets, vals, exact=True, err_exact=lambda case: not case['formula'].startswith('=INDEX'), classify=classify,
                   nontrivial=lambda case, outs: True, name=f'wc{bi}', case_extra={'keys': keys, 'table': 'wholecol'}, monitor='lookup-reference')
    r.sample({'table': 'whole columns of uneven height', 'formulas': ['=VLOOKUP(F1,Data!A:C,G1,FALSE)', '=MATCH(F1,Data!A:A,1)']})


HFORMS = {
    'B5': '=MATCH(F5,A1:H1,0)', 'B6': '=MATCH(F5,A1:H1,1)', 'B7': '=MATCH(F5,$A$1:$H$1)', 'B8': '=XMATCH(F5,A1:H1)', 'B9': '=XMATCH(F5,A1:H1,0,-1)',
    'B10': '=INDEX(A2:H2,MATCH(F5,A1:H1,0))', 'B11': '=INDEX(A1:H3,G5,MATCH(F5,A1:H1,0))', 'B12': '=MATCH(F5,C1,0)', 'B13': '=MATCH(F5,C1:C1,0)',
    'B14': '=XMATCH(F5,D1:D1)', 'B15': '=MATCH(F5,C1,1)', 'B16': '=INDEX(A3:H3,XMATCH(F5,A1:H1,0,-1))', 'B17': '=MATCH(F5,B1:G1,0)', 'B18': '=IFERROR(MATCH(F5,B1:G1,0),0)+IFERROR(MATCH(F5,A1:A3,0),0)',
}
HAPPROX = {'B6', 'B7', 'B15'}


def run_horizontal(shard, ctx):
    """key vectors lying in a ROW (the header row of a table) and single-cell key vectors: the position is counted along the row"""
    r, rng = ctx.r, ctx.rng
    for bi in range(shard['books']):
        kind = ['asc', 'unsorted', 'dup', 'text', 'gaps'][bi % 5]
        n = 8
        if kind == 'asc':
            keys = sorted(rng.sample(range(-9, 50), n))
        elif kind == 'unsorted':
            keys = rng.sample(range(-9, 50), n)
        elif kind == 'dup':
            base = rng.sample(range(0, 20), 5)
            keys = base + rng.sample(base, 3)
            rng.shuffle(keys)
        elif kind == 'text':
            keys = rng.sample(['apple', 'bee', 'cat', 'dog', 'eel', 'fox', 'gnu', 'hen', 'ibis', 'jay'], n)
        else:
            keys = rng.sample(range(1, 50), n)
            for i in rng.sample(range(1, n), 2):
                keys[i] = None
        cells = {'F5': keys[0], 'G5': 2}
        for i, k in enumerate(keys):
            col = get_column_letter(i + 1)
            if k is not None:
                cells[f'{col}1'] = k
            cells[f'{col}2'] = 2000 + i + 1
            cells[f'{col}3'] = 3000 + i + 1
        targets = []
        for addr, f in HFORMS.items():
            if addr in HAPPROX and kind != 'asc':
                continue
            cells[addr] = f
            targets.append((0, addr))
        spec = wbspec.spec(wbspec.sheet('T', cells))
        real = [k for k in keys if k is not None]
        looks = list(dict.fromkeys(real)) + (['zebra', 'BEE', 'Cat'] if kind == 'text' else [min(real) - 1, max(real) + 3, 0, float(real[1])])
        vals = [[(0, 'F5', lv), (0, 'G5', g)] for lv in looks for g in ((1, 2, 3) if bi % 2 == 0 else (rng.randrange(1, 4),))]
        judge_book(ctx, ID, spec, targets, vals, exact=True, err_exact=lambda case: not case['formula'].startswith('=INDEX'),
                   classify=classify, nontrivial=lambda case, outs: not (is_num(outs[0]) and outs[0] == 1), name=f'hz{bi}',
                   case_extra={'keys': keys, 'table': 'row:' + kind}, monitor='lookup-reference')
        r.count('horizontal_key_vectors')
    r.sample({'table': 'keys in a row / a single cell', 'formulas': list(HFORMS.values())[:6]})


def run_addressopt(shard, ctx):
    """the optional arguments of ADDRESS (kind of reference 1-4, A1 / R1C1 style, sheet name) given as literals, cells and conditionals:
    they are VALUES; the statement's clause ADDRESS(r,c) must keep holding whatever the third argument is computed from"""
    r, rng = ctx.r, ctx.rng
    names = ['Sh', 'Data_1', 'My Sheet', 'A1', 'x-y', 'Лист', 'T']
    for bi in range(shard['books']):
        cells = {'F1': 3, 'G1': 2, 'K1': 1, 'L1': True, 'M1': 'Sh', 'N1': 5}
        forms = ['=ADDRESS(F1,G1,K1)', '=ADDRESS(F1,G1,IF(N1>3,4,1))', '=ADDRESS(F1,G1,K1,L1)', '=ADDRESS(F1,G1,K1,L1,M1)', '=ADDRESS(F1,G1,IFS(N1>3,2,TRUE,3),N1>3)',
                 '=ADDRESS(F1,G1,4,TRUE,M1)', '=ADDRESS(F1,G1,1,FALSE,"Sh")', '=ADDRESS(F1,G1,2,0)', '=ADDRESS(F1,G1,3,1,"My Sheet")', '=ADDRESS(F1,G1,SUM(K1,0),TRUE,M1&"")',
                 '=ADDRESS(F1,G1,MIN(K1,4))', '=ADDRESS(F1;G1;K1;L1)', '=ADDRESS(F1,G1,4)&"|"&ADDRESS(G1,F1,K1)', '=ADDRESS(F1,G1,K1,N1>3,IF(N1>3,M1,"Other"))',
                 f'=ADDRESS({rng.randrange(1, 99)},{rng.randrange(1, 700)},{rng.randrange(1, 5)})', f'=ADDRESS({rng.randrange(1, 99)},{rng.randrange(1, 700)},{rng.randrange(1, 5)},FALSE)']
        targets = []
        for i, f in enumerate(forms):
            cells[f'H{i + 1}'] = f
            targets.append((0, f'H{i + 1}'))
        spec = wbspec.spec(wbspec.sheet('T', cells))
        vals = []
        for _ in range(30 if ctx.tier == 'quick' else 80):
            vals.append([(0, 'F1', rng.choice([1, 7, 77, 1048576, rng.randrange(1, 5000)])), (0, 'G1', rng.choice([1, 26, 27, 52, 702, 703, 16384, rng.randrange(1, 16385)])),
                         (0, 'K1', rng.randrange(1, 5)), (0, 'L1', rng.choice([True, False, 1, 0])), (0, 'M1', rng.choice(names)), (0, 'N1', rng.choice([1, 5]))])
        judge_book(ctx, ID, spec, targets, vals, exact=True, nontrivial=lambda case, outs: True, name=f'ao{bi}', monitor='address-optional-arguments')
        r.count('address_optional_argument_books')
    r.sample({'fn': 'ADDRESS with 3-5 arguments', 'formulas': ['=ADDRESS(F1,G1,IF(N1>3,4,1))', '=ADDRESS(F1,G1,K1,L1,M1)']})


def run_bigtable(shard, ctx):
    """key columns of more than a thousand rows (a price list, a calendar): the same clauses - the last row included when the value
    exceeds every key - whatever strategy an implementation chooses for long vectors"""
    r, rng = ctx.r, ctx.rng
    for bi in range(shard['books']):
        n = rng.choice([1001, 1024, 1200, 2047]) if bi else 1200
        step = rng.choice([1, 3, 10])
        start = rng.randrange(-50, 50)
        kind = ['int', 'float', 'mixed', 'one-text', 'one-blank'][bi % 5]
        cells = {'F1': start, 'G1': 2}
        keys = []
        for i in range(n):
            k = start + i * step
            if kind == 'float' or (kind == 'mixed' and i % 2):
                k = k + 0.5
            keys.append(k)
            cells[f'A{i + 1}'] = k
            cells[f'B{i + 1}'] = 100000 + i
        if kind == 'one-text':
            cells[f'C{n // 2}'] = 'note'
        if kind == 'one-blank':
            del cells[f'B{n // 3}']
        forms = {'H1': f'=MATCH(F1,A1:A{n},1)', 'H2': f'=MATCH(F1,A1:A{n})', 'H3': f'=MATCH(F1,A1:A{n},0)', 'H4': f'=VLOOKUP(F1,A1:B{n},2,TRUE)', 'H5': f'=VLOOKUP(F1,A1:B{n},G1)',
                 'H6': f'=INDEX(B1:B{n},MATCH(F1,A1:A{n},1))', 'H7': f'=XMATCH(F1,A1:A{n})', 'H8': f'=XMATCH(F1,A1:A{n},0,-1)', 'H9': f'=VLOOKUP(F1,A1:B{n},2,FALSE)',
                 'H10': f'=INDEX(A1:B{n},MATCH(F1,A1:A{n}),2)'}
        cells.update(forms)
        spec = wbspec.spec(wbspec.sheet('T', cells))
        looks = [keys[0], keys[0] - 1, keys[-1], keys[-1] + 1, keys[-1] + 7, keys[-2], keys[n // 2], keys[n // 2] + step / 2, keys[999], keys[1000], keys[-1] - step / 4, float(keys[-1])]
        vals = [[(0, 'F1', lv), (0, 'G1', rng.choice([1, 2]))] for lv in looks]
        judge_book(ctx, ID, spec, [(0, a) for a in forms], vals, exact=True, err_exact=lambda case: not case['formula'].startswith('=INDEX'), classify=classify,
                   nontrivial=lambda case, outs: True, name=f'big{bi}', case_extra={'keys': f'{n} ascending keys from {start} step {step} ({kind})', 'table': 'big'},
                   monitor='lookup-reference', pairs=False)
        r.count('key_columns_over_1000_rows')
    r.sample({'table': 'key columns of 1001-2047 rows', 'lookups': 'first, below, last, above the last, between, around row 1000'})


def run_index(shard, ctx):
    r = ctx.r
    cells = {'F1': 1, 'G1': 1}
    for i in range(1, 6):
        for j in range(1, 6):
            cells[wbspec.a1(1 + i, 1 + j)] = 100 * i + j
    targets, shapes = [], {}
    row = 10
    for h in range(1, 5):
        for w in range(1, 5):
            end = wbspec.a1(1 + h, 1 + w)
            a = f'J{row}'
            cells[a] = f'=INDEX(B2:{end},F1,G1)'
            shapes[a] = (h, w)
            targets.append((0, a))
            row += 1
            if h == 1 or w == 1:
                a = f'J{row}'
                cells[a] = f'=INDEX(B2:{end},F1)'
                shapes[a] = (h, w)
                targets.append((0, a))
                row += 1
    # positions written as constants, the area on this sheet or on another one whose cells differ at the same coordinates
    other = {wbspec.a1(1 + i, 1 + j): 9000 + 100 * i + j for i in range(1, 6) for j in range(1, 6)}
    const_targets = []
    crow = 1
    for pre in ('', 'Other!', "'Other'!", 'T!'):
        for (h, w) in ((4, 4), (1, 4), (4, 1), (2, 3)):
            for rr in range(0, h + 2):
                for cc in range(0, w + 2):
                    if (rr == 0 and cc == 0) or (ctx.tier == 'quick' and (rr * 7 + cc * 3 + h + len(pre)) % 3):
                        continue
                    end = wbspec.a1(1 + h, 1 + w)
                    a = wbspec.a1(crow, 12 + (len(const_targets) % 6))
                    crow += (len(const_targets) % 6 == 5)
                    area = f'{pre}B2:{end}' if rr % 2 else f'{pre}$B$2:{end[0]}${end[1:]}'
                    cells[a] = f'=INDEX({area},{rr},{cc})'
                    const_targets.append((0, a))
    other['A9'] = '=INDEX(T!B2:E5,2,3)+INDEX(B2:E5,2,3)'
    spec = wbspec.spec(wbspec.sheet('T', cells), wbspec.sheet('Other', other))
    vals = [[(0, 'F1', rr), (0, 'G1', cc)] for rr in range(-1, 7) for cc in range(-1, 7)]
    judge_book(ctx, ID, spec, const_targets + [(1, 'A9')], [[], [(0, 'C3', -1), (1, 'C3', -2), (1, 'D3', -3), (0, 'D3', -4)]], exact=True, err_exact=True,
               nontrivial=lambda case, outs: True, name='indexc', monitor='index-reference')
    r.count('index_constant_position_formulas', len(const_targets))

    def classify_i(case, out, outs):
        ov = {a: v for (_, a, v) in case['overrides']}
        if (ov['F1'] < 0 or (ov['G1'] < 0 and ',G1' in case['formula'])) and out.ok and not isinstance(norm(out.value), Err):
            return 'KF-C14-index-negative-wraps'
        return None

    def nontrivial(case, outs):
        ov = {a: v for (_, a, v) in case['overrides']}
        return (ov['F1'], ov['G1']) != (1, 1)

    judge_book(ctx, ID, spec, targets, vals, exact=True, err_exact=True, classify=classify_i, nontrivial=nontrivial,
               name='index', monitor='index-reference')
    r.sample({'index_shapes': '1x1..4x4', 'points': '[-1..6]x[-1..6]', 'formulas': [cells['J10'], cells['J11']]})


def run_address(shard, ctx):
    r = ctx.r
    spec = wbspec.spec(wbspec.sheet('T', {'F1': 1, 'G1': 1, 'H1': '=ADDRESS(F1,G1)', 'H2': '=ADDRESS(F1;G1)'}))
    book = pipeline.Book(spec, ctx.workdir, name='addr')
    if book.cls is None:
        r.violation('translate', {'spec': 'address'}, book.whole.brief(), 'a loadable class')
        return
    RuntimeMonitor(r).install(book.cls)
    cols = shard.get('cols') or [c for c in range(1, 16385) if c % shard['parts'] == shard['part']]
    nt = 0
    for c in cols:
        for row in (1, 77, 1048576):
            out = book.value(0, 'H1' if row != 77 else 'H2', [(0, 'F1', row), (0, 'G1', c)])
            r.ev()
            exp = f'${get_column_letter(c)}${row}'
            if not outcome_matches(out, [exp]):
                report(r, ID, None, {'fn': 'ADDRESS', 'row': row, 'col': c}, out.brief(), exp, monitor='address-letters')
            if c >= 27:
                nt += 1
    r.nontrivial_disjoint += nt
    r.sample({'fn': 'ADDRESS', 'columns': 'all 1..16384', 'rows': [1, 77, 1048576]})


def run_column(shard, ctx):
    r, rng = ctx.r, ctx.rng
    boundary = [1, 2, 25, 26, 27, 28, 51, 52, 53, 701, 702, 703, 704, 728, 729, 1378, 16383, 16384, 18278 // 2]
    cols = boundary + [rng.randrange(1, 16385) for _ in range(shard['n'])]
    per = 150
    for off in range(0, len(cols), per):
        batch = cols[off:off + per]
        cells, targets = {'B1': 5}, []
        s2 = {'B2': 7}
        for i, c in enumerate(batch):
            L = get_column_letter(c)
            rown = rng.choice([1, 9, 10, 99, 1000, 65536])
            form = rng.choice([f'{L}{rown}', f'${L}${rown}', f'${L}{rown}', f'{L}${rown}', f"Other!{L}{rown}", f"'Other'!${L}{rown}",
                               f'{L}{rown}:{L}{rown + 3}'])
            if c == 1 and ':' in form:
                form = f'$A${rown}'   # a range in the formulas' own column would be a circular reference
            a = f'A{i + 3}'
            cells[a] = f'=COLUMN({form})'
            targets.append((0, a))
        # COLUMN() in place, a few near columns
        for c in (1, 2, 5, 26, 27, 30):
            a = wbspec.a1(1, c) if c > 3 else wbspec.a1(200 + c, c)
            cells[a] = '=COLUMN()'
            targets.append((0, a))
        spec = wbspec.spec(wbspec.sheet('T', cells), wbspec.sheet('Other', s2))
        judge_book(ctx, ID, spec, targets, [[]], exact=True, nontrivial=lambda case, outs: is_num(outs[0]) and outs[0] >= 2,
                   name=f'col{off}', monitor='column-reference')
    # far away COLUMN() through the entry-point API (whole-file translation would pad 16384 columns per row)
    for c in (702, 703, 16384):
        a = f'{get_column_letter(c)}2'
        spec = wbspec.spec(wbspec.sheet('T', {a: '=COLUMN()', 'A1': 1}))
        judge_book(ctx, ID, spec, [(0, a)], [[]], exact=True, per_cell=True, name=f'far{c}', monitor='column-reference')
    # COLUMN of the formula's OWN cell (numbering a header row by fill-right: =COLUMN(A1) typed into A1, =COLUMN(B1) into B1 ...) and of a
    # cell that depends on the formula: COLUMN never reads the value of its reference, so nothing here is circular
    own = {'A1': '=COLUMN(A1)', 'B1': '=COLUMN(B1)', 'C1': '=COLUMN($C$1)*10', 'F3': '=COLUMN(F3)-COLUMN($A3)', 'H1': '=I1*2', 'I1': '=COLUMN(H1)',
           'AB7': '=COLUMN(AB7)', 'D5': "=COLUMN('T'!D5)+COLUMN()", 'E5': '=IF(COLUMN(E5)=5,D5,0)', 'K2': '=SUM(K3:K4)', 'K3': '=COLUMN(K2)', 'K4': 1}
    judge_book(ctx, ID, wbspec.spec(wbspec.sheet('T', own), wbspec.sheet('Other', {'B2': "=COLUMN(T!H1)+T!H1"})),
               [(0, a) for a in own if a != 'K4'] + [(1, 'B2')], [[]], exact=True, name='colown', monitor='column-reference',
               nontrivial=lambda case, outs: True)
    r.count('column_of_own_cell_books')
    # multi-column area: first column
    spec = wbspec.spec(wbspec.sheet('T', {'A1': '=COLUMN(C3:E3)', 'B1': 5, 'C1': 6, 'A2': '=B1+C1', 'H9': '=COLUMN(D5:F9)'}))

    def classify_c(case, out, outs):
        # defect model "multi-column COLUMN spills to the right": the cells right of the formula hold the column numbers
        import copy
        import re
        from ..xlref import evalr
        sp = copy.deepcopy(spec)
        cl = sp['sheets'][0]['cells']
        for a, f in list(cl.items()):
            m = re.match(r'^=COLUMN\(([A-Z]+)\d+:([A-Z]+)\d+\)$', str(f))
            if m:
                from openpyxl.utils import column_index_from_string as ci
                c1, c2 = ci(m.group(1)), ci(m.group(2))
                rr, cc = wbspec.rc(a)
                for k in range(1, c2 - c1 + 1):
                    cl[wbspec.a1(rr, cc + k)] = c1 + k
        try:
            pred, _ = evalr.outcomes(evalr.Env(sp), 'T', case['cell'])
        except Exception:
            return None
        return 'KF-C14-column-multi-area-spill' if outcome_matches(out, pred, exact=True) else None
    judge_book(ctx, ID, spec, [(0, 'A1'), (0, 'A2'), (0, 'H9')], [[]], exact=True, classify=classify_c, name='colarea',
               monitor='column-reference')
    r.sample({'fn': 'COLUMN', 'examples': ['=COLUMN($XFD$1)', "=COLUMN('Other'!$AB7)", '=COLUMN()']})


def run_shard(shard, ctx):
    if isinstance(shard, dict) and 'mixed' in shard:
        from ..mixed import run_mixed
        return run_mixed(ctx, ID, shard['n'])
    if 'replay' in shard:
        c = shard['replay']
        if c.get('fn') == 'ADDRESS':
            return run_address({'cols': [c['col']]}, ctx)
        return replay_case(ctx, ID, c, exact=True, err_exact=lambda case: not case['formula'].startswith('=INDEX(B1') and not case['formula'].startswith('=INDEX(A1:D8,M') and not case['formula'].startswith('=INDEX(C1'), classify=classify)
    {'lookup': run_lookup, 'bigtable': run_bigtable, 'horizontal': run_horizontal, 'addressopt': run_addressopt, 'index': run_index, 'address': run_address, 'column': run_column, 'wholecol': run_wholecol}[shard['kind']](shard, ctx)


def finish(r, tier, seed):
    from ..refcheck import flag_consistency_verdict
    extra = flag_consistency_verdict(r, ID)
    return {**extra, 'helper_calls': {k: v for k, v in r.counters.items() if k.startswith('helper:')}, 'exhaustive': False,
            'exhaustive_subspaces': ['ADDRESS over all columns 1..16384 x rows {1,77,1048576}',
                                     'INDEX over (r,c) in [-1..6]^2 for all area shapes up to 4x4']}


def plan(tier, seed):
    # 'mixed': nests over the whole function set that use at least one function of this property (vf/mixed.py)
    return _plan(tier, seed) + [{'mixed': k, 'n': 3 if tier == 'quick' else 60} for k in range(3 if tier == 'quick' else 8)]
