"""C05 - a formula is translated whole or rejected - never silently truncated.

Deciding monitors: parser conservation (EntryPointToken.get returned a token and an empty rest whenever code was
emitted), lexer conservation, arity table, whitespace/separator invariance, and - for accepted texts on which the
reference has an opinion - agreement with the reference's parse of the COMPLETE text.  Operand conservation (vf/instr/translate.py): every reference token the lexer produced was
resolved by the translator and every literal token left its code in what was emitted."""
import os
import re

from .. import pipeline, wbspec
from ..findings import report
from ..instr.translate import TranslateMonitor
from ..xlref import evalr
from ..xlref.parser import ParseError
from ..xlref.values import ERROR_TEXTS, Err, outcome_matches
from . import c01

ID = 'C05'
LEVEL = 'exploration'
RULE = ('base corpus of valid formulas (operator chains/trees of C01 + one or more formulas per supported function) each mutated '
        'by: append / insert / delete a token, duplicate an operator, drop / add a bracket, add an argument, make two operands '
        'adjacent, double a quote, upper-case exponent, trailing %, operand % operand; empty arguments (doubled / leading / trailing separators, must be refused); whitespace (blank, tab, newline x1-3) inserted at every token '
        'boundary; "," <-> ";" swapped; every supported function x 0..7 arguments (exhaustive). Each text is translated through '
        'the entry-point API with conservation monitors on Lexer.parse / EntryPointToken.get. Non-trivial: a mutant that is not '
        'itself a valid formula of the reference grammar (reject side), or a whitespace/separator variant, or an arity outside '
        'the table; distinct by text')
ASSUMPTIONS = ['arity table transcribed from the pinned grammar (composite_tokens) = "the supported grammar"',
               'the reference rejecting a text the library consumes completely is not a violation; the library rejecting a text the reference accepts is allowed']
FLOORS = {'quick': {'evaluations': 4000, 'nontrivial': 2500, 'counters': {'entrypoint_parses': 3000, 'lexer_sessions': 3000}},
          'thorough': {'evaluations': 60000, 'nontrivial': 40000, 'counters': {'entrypoint_parses': 40000, 'lexer_sessions': 40000}}}

BASEC = {'A1': 2, 'B1': 3, 'C1': 5, 'D1': 7, 'E1': 11, 'F1': 13, 'A2': 'a', 'B2': 'bb', 'C2': 'ccc', 'D2': 'd', 'E2': 'ee',
         'A3': 1, 'B3': 10, 'A4': 2, 'B4': 20, 'A5': 3, 'B5': 30}

# function -> (allowed argument counts, argument texts by position; the last one is repeated for higher arities)
ARITY = {
    'IF': ({2, 3}, ['A1>1', '"y"', '"n"', '1']), 'IFS': ({2, 4, 6}, ['A1>9', '1', 'A1>1', '2', 'TRUE', '3', '4']),
    'IFERROR': ({2}, ['A1/0', '7', '1']), 'SUM': (set(range(1, 8)), ['A1:C1', '1', 'A1', '2', '3', '4', '5']),
    'AVERAGE': (set(range(1, 8)), ['A1:C1', '1', 'A1', '2', '3', '4', '5']), 'MIN': (set(range(1, 8)), ['A1:C1', '1', 'A1', '2', '3', '4', '5']),
    'MAX': (set(range(1, 8)), ['A1:C1', '1', 'A1', '2', '3', '4', '5']), 'COUNT': (set(range(1, 8)), ['A1:C1', '1', 'A1', '2', '3', '4', '5']),
    'COUNTBLANK': (set(range(1, 8)), ['A1:C1', 'A2:C2', 'A1', 'B1', 'C1', 'D1', 'E1']), 'AND': (set(range(1, 8)), ['A1>1', 'TRUE', '1', '1', '1', '1', '1']),
    'OR': (set(range(1, 8)), ['A1>1', 'FALSE', '0', '0', '0', '0', '0']), 'ROUND': ({2}, ['A1/3', '2', '1']), 'ROUNDUP': ({1, 2}, ['A1/3', '2', '1']),
    'ROUNDDOWN': ({1, 2}, ['A1/3', '2', '1']), 'VLOOKUP': ({3, 4}, ['A4', 'A3:B5', '2', 'FALSE', '1']), 'MATCH': ({2, 3}, ['A4', 'A3:A5', '0', '1']),
    'XMATCH': ({2, 3, 4}, ['A4', 'A3:A5', '0', '1', '1']), 'INDEX': ({2, 3, 4}, ['A3:B5', '2', '2', '1', '1']), 'ADDRESS': ({2, 3, 4, 5}, ['A1', 'B1', '1', 'TRUE', '"S"', '1', '1']),
    'COLUMN': ({0, 1}, ['B3', '1']), 'DATE': ({3}, ['2024', 'A1', 'B1', '1']), 'YEAR': ({1}, ['DATE(2024,1,2)', '1']), 'MONTH': ({1}, ['DATE(2024,1,2)', '1']),
    'DAY': ({1}, ['DATE(2024,1,2)', '1']), 'EDATE': ({2}, ['DATE(2024,1,31)', '1', '1']), 'EOMONTH': ({2}, ['DATE(2024,1,31)', '1', '1']),
    'DATEDIF': ({3}, ['DATE(2024,1,31)', 'DATE(2024,3,1)', '"D"', '1']), 'NETWORKDAYS': ({2, 3}, ['DATE(2024,1,1)', 'DATE(2024,1,31)', 'A3:A5', '1']),
    'TODAY': ({0}, ['1']), 'LEFT': ({1, 2}, ['C2', '2', '1']), 'RIGHT': ({1, 2}, ['C2', '2', '1']), 'MID': ({3}, ['C2', '2', '1', '1']),
    'CONCATENATE': (set(range(1, 8)), ['A2', 'B2', '"x"', 'A1', '1', '2', '3']), 'SEARCH': ({2, 3}, ['"c"', 'C2', '1', '1']), 'VALUE': ({1}, ['"12"', '1']),
    'TEXT': ({2}, ['A1', '"0"', '1']), 'SUMIF': ({2, 3}, ['A3:A5', '">1"', 'B3:B5', '1']), 'SUMIFS': ({3, 5, 7}, ['B3:B5', 'A3:A5', '">1"', 'A3:A5', '"<3"', 'B3:B5', '">0"']),
    'COUNTIFS': ({2, 4, 6}, ['A3:A5', '">1"', 'B3:B5', '">10"', 'A3:A5', '"<3"', '1']), 'AVERAGEIFS': ({3, 5, 7}, ['B3:B5', 'A3:A5', '">1"', 'A3:A5', '"<3"', 'B3:B5', '">0"']),
}

FUNC_FORMULAS = [f'={n}({",".join(args[:max(a for a in al if a <= len(args))])})' for n, (al, args) in ARITY.items()] + [
    '=IF(A1>1,SUM(A1:C1),"n")', '=ROUND(SUM(A1:C1)/3,2)&"x"', '=IFERROR(VLOOKUP(9,A3:B5,2,FALSE),"none")', '=LEFT(C2,2)&RIGHT(C2,1)',
    '=INDEX(B3:B5,MATCH(2,A3:A5,0))', '=COUNTIFS(A3:A5,">"&A3)', '=SUM(A1:C1)*2+MAX(A1,B1)', '=IF(AND(A1>1,B1<5),"in","out")', '=1.5e3+2e-2', '="a"&"b"']

_TOK = re.compile(r'"[^"]*"|\d+(?:\.\d+)?(?:e-?\d+)?(?![A-Za-z_$!\'\d.:])|[A-Za-z_$!\'\d.:]+|<>|>=|<=|\S')


def split(formula):
    return _TOK.findall(formula[1:])


def mutants(f, rng, k):
    toks = split(f)
    out = set()
    pool = ['1', 'A1', '"x"', '+', '*', '&', '=', '<', ')', '(', ',', ';', '%', 'SUM', 'B2', '2.5', 'TRUE', '-', ':', '!', '$', '.', '#',
            # pieces real workbook files contain around formulas (future-function prefixes, implicit intersection, structured references,
            # array constants, error literals): none of them is in the grammar, a lexer that skips one accepts a malformed text
            '_xlfn.', '_xlws.', '_xlpm.', '@', '[#This Row]', '{1,2}', '#REF!', '#N/A', "''", '_', 'xlfn', '\\', '^', '~', '|', '\u00a0', '\u200b']
    for _ in range(k):
        t = list(toks)
        m = rng.randrange(17)
        i = rng.randrange(len(t)) if t else 0
        if m == 0:
            t.append(rng.choice(pool))
        elif m == 1:
            t.insert(i, rng.choice(pool))
        elif m == 2 and t:
            del t[i]
        elif m == 3:
            ops = [j for j, x in enumerate(t) if x in '+-*/&=<>' or x in ('<>', '>=', '<=')]
            if ops:
                j = rng.choice(ops)
                t.insert(j, t[j])
        elif m == 4:
            br = [j for j, x in enumerate(t) if x in '()']
            if br:
                del t[rng.choice(br)]
        elif m == 5:
            t.insert(i, rng.choice('()'))
        elif m == 6:
            cl = [j for j, x in enumerate(t) if x == ')']
            if cl:
                j = rng.choice(cl)
                t[j:j] = [',', rng.choice(['1', 'A1', '"z"'])]
        elif m == 7:
            opnd = [j for j, x in enumerate(t) if re.match(r'^[A-Z]+\d+$|^\d', x)]
            if opnd:
                j = rng.choice(opnd)
                t.insert(j + 1, rng.choice(['2', 'B1', '"q"', '(3)']))
        elif m == 8:
            st = [j for j, x in enumerate(t) if x.startswith('"')]
            if st:
                j = rng.choice(st)
                t[j] = t[j][:-1] + rng.choice(['""', '"" "', '""x"'])
            else:
                t.append('""')
        elif m == 9:
            nums = [j for j, x in enumerate(t) if re.match(r'^\d', x)]
            if nums:
                j = rng.choice(nums)
                t[j] = t[j] + rng.choice(['E3', 'E-2', 'e+2', '.', '.5.5', 'x', 'e', 'e-', 'e+', 'e3e', 'e 3', 'e.5', 'E'])
        elif m in (13, 14, 15, 16):
            # character level: cut one character out, cut the text short, double or insert a character anywhere (also inside a token:
            # an exponent without digits, half a reference, an operator split in two)
            text = ''.join(t)
            if text:
                k_ = rng.randrange(len(text))
                if m == 13:
                    text = text[:k_] + text[k_ + 1:]
                elif m == 14:
                    text = text[:max(1, k_)]
                elif m == 15:
                    text = text[:k_] + text[k_] + text[k_:]
                else:
                    text = text[:k_] + rng.choice('e!$:.\'"%()A1 ~_') + text[k_:]
            t = [text]
        elif m == 10:
            t.append('%')
        elif m == 12:
            # operand % operand: the grammar lists % among the binary operators, only the translator refuses it
            opnd = [j for j, x in enumerate(t) if re.match(r'^[A-Z]+\d+$|^\d|^"', x) or x == ')']
            if opnd:
                j = rng.choice(opnd)
                t[j + 1:j + 1] = ['%', rng.choice(['A1', '3', '(2)', '"x"', 'SUM(A1:B1)', 'B2'])]
        else:
            if len(t) > 1:
                j = rng.randrange(len(t) - 1)
                t[j], t[j + 1] = t[j + 1], t[j]
        out.add('=' + ''.join(t))
    out.discard(f)
    return sorted(out)


def ws_variants(f, rng):
    toks = split(f)
    out = []
    wss = [' ', '  ', '\t', ' \t ', '\n', ' \n']
    if len(toks) < 2:
        return out
    for _ in range(3):
        j = rng.randrange(1, len(toks))
        out.append(('=' + ''.join(toks[:j]) + rng.choice(wss) + ''.join(toks[j:]), 'ws'))
    w = rng.choice(wss[:4])
    out.append(('=' + w.join(toks), 'ws'))
    out.append(('= ' + ''.join(toks), 'ws'))
    # ... and after the last token (a formula typed with a blank at its end, a line break before the file was saved)
    out.append(('=' + ''.join(toks) + rng.choice(wss), 'ws'))
    out.append(('= ' + w.join(toks) + ' ', 'ws'))
    if any(t in ',;' for t in toks):
        out.append(('=' + ''.join({',': ';', ';': ','}.get(t, t) for t in toks), 'sep'))
    return out


def classify(text, out, how):
    t = text.replace(' ', '')
    if out.kind == 'FOREIGN_EXC' and out.phase == 'translate':
        if re.search(r'COUNT\((?![A-Z]*\$?[A-Z]+\$?\d|"|\d|TRUE|FALSE)', t) or re.search(r'COUNT\([^)]*[,;](?![A-Z]*\$?[A-Z]+\$?\d|"|\d|TRUE|FALSE)', t):
            if out.exc_name == 'AttributeError':
                return 'KF-C05-count-argument-shape-crash'
    return None


def observe(book, si, addr, tmon):
    tmon.drain()
    out = book.value(si, addr)
    ev = tmon.drain()
    return out, ev


def judge_text(r, tmon, book, addr, text, spec, how, base_out=None):
    out, events = observe(book, 0, addr, tmon)
    r.ev()
    case = {'text': text, 'how': how}
    r.count('outcome:' + (out.kind if out.kind != 'VALUE' else 'VALUE') + (':' + str(out.phase) if not out.ok else ''))
    for e in events:
        if e['type'] == 'parser':
            report(r, ID, None, case, e, 'token not None and empty rest whenever code is emitted', monitor='parser-conservation')
        elif e['type'] == 'operand':
            if e.get('text') == text:
                report(r, ID, None, case, e, 'every reference and literal token of the formula reaches the emitted code', monitor='operand-conservation')
        else:
            report(r, ID, None, case, e, 'pieces + whitespace = text', monitor='lexer-conservation')
    rep = pipeline.refusal_repeatable(out)
    if rep:
        report(r, ID, None, case, rep, 'the same Parser refuses the same malformed formula again', monitor='refusal-not-repeatable')
    if out.kind == 'FOREIGN_EXC' and out.phase in ('translate', 'load'):
        report(r, ID, classify(text, out, how), case, out.brief(), 'whole translation or E2PyclParserException', monitor='reject-with-parser-exception')
    # agreement with the reference on the complete text
    try:
        outs, _ = evalr.outcomes(evalr.Env(spec), 'S1', addr, strict_text=True)
        ref_valid = True
    except (ParseError,):
        outs, ref_valid = None, False
    except (evalr.NoOpinion, evalr.Cycle):
        outs, ref_valid = None, True
    if outs is not None and out.ok and any(isinstance(o, Err) or (isinstance(o, str) and o in ERROR_TEXTS) for o in outs) and '(' in text[1:]:
        # an error value produced inside a nest and flowing on through enclosing functions is not this property's claim
        # (the library hands error values on as texts): the complete-text monitor judges values only
        r.count('ref_error_value_unjudged')
    elif outs is not None and out.ok:
        r.count('ref_agreement_checks')
        if not outcome_matches(out, outs, exact=False, empty_text_is_blank=True):
            report(r, ID, None, case, out.brief(), outs, monitor='complete-text-value')
    return out, ref_valid


def plan(tier, seed):
    shards = [{'kind': 'arity'}]
    n = 8 if tier == 'quick' else 32
    for p in range(n):
        shards.append({'kind': 'mutate', 'part': p, 'parts': n, 'base': 300 if tier == 'quick' else 5000, 'k': 10 if tier == 'quick' else 12})
    for p in range(4):
        shards.append({'kind': 'long', 'k': 12 if tier == 'quick' else 60, 'part': p, 'parts': 4})
    for p in range(2 if tier == 'quick' else 8):
        shards.append({'kind': 'precedent', 'n': 6 if tier == 'quick' else 60})
    shards.append({'kind': 'arrayform', 'n': 12 if tier == 'quick' else 60})
    return shards


def base_corpus(rng, n):
    fs = list(FUNC_FORMULAS)
    ch = sorted(set(c01.chain_formulas(1)) | set(c01.chain_formulas(2)))
    rng.shuffle(ch)
    fs += ch[:n // 2]
    from ..gen import exprs
    g = exprs.Gen(rng)
    while len(fs) < n:
        if len(fs) % 3 == 0:
            fs.append(g.formula(rng.choice('NNTTBD'), rng.choice([2, 3]))[0])      # nests over the whole function set
        else:
            fs.append('=' + c01.random_tree(rng, 3, rng.choice('NNTL')))
    return fs[:n]


def run_texts(ctx, items, tag):
    """items: list of (text, how, group) ; same group => outcomes must agree (whitespace / separator invariance)"""
    r = ctx.r
    tmon = TranslateMonitor.install(r)
    per = 40
    groups = {}
    for off in range(0, len(items), per):
        batch = items[off:off + per]
        cells = dict(BASEC)
        addrs = []
        for i, (text, how, g) in enumerate(batch):
            a = f'J{i + 8}'
            cells[a] = text
            addrs.append(a)
        spec = wbspec.spec(wbspec.sheet('S1', cells))
        book = pipeline.Book(spec, ctx.workdir, name=f'{tag}{off}', per_cell=True, cells_of_interest=[])
        for a, (text, how, g) in zip(addrs, batch):
            out, ref_valid = judge_text(r, tmon, book, a, text, spec, how)
            if how != 'base' and (not ref_valid or how in ('ws', 'sep')):
                r.nt(text)
            if g is not None:
                groups.setdefault(g, []).append((text, how, out))
    for g, lst in groups.items():
        base = [o for t, h, o in lst if h == 'base']
        if not base:
            continue
        b = base[0]
        for t, h, o in lst:
            if h == 'base':
                continue
            r.count('invariance_checks')
            same = (o.ok == b.ok) and (not b.ok or outcome_matches(o, [evalr_norm(b.value)], exact=True))
            if not same:
                tagk = 'KF-C05-newline-between-tokens' if ('\n' in t and not o.ok and o.kind == 'LIB_EXC') else None
                report(r, ID, tagk, {'text': t, 'base': lst[0][0], 'how': h}, o.brief(), b.brief(), monitor='whitespace-separator-invariance')


def evalr_norm(v):
    from ..xlref.values import norm
    return norm(v)


def run_arity(shard, ctx):
    r = ctx.r
    items = []
    for name, (allowed, args) in ARITY.items():
        for n in range(0, 8):
            a = [args[min(i, len(args) - 1)] for i in range(n)]
            items.append((f'={name}({",".join(a)})', 'arity', None))
    tmon = TranslateMonitor.install(r)
    cells = dict(BASEC)
    where = {}
    for i, (text, _, _) in enumerate(items):
        a = f'J{i + 8}'
        cells[a] = text
        where[a] = text
    spec = wbspec.spec(wbspec.sheet('S1', cells))
    book = pipeline.Book(spec, ctx.workdir, name='arity', per_cell=True, cells_of_interest=[])
    for a, text in where.items():
        name = text[1:text.index('(')]
        n = 0 if text.endswith('()') else _count_args(text)
        allowed = ARITY[name][0]
        out, _ = judge_text(r, tmon, book, a, text, spec, 'arity')
        r.count('arity_checks')
        accepted = out.ok or out.phase == 'evaluate'
        if accepted and n not in allowed:
            report(r, ID, None, {'text': text, 'function': name, 'arguments': n, 'grammar_allows': sorted(allowed)}, out.brief(),
                   'E2PyclParserException', monitor='arity-table')
        if n not in allowed:
            r.nt(text)
        elif not accepted:
            r.count('arity_in_table_but_rejected')   # allowed by the statement (library may reject); recorded for the evidence
            r.seen('in_table_but_rejected', text)
    # the LAST argument left empty (a separator right in front of the closing bracket), for every function at every argument count: refused
    # - or, where the grammar defines that shape, the value of the call with 0 in that place (ROUNDUP / ROUNDDOWN: no digits). Never the value
    # of the call WITHOUT the argument when that is another value (LEFT("abc",) is not LEFT("abc")).
    tcells = dict(BASEC)
    twhere = {}
    k = 0
    for name, (allowed, args) in ARITY.items():
        for n in range(1, 7):
            a_ = [args[min(i, len(args) - 1)] for i in range(n)]
            for sep in (',', ';', ', ', ' ;'):
                k += 1
                row = 8 + (k - 1) % 60
                col = wbspec.get_column_letter(10 + 3 * ((k - 1) // 60))
                text = f'={name}({",".join(a_)}{sep})'
                tcells[f'{col}{row}'] = text
                twhere[f'{col}{row}'] = (text, name, n, f'={name}({",".join(a_)},0)', f'={name}({",".join(a_)})')
    tspec = wbspec.spec(wbspec.sheet('S1', tcells))
    tbook = pipeline.Book(tspec, ctx.workdir, name='trail', per_cell=True, cells_of_interest=[])
    for a, (text, name, n, with_zero, without) in twhere.items():
        out, _ = observe(tbook, 0, a, tmon)
        r.ev()
        r.count('trailing_empty_argument_texts')
        r.nt(text)
        if out.kind == 'FOREIGN_EXC' and out.phase != 'evaluate':
            report(r, ID, None, {'text': text, 'how': 'trailing-empty-argument'}, out.brief(), 'E2PyclParserException', monitor='reject-with-parser-exception')
        elif out.ok or out.phase == 'evaluate':
            # accepted: the empty place is 0 / blank, as in the call that writes it out
            r.count('trailing_empty_argument_accepted')
            r.seen('trailing_empty_argument_accepted_for', f'{name}/{n}')
            zb = pipeline.Book(wbspec.spec(wbspec.sheet('S1', dict(BASEC, J8=with_zero))), ctx.workdir, name='trail0', per_cell=True, cells_of_interest=[])
            oz, _ = observe(zb, 0, 'J8', tmon)
            same = (out.ok and oz.ok and evalr_norm(out.value) == evalr_norm(oz.value) and type(out.value) is type(oz.value)) or (not out.ok and not oz.ok)
            if not same:
                report(r, ID, None, {'text': text, 'how': 'trailing-empty-argument', 'written_out': with_zero}, out.brief(), oz.brief(),
                       monitor='empty-argument-accepted')
    r.sample({'arity': ['=ROUND(A1/3)', '=IF(A1>1)', '=TODAY(1)', '=SUMIFS(B3:B5,A3:A5)'], 'trailing_empty': ['=LEFT(C2,)', '=ROUNDUP(A1/3;)']})


def _count_args(text):
    depth, n, s = 0, 1, text[text.index('(') + 1:-1]
    in_s = False
    for ch in s:
        if ch == '"':
            in_s = not in_s
        elif not in_s:
            if ch == '(':
                depth += 1
            elif ch == ')':
                depth -= 1
            elif ch in ',;' and depth == 0:
                n += 1
    return n


def empty_argument_variants(f, rng):
    """texts with an EMPTY argument (doubled / leading / trailing separator, also with blanks in between): no token set of the
    grammar defines an empty argument, so every one of them has to be refused"""
    toks = split(f)
    seps = [j for j, x in enumerate(toks) if x in ',;']
    out = []
    for j in seps[:3]:
        for extra in (toks[j], ',' if toks[j] == ';' else ';', ' ' + toks[j], toks[j] + ' '):
            t = list(toks)
            t.insert(j, extra)
            out.append('=' + ''.join(t))
    opens = [j for j, x in enumerate(toks) if x == '(' and j > 0 and toks[j - 1].isalpha() and j + 1 < len(toks) and toks[j + 1] != ')']
    for j in opens[:1]:
        t = list(toks)
        t.insert(j + 1, ',')
        out.append('=' + ''.join(t))
    closes = [j for j, x in enumerate(toks) if x == ')' and j > 0 and toks[j - 1] not in '(,;']
    for j in closes[-1:]:
        t = list(toks)
        t.insert(j, rng.choice(',;'))
        out.append('=' + ''.join(t))
    return sorted(set(out))


def run_must_reject(ctx, texts, tag):
    r = ctx.r
    tmon = TranslateMonitor.install(r)
    per = 40
    for off in range(0, len(texts), per):
        batch = texts[off:off + per]
        cells = dict(BASEC)
        addrs = []
        for i, text in enumerate(batch):
            a = f'J{i + 8}'
            cells[a] = text
            addrs.append(a)
        spec = wbspec.spec(wbspec.sheet('S1', cells))
        book = pipeline.Book(spec, ctx.workdir, name=f'{tag}{off}', per_cell=True, cells_of_interest=[])
        for a, text in zip(addrs, batch):
            out, _ = observe(book, 0, a, tmon)
            r.ev()
            r.count('empty_argument_texts')
            r.nt(text)
            if out.ok or out.phase == 'evaluate':
                report(r, ID, None, {'text': text, 'how': 'empty-argument'}, out.brief(), 'E2PyclParserException (an empty argument is not in the grammar)',
                       monitor='empty-argument-accepted')
            elif out.kind == 'FOREIGN_EXC':
                report(r, ID, None, {'text': text, 'how': 'empty-argument'}, out.brief(), 'E2PyclParserException', monitor='reject-with-parser-exception')


def run_arrayform(shard, ctx):
    """the same formula text in an ordinary formula cell and in an ARRAY-FORMULA cell (openpyxl hands that one over as an object carrying
    the text): translated or refused alike, and to the same value.  The texts include junk that display conventions invite to strip
    (braces, a doubled equals sign): what is not part of the grammar is refused in both kinds of cell."""
    from openpyxl.worksheet.formula import ArrayFormula
    r, rng = ctx.r, ctx.rng
    tmon = TranslateMonitor.install(r)
    import random
    base = base_corpus(random.Random(ctx.seed + 5), 60)[:shard['n']] + ['=SUM(A3:A5)', '=A1+B1', '=IF(A1>1,"y","n")', '=LEFT("abc",2)&"x"']
    texts = []
    for f in base:
        body = f[1:]
        texts += [f, f + '}', f + '}}', '=' + f, '={' + body, '={' + body + '}', '{' + f + '}', f + ' }', '=}' + body, f + '{', '= {' + body + '} ']
    per = 30
    for off in range(0, len(texts), per):
        batch = texts[off:off + per]
        cells = dict(BASEC)
        pairs = []
        for i, t in enumerate(batch):
            a, b = f'J{i + 8}', f'L{i + 8}'
            if not t.startswith('='):
                continue          # a text that does not start with = is a constant in an ordinary cell: no formula to compare
            cells[a] = t
            cells[b] = ArrayFormula(b, t)
            pairs.append((a, b, t))
        spec = wbspec.spec(wbspec.sheet('S1', cells))
        book = pipeline.Book(spec, ctx.workdir, name=f'af{off}', per_cell=True, cells_of_interest=[])
        for a, b, t in pairs:
            oa, _ = observe(book, 0, a, tmon)
            ob, _ = observe(book, 0, b, tmon)
            r.ev(2)
            r.count('array_formula_twins')
            r.nt(('arrayform', t))
            same = (oa.ok == ob.ok) and ((oa.ok and type(oa.value) is type(ob.value) and (oa.value == ob.value or oa.value != oa.value))
                                         or (not oa.ok and oa.kind == ob.kind and oa.phase == ob.phase))
            if not same:
                report(r, ID, None, {'text': t, 'how': 'array-formula twin'}, {'ordinary_cell': oa.brief(), 'array_formula_cell': ob.brief()},
                       'the same outcome in both kinds of cell', monitor='array-formula-text')
    r.sample({'array_formula_twins': texts[:12]})


def run_mutate(shard, ctx):
    r, rng = ctx.r, ctx.rng
    import random
    corpus = base_corpus(random.Random(ctx.seed), shard['base'])
    mine = [f for i, f in enumerate(corpus) if i % shard['parts'] == shard['part']]
    items = []
    for gi, f in enumerate(mine):
        items.append((f, 'base', gi))
        for t, how in ws_variants(f, rng):
            items.append((t, how, gi))
        for m in mutants(f, rng, shard['k']):
            items.append((m, 'mutant', None))
    run_texts(ctx, items, 'm')
    empt = []
    for f in mine:
        if any(ch in f for ch in ',;') and '"' not in f:
            empt += empty_argument_variants(f, rng)
    run_must_reject(ctx, empt[:400], 'e')
    r.sample({'base': mine[:2], 'empty_arguments': empt[:4], 'mutants': [t for t, h, g in items if h == 'mutant'][:6], 'whitespace': [t for t, h, g in items if h == 'ws'][:3]})


def long_lists(rng):
    """argument lists around the lengths where an implementation may switch strategy (recursion depth, Excel's 255 limit)"""
    out = []
    atoms = ['A1', 'B1', '2', 'C1', '1.5', 'A1:C1', 'D1', '(E1)', 'A1+B1', '"x"', 'F1']
    for n in (60, 124, 125, 126, 130, 200, 254):
        for fn in ('SUM', 'MAX', 'CONCATENATE', 'AND', 'COUNT', 'MIN', 'OR'):
            if rng.random() < 0.5 and n not in (125, 130):
                continue
            pool = [a for a in atoms if not (fn in ('AND', 'OR') and a in ('"x"', 'A1:C1'))]
            out.append(f'={fn}(' + rng.choice([',', ';']).join(rng.choice(pool) for _ in range(n)) + ')')
    return out


def run_long(shard, ctx):
    r, rng = ctx.r, ctx.rng
    items = []
    for gi, f in enumerate(long_lists(rng)):
        items.append((f, 'base', gi))
        r.count('long_argument_lists')
        for m in mutants(f, rng, shard['k']):
            items.append((m, 'mutant', None))
    mine = [it for i, it in enumerate(items) if i % shard['parts'] == shard['part']]
    run_texts(ctx, mine, 'L')


PRECEDENT_WRAPS = ['={p}', '=IFERROR({p},0)', '=IFERROR(1/{p},"x")', '=IF(1>0,1,{p})', '=IF({p}>0,1,2)', '=SUM({p}:{p})', '=SUM(A1,{p})', '=IFS(TRUE,1,FALSE,{p})',
                   '=COUNT({p})', '={p}&"x"', '=-{p}', '=MAX(A1:C1,{p})', '=IFERROR(IFERROR({p},1),2)', '=VLOOKUP(A3,A3:B5,2,FALSE)+{p}', '=LEFT({p},1)',
                   '=IFERROR(S1!{p},0)', "=IFERROR('S1'!{p}+1,0)"]
MALFORMED = ['=SUM(1;', '=A1+', '=A1 B1', '=)(', '=SUM(A1,,B1)', '=1+*2', '="abc', '=IF(A1>1,2,3', '=A1%%%', '=FOO(1)', '=A1:', '=1..2', '=SUM(A1:B1)(2)', '=&A1']


def run_precedent(shard, ctx):
    """a malformed formula in a PRECEDENT cell: a cell that refers to it - directly, through an area, inside the guarded argument of
    IFERROR, in a branch that is never taken - cannot be translated as a whole either; the refusal is the parser exception"""
    r, rng = ctx.r, ctx.rng
    tmon = TranslateMonitor.install(r)
    from excel2pycl import E2PyclParserException
    for b in range(shard['n']):
        bad = rng.choice(MALFORMED)
        cells = dict(BASEC)
        cells['P9'] = bad
        cells['Q9'] = '=P9+1'           # one hop further away
        addrs = {}
        for i, w in enumerate(rng.sample(PRECEDENT_WRAPS, 8)):
            a = f'J{i + 8}'
            cells[a] = w.format(p=rng.choice(['P9', 'P9', 'Q9', '$P$9']))
            addrs[a] = cells[a]
        spec = wbspec.spec(wbspec.sheet('S1', cells))
        path = wbspec.write(spec, os.path.join(ctx.workdir, f'prec{b}.xlsx'))
        for a, f in addrs.items():
            tmon.drain()
            t = pipeline.translate(path, entry=pipeline.entry_cell('S1', a))
            r.ev()
            r.count('precedent_refusal_checks')
            r.nt((bad, f))
            if not (t.kind == pipeline.LIB_EXC and isinstance(t.exc, E2PyclParserException)):
                report(r, ID, None, {'text': f, 'how': 'malformed-precedent', 'precedent': bad, 'spec': spec, 'cell': a}, t.brief() if not t.ok else 'a class was returned',
                       'E2PyclParserException (a precedent of the cell is not a formula of the grammar)', monitor='malformed-precedent-accepted')
        # the whole workbook cannot be translated either
        t = pipeline.translate(path)
        r.ev()
        if not (t.kind == pipeline.LIB_EXC and isinstance(t.exc, E2PyclParserException)):
            report(r, ID, None, {'text': bad, 'how': 'malformed-precedent', 'mode': 'whole-file', 'spec': spec}, t.brief() if not t.ok else 'a class was returned',
                   'E2PyclParserException', monitor='malformed-precedent-accepted')


def run_shard(shard, ctx):
    if shard.get('kind') == 'precedent':
        return run_precedent(shard, ctx)
    if shard.get('kind') == 'long':
        return run_long(shard, ctx)
    if 'replay' in shard:
        c = shard['replay']
        items = [(c['text'], c.get('how', 'mutant'), 0 if 'base' in c else None)]
        if c.get('how') == 'empty-argument':
            return run_must_reject(ctx, [c['text']], 'rep')
        if 'base' in c:
            items.insert(0, (c['base'], 'base', 0))
        return run_texts(ctx, items, 'rep')
    {'arity': run_arity, 'mutate': run_mutate, 'arrayform': run_arrayform}[shard['kind']](shard, ctx)


def finish(r, tier, seed):
    return {'outcome_classes': {k[8:]: v for k, v in r.counters.items() if k.startswith('outcome:')}, 'exhaustive': False,
            'exhaustive_subspaces': ['every supported function (40) x 0..7 arguments']}
