"""C02 - every reference form denotes exactly the intended cells of the intended sheet.

Every worksheet of a generated workbook holds a UNIQUE number per cell (value = (sheet+1)*10^10 + row*10^5 + column), so an
observed value identifies the coordinate it was read from.  The generator chooses coordinates first and then spells
them (own letter function, $ markers, bare / unquoted / quoted title), so the expectation never depends on parsing.

Observations per reference: bare =ref (row-major flattening of what comes back), SUM / COUNT / MAX / COUNTBLANK,
INDEX at sampled (i,j), the set of cell uids the evaluation touched (L1 trace of _cell_preprocessor: no cell missing,
no extra cell), and one formula per function position a reference can occupy (judged by vf/xlref).
References to sheet titles that do not exist must be rejected with a library exception."""
import os
import re

from .. import pipeline, wbspec
from ..findings import report
from ..instr.runtime import RuntimeMonitor
from ..xlref import evalr
from ..xlref.parser import ParseError
from ..xlref.values import is_blank_lib, outcome_matches

ID = 'C02'
LEVEL = 'exploration'
RULE = ('references = {relative, $col, $row, both} on each corner x {bare, unquoted title, quoted title} x shapes {cell, '
        'vertical, horizontal, rectangle, whole column A:A, whole columns A:C} x coordinates (near: inside/overlapping a 10x7 '
        'block with never-written gaps; far: columns {Z,AA,AZ,BA,ZZ,AAA,XFD,random 1-3 letters} x rows {9,10,99,100,1000,65536,'
        '99999,random 1-5 digits} through entry-point slices) x titles (ASCII, underscore, blank, Cyrillic, digits, dot, braces, '
        'prefixes of each other) x position of the formula sheet; each reference observed through >=3 forms, under workbook '
        'values and under overrides.  Non-trivial: the reference is not the single cell A1 of the first sheet and its '
        'a data-only sheet with a ragged bottom edge referenced by whole-column areas of 1-4 columns; expected value differs from what the same text would give on another sheet / shifted by one row or column '
        '(guaranteed by unique cell values); distinct by (book, formula text, valuation)')
ASSUMPTIONS = ['unique numbers per cell make a value identify its coordinate', 'a third of the areas is written with its corners in another order (C3:A1, C1:A3, A3:C1): the same area',
               'titles containing \' or ! have no spelling in the grammar and are not referenced',
               'unknown-title references differing only by case from an existing title are not generated']
FLOORS = {'quick': {'evaluations': 5000, 'nontrivial': 2500, 'counters': {'trace_checked': 400, 'unknown_title_refs': 40}},
          'thorough': {'evaluations': 120000, 'nontrivial': 50000, 'counters': {'trace_checked': 10000, 'unknown_title_refs': 800}}}

TITLES = ['S1', 'Data_2', 'my sheet', 'Лист1', '2024', 'a.b', 'S', 'S10', 'Main', 'x{0}y', 'T-1', 'Q%s', 'SUM', 'A1', 'Z z']
_WORD = re.compile(r'^\w+$')


def letters(col):
    """own bijective base-26 (independent of openpyxl)"""
    s = ''
    while col > 0:
        col, rem = divmod(col - 1, 26)
        s = chr(65 + rem) + s
    return s


def code(si, r, c):
    return (si + 1) * 10 ** 10 + r * 10 ** 5 + c


def addr(r, c):
    return f'{letters(c)}{r}'


class Ref:
    def __init__(self, si, r1, c1, r2, c2, whole=False, single=False):
        self.si, self.r1, self.c1, self.r2, self.c2, self.whole, self.single = si, r1, c1, r2, c2, whole, single

    def shape(self):
        if self.single:
            return 'cell'
        if self.whole:
            return 'wholecol' if self.c1 == self.c2 else 'wholecols'
        if self.c1 == self.c2:
            return 'vertical'
        if self.r1 == self.r2:
            return 'horizontal'
        return 'rectangle'


def spell(rng, ref, titles, own_si, stats=None):
    t = titles[ref.si]
    d = [rng.choice(['', '$']) for _ in range(4)]
    if ref.si == own_si and rng.random() < 0.5:
        prefix, pk = '', 'bare'
    elif _WORD.match(t) and not t[0].isdigit() and not re.match(r'^[A-Z]{1,3}\d+$', t) and rng.random() < 0.5:
        prefix, pk = t + '!', 'unquoted'
    else:
        prefix, pk = "'" + t + "'!", 'quoted'
    if ref.single:
        body = f'{d[0]}{letters(ref.c1)}{d[1]}{ref.r1}'
        dk = (d[0] + d[1]) or 'rel'
    elif ref.whole:
        # the two corners in either order (C:A is A:C): files written by other tools keep them as they were typed
        ca, cb = (ref.c1, ref.c2) if rng.random() < 0.8 else (ref.c2, ref.c1)
        body = f'{d[0]}{letters(ca)}:{d[2]}{letters(cb)}'
        dk = (d[0] + '|' + d[2])
        if stats is not None and ca > cb:
            stats.count('areas_with_corners_out_of_order')
    else:
        (ca, cb), (ra, rb) = (ref.c1, ref.c2), (ref.r1, ref.r2)
        k = rng.random()
        if k < 0.1:
            ca, cb, ra, rb = cb, ca, rb, ra          # bottom right : top left
        elif k < 0.2:
            ca, cb = cb, ca                          # top right : bottom left
        elif k < 0.3:
            ra, rb = rb, ra                          # bottom left : top right
        if stats is not None and (ca > cb or ra > rb):
            stats.count('areas_with_corners_out_of_order')
        body = f'{d[0]}{letters(ca)}{d[1]}{ra}:{d[2]}{letters(cb)}{d[3]}{rb}'
        dk = ''.join(x or '-' for x in d)
    if stats is not None:
        stats.seen('prefix_kinds', pk)
        stats.seen('dollar_patterns', dk)
        stats.count('shape:' + ref.shape())
    return prefix + body


# ---- workbook generator ---------------------------------------------------------------------------
FAR_COLS = [26, 27, 52, 53, 702, 703, 16383]      # Z AA AZ BA ZZ AAA XFC(+1 = XFD)
FAR_ROWS = [9, 10, 99, 100, 1000, 65535, 99998]


def gen_data(rng, ns, far):
    """-> per sheet {(r,c): number}; near: block rows 1..10 x cols 1..7, rows 1..4 x cols 1..4 gap free"""
    data = []
    for si in range(ns):
        d = {}
        if not far:
            for r in range(1, 11):
                for c in range(1, 8):
                    if (r <= 4 and c <= 4) or rng.random() > 0.18:
                        d[(r, c)] = code(si, r, c)
        else:
            rows = rng.sample(FAR_ROWS, 2) + [rng.randrange(2, 99998)]
            cols = rng.sample(FAR_COLS, 2) + [rng.randrange(2, 16383)]
            for r in rows:
                for c in cols:
                    for dr in (0, 1):
                        for dc in (0, 1):
                            if rng.random() > 0.1:
                                d[(r + dr, c + dc)] = code(si, r + dr, c + dc)
        data.append(d)
    return data


def gen_ref(rng, data, si, far, allow_whole=True):
    d = data[si]
    if far:
        keys = sorted(d)
        r, c = rng.choice(keys)
        # anchor at the top-left of its 2x2 cluster when possible
        kind = rng.choice(['cell', 'cell', 'v', 'h', 'rect'])
        if kind == 'cell':
            return Ref(si, r, c, r, c, single=True)
        if kind == 'v':
            return Ref(si, r, c, r + 1, c)
        if kind == 'h':
            return Ref(si, r, c, r, c + 1)
        return Ref(si, r, c, r + 1, c + 1)
    kind = rng.choice(['cell', 'cell', 'v', 'h', 'rect', 'rect', 'wcol', 'wcols'] if allow_whole else ['cell', 'v', 'h', 'rect'])
    if kind == 'cell':
        r, c = rng.randrange(1, 13), rng.randrange(1, 9)
        return Ref(si, r, c, r, c, single=True)
    if kind == 'v':
        r1 = rng.randrange(1, 11)
        c = rng.randrange(1, 9)
        return Ref(si, r1, c, r1 + rng.randrange(0, 5), c)
    if kind == 'h':
        c1 = rng.randrange(1, 7)
        r = rng.randrange(1, 12)
        return Ref(si, r, c1, r, c1 + rng.randrange(1, 4))
    if kind == 'rect':
        r1, c1 = rng.randrange(1, 10), rng.randrange(1, 7)
        return Ref(si, r1, c1, r1 + rng.randrange(1, 4), c1 + rng.randrange(1, 3))
    if kind == 'wcol':
        c = rng.randrange(1, 9)
        return Ref(si, None, c, None, c, whole=True)
    c1 = rng.randrange(1, 7)
    return Ref(si, None, c1, None, c1 + rng.randrange(1, 3), whole=True)


def build_book(rng, far, nform):
    ns = rng.randrange(2, 5)
    titles = rng.sample(TITLES, ns)
    if rng.random() < 0.3 and 'S1' in titles and 'S' not in titles:
        titles[(titles.index('S1') + 1) % ns] = 'S'
    data = gen_data(rng, ns, far)
    sheets = [{(r, c): v for (r, c), v in data[si].items()} for si in range(ns)]
    forms = []          # dicts: si, addr, formula, kind, ref(s), extra
    fcol = 10           # formulas live in column J.. (near) / column A (far, data never in column A)
    next_row = [1] * ns

    def place(si, f, **kw):
        r = next_row[si]
        next_row[si] += 1
        c = 1 if far else fcol + (r - 1) // 40
        rr = r if far else (r - 1) % 40 + 1
        a = addr(rr, c)
        sheets[si][(rr, c)] = f
        forms.append(dict(si=si, addr=a, formula=f, **kw))

    return ns, titles, data, sheets, forms, place


def area_cells(ref, max_row):
    r1, r2 = (1, max(max_row, 1)) if ref.whole else (ref.r1, ref.r2)
    return [[(r, c) for c in range(ref.c1, ref.c2 + 1)] for r in range(r1, r2 + 1)]


def flat(v):
    if isinstance(v, (list, tuple)):
        out = []
        for i in v:
            out += flat(i)
        return out
    return [v]


def same_cell(got, exp):
    if exp is None:
        return is_blank_lib(got)
    return (not is_blank_lib(got)) and type(got) in (int, float) and not isinstance(got, bool) and got == exp


_EARLIER_TITLES = set()
_UID = re.compile(r'^_(\d+)_(\d+)_(\d+)$')


def run_book(ctx, bi, far):
    r, rng = ctx.r, ctx.rng
    nform = 36 if not far else 24
    ns, titles, data, sheets, forms, place = build_book(rng, far, nform)
    # ---- formulas ---------------------------------------------------------------------------------
    for _ in range(nform):
        own = rng.randrange(ns)
        tsi = own if rng.random() < 0.4 else rng.randrange(ns)
        ref = gen_ref(rng, data, tsi, far)
        if ref.whole and tsi == own and not far and ref.c2 >= 10:
            continue
        sp = spell(rng, ref, titles, own, r)
        forms_for = ['bare', 'SUM', rng.choice(['COUNT', 'MAX', 'COUNTBLANK', 'MIN'])]
        if not ref.single:
            forms_for.append('INDEX')
        for form in forms_for:
            if form == 'bare':
                place(own, '=' + sp, kind='bare', ref=ref)
            elif form == 'INDEX':
                place(own, None, kind='INDEX', ref=ref, sp=sp)      # (i,j) chosen once the extent is known
            else:
                place(own, f'={form}({sp})', kind=form, ref=ref)
    # a data-only sheet with a ragged bottom edge (column A is the longest, each column further right ends earlier, nothing is
    # stored right of them): whole-column areas over it must keep the rows in which only the left columns hold values
    if not far:
        if rng.random() < 0.5:
            # a worksheet without a single cell in front of the referenced one: every sheet keeps its own number
            data.append({})
            sheets.append({})
            titles.append('Spare')
            r.count('books_with_empty_worksheet_in_front')
        rsi = len(sheets)
        ragged = {}
        heights = sorted([rng.randrange(3, 14) for _ in range(4)], reverse=True)
        for c, h in enumerate(heights, start=1):
            for rr_ in range(1, h + 1):
                if rng.random() > 0.1:
                    ragged[(rr_, c)] = code(rsi, rr_, c)
        ragged[(heights[0], 1)] = code(rsi, heights[0], 1)      # the longest column really ends there
        data.append(ragged)
        sheets.append(dict(ragged))
        titles.append('Ragged')
        for _ in range(8):
            own = rng.randrange(ns)
            c1 = rng.randrange(1, 5)
            c2 = rng.randrange(c1, 5)
            ref = Ref(rsi, None, c1, None, c2, whole=True)
            sp = spell(rng, ref, titles, own, r)
            place(own, '=' + sp, kind='bare', ref=ref)
            place(own, f'=SUM({sp})', kind='SUM', ref=ref)
            place(own, f'=COUNT({sp})', kind='COUNT', ref=ref)
            place(own, None, kind='INDEX', ref=ref, sp=sp)
        # a data-only sheet whose LAST rows hold nothing but zeros (0, 0.0) and blanks: those rows are rows of the sheet like any other -
        # a zero is a value, COUNT counts it, MIN finds it, COUNTBLANK does not, and a whole column reaches down to it
        tsi_ = len(sheets)
        tail = {}
        h_ = rng.randrange(2, 6)
        for rr_ in range(1, h_ + 1):
            for c in range(1, 4):
                if rng.random() > 0.15:
                    tail[(rr_, c)] = code(tsi_, rr_, c)
        tail[(1, 1)] = code(tsi_, 1, 1)
        nz = rng.randrange(1, 4)
        for rr_ in range(h_ + 1, h_ + nz + 1):
            for c in range(1, 4):
                if rng.random() > 0.3:
                    tail[(rr_, c)] = rng.choice([0, 0, 0.0])
            tail[(rr_, rng.randrange(1, 4))] = 0
        data.append(tail)
        sheets.append(dict(tail))
        titles.append('Tail')
        r.count('books_with_zero_rows_at_the_bottom')
        for _ in range(6):
            own = rng.randrange(ns)
            c1 = rng.randrange(1, 4)
            c2 = rng.randrange(c1, 4)
            ref = rng.choice([Ref(tsi_, None, c1, None, c2, whole=True), Ref(tsi_, h_, c1, h_ + nz, c2),
                              Ref(tsi_, h_ + nz, c1, h_ + nz, c1, single=True), Ref(tsi_, 1, c1, h_ + nz + 1, c2)])
            sp = spell(rng, ref, titles, own, r)
            place(own, '=' + sp, kind='bare', ref=ref)
            place(own, f'=COUNT({sp})', kind='COUNT', ref=ref)
            place(own, f'=MIN({sp})', kind='MIN', ref=ref)
            place(own, f'=COUNTBLANK({sp})', kind='COUNTBLANK', ref=ref)
            if not ref.single:
                place(own, None, kind='INDEX', ref=ref, sp=sp)
    # function positions (xlref-judged); near books only, areas inside the gap-free zone rows 1..4 x cols A..D
    if not far:
        for _ in range(14):
            own = rng.randrange(ns)
            tsi = rng.randrange(ns)

            def S(ref):
                return spell(rng, ref, titles, own, r)
            cv = lambda c: Ref(tsi, 1, c, 4, c)                      # noqa: E731
            cell = lambda: Ref(tsi, rng.randrange(1, 5), rng.randrange(1, 5), 0, 0, single=True)   # noqa: E731

            def C():
                x = cell()
                x.r2, x.c2 = x.r1, x.c1
                return x
            table = Ref(tsi, 1, 1, 4, 4)
            i, k = rng.randrange(1, 5), rng.randrange(1, 5)
            key = code(tsi, i, 1)
            c1, c2 = rng.sample([1, 2, 3, 4], 2)
            thr = code(tsi, rng.randrange(1, 5), c2)
            choices = [
                f'=VLOOKUP({key},{S(table)},{k},FALSE)',
                f'=MATCH({code(tsi, i, c1)},{S(cv(c1))},0)',
                f'=XMATCH({code(tsi, i, c1)},{S(cv(c1))})',
                # the same area read twice in one evaluation, once by a search from the end: the rows stay where they are
                f'=INDEX({S(cv(c1))},XMATCH({code(tsi, i, c1)},{S(cv(c1))},0,-1))',
                f'=IFERROR(XMATCH({code(tsi, i, c1)},{S(cv(c1))},0,-1),0)*1000+IFERROR(MATCH({code(tsi, k, c1)},{S(cv(c1))},0),0)',
                f'=IFERROR(XMATCH({code(tsi, i, c2)},{S(cv(c2))},0,-1),0)*100000+INDEX({S(table)},{k},{c2})',
                f'=INDEX({S(cv(c1))},MATCH({code(tsi, i, c2)},{S(cv(c2))},0))',
                f'=SUMIF({S(cv(c2))},">{thr}")',
                f'=SUMIF({S(cv(c2))},">={thr}",{S(cv(c1))})',
                # criteria range and sum range on two DIFFERENT sheets (every sheet carries other numbers at the same coordinates)
                f'=SUMIF({S(cv(c2))},">={thr}",{S(Ref((tsi + 1) % ns, 1, c1, 4, c1))})',
                f'=SUMIF({S(cv(c2))},"<{thr}",{S(Ref((tsi + 1) % ns, 1, c1, 0, 0, single=True))})',
                f'=SUMIFS({S(Ref((tsi + 1) % ns, 1, c1, 4, c1))},{S(cv(c2))},">={thr}")+COUNTIFS({S(cv(c2))},">={thr}",{S(Ref((tsi + 1) % ns, 1, c2, 4, c2))},">0")',
                f'=SUMIFS({S(cv(c1))},{S(cv(c2))},"<{thr}")',
                f'=COUNTIFS({S(cv(c2))},"<={thr}")',
                f'=AVERAGEIFS({S(cv(c1))},{S(cv(c2))},">={thr}")',
                f'=IF({S(C())}>{thr},{S(C())},{S(C())})',
                f'={S(C())}+{S(C())}*2-{S(C())}',
                f'={S(C())}&"|"&{S(C())}',
                f'=-{S(C())}',
                f'={S(C())}>{S(C())}',
                f'=COUNT({S(cv(c1))},{S(cv(c2))})',
                f'=MIN({S(cv(c1))},{S(C())})',
                f'=AVERAGE({S(table)})',
                f'=AND({S(C())}>0,{S(C())}>{thr})',
                f'=OR({S(C())}<0,{S(C())}>{thr})',
                f'=COLUMN({S(C())})',
                f'=IFERROR({S(C())}/0,{S(C())})',
                f'=ROUND({S(C())}/7,2)',
                f'=IFS({S(C())}<0,1,{S(C())}>0,{S(C())})',
            ]
            f = rng.choice(choices)
            place(own, f, kind='fn')
            r.seen('function_positions', f[1:f.index('(')] if '(' in f and f[1].isalpha() else 'operator')
    # extents (used range incl. formula cells) and INDEX points
    nall = len(sheets)
    max_row = [max([k[0] for k in sheets[si]], default=0) for si in range(nall)]
    for fm in forms:
        if fm['kind'] == 'INDEX':
            cells = area_cells(fm['ref'], max_row[fm['ref'].si])
            h, w = len(cells), len(cells[0])
            i, j = rng.randrange(1, h + 1), rng.randrange(1, w + 1)
            fm['ij'] = (i, j)
            fm['formula'] = f'=INDEX({fm["sp"]},{i},{j})'
    spec_sheets = []
    for si in range(nall):
        cells = {}
        for (rr, cc), v in sheets[si].items():
            cells[addr(rr, cc)] = v
        spec_sheets.append(wbspec.sheet(titles[si], cells))
        if si > 0 and rng.random() < 0.15:
            spec_sheets[-1]['state'] = rng.choice(['hidden', 'veryHidden'])
    # INDEX formulas were placed with None: fill them in
    for fm in forms:
        if fm['kind'] == 'INDEX':
            spec_sheets[fm['si']]['cells'][fm['addr']] = fm['formula']
    collector = None
    if far:
        # one entry cell per book whose slice contains every formula cell
        parts = [f"'{titles[si]}'!A1:A{max(1, sum(1 for f in forms if f['si'] == si))}" for si in range(ns)]
        collector = 'B1'
        spec_sheets[0]['cells'][collector] = '=SUM(' + ','.join(parts) + ')'
    spec = {'sheets': spec_sheets}
    name = f'{"far" if far else "near"}{bi}'
    # ---- translate -------------------------------------------------------------------------------
    if far:
        path = wbspec.write(spec, os.path.join(ctx.workdir, name + '.xlsx'))
        t = pipeline.translate(path, entry=pipeline.entry_cell(titles[0], collector))
        cls_o = pipeline.load_text(t.value) if t.ok else t
    else:
        book = pipeline.Book(spec, ctx.workdir, name=name)
        cls_o = pipeline.Outcome(pipeline.VALUE, book.cls) if book.cls is not None else book.whole
    r.count('books:' + ('far' if far else 'near'))
    case0 = {'book': name, 'far': far}
    if not cls_o.ok:
        # find the culprit formula through per-cell translation so the replay is small
        report(r, ID, None, dict(case0, spec=spec, what='translation of a workbook of valid references'), cls_o.brief(),
               'a loadable class', monitor='translate')
        return
    cls = cls_o.value
    mon = RuntimeMonitor(r, trace=True, prefix='helper')
    mon.install(cls)
    # ---- valuations: workbook values, then overrides on data cells and on never-written cells ----
    valuations = [[]]
    ov = []
    for si in range(nall):
        keys = sorted(data[si])
        for (rr, cc) in rng.sample(keys, min(4, len(keys))):
            ov.append((si, rr, cc, code(si, rr, cc) + 5 * 10 ** 9 + 0.5))
        if not far:
            gaps = [(rr, cc) for rr in range(1, 11) for cc in range(1, 8) if (rr, cc) not in data[si]] if si < ns else []
            for (rr, cc) in rng.sample(gaps, min(2, len(gaps))):
                ov.append((si, rr, cc, code(si, rr, cc) + 7 * 10 ** 9))
    valuations.append(ov)
    for vi, val in enumerate(valuations):
        cur = [dict(d) for d in data]
        for (si, rr, cc, v) in val:
            cur[si][(rr, cc)] = v
        env_ = evalr.Env(spec, {(titles[s], rr, cc): v for (s, rr, cc, v) in val})
        for fm in forms:
            si, a = fm['si'], fm['addr']
            rr, cc = wbspec.rc(a)
            mon.trace = []
            out = pipeline.query(cls, si, rr, cc, val or None)
            r.ev()
            case = dict(case0, sheet=si, cell=a, formula=fm['formula'], overrides=[[s, addr(x, y), v] for (s, x, y, v) in val],
                        kind=fm['kind'], spec=spec, entry=([titles[0], collector] if far else None))
            if fm['kind'] == 'fn':
                try:
                    outs, _ = evalr.outcomes(env_, titles[si], a)
                except (evalr.NoOpinion, ParseError, evalr.Cycle) as e:
                    r.count('ref_no_opinion')
                    r.seen('ref_no_opinion_reasons', str(e)[:60])
                    continue
                if not outcome_matches(out, outs, exact=False):
                    report(r, ID, None, case, out.brief(), outs, monitor='function-position')
                r.nt((name, fm['formula'], vi))
                continue
            ref = fm['ref']
            cells = area_cells(ref, max_row[ref.si])
            exp = [[cur[ref.si].get(k) for k in row] for row in cells]
            eflat = [v for row in exp for v in row]
            nums = [v for v in eflat if v is not None]
            ok = True
            if fm['kind'] == 'bare':
                if not out.ok:
                    ok = False
                else:
                    g = flat(out.value)
                    ok = len(g) == len(eflat) and all(same_cell(x, e) for x, e in zip(g, eflat))
                expected = eflat
            elif fm['kind'] == 'INDEX':
                i, j = fm['ij']
                expected = exp[i - 1][j - 1]
                ok = out.ok and same_cell(out.value, expected)
            else:
                k = fm['kind']
                if k == 'SUM':
                    expected = sum(nums)
                elif k == 'COUNT':
                    expected = len(nums)
                elif k == 'COUNTBLANK':
                    expected = len(eflat) - len(nums)
                elif k == 'MAX':
                    expected = max(nums) if nums else None
                else:
                    expected = min(nums) if nums else None
                if expected is None:
                    r.count('empty_numeric_set_unjudged')
                    ok = True
                else:
                    ok = out.ok and not is_blank_lib(out.value) and isinstance(out.value, (int, float)) and out.value == expected
            if not ok:
                report(r, ID, None, case, out.brief(), wbspec.enc(expected), monitor='reference-' + fm['kind'])
            # L1: the set of cells the evaluation touched (SUM visits every cell of the area)
            if fm['kind'] == 'SUM' and out.ok:
                touched = set()
                parsed = True
                for uid, src in mon.trace:
                    m = _UID.match(uid)
                    if m:
                        touched.add((int(m.group(1)), int(m.group(3)) + 1, int(m.group(2)) + 1))
                    elif not re.match(r'^_\d+_\d+_(\d+|any)_\d+$', uid):
                        parsed = False
                        r.seen('unparsed_uids', uid)
                if parsed and mon.trace:
                    touched.discard((si, rr, cc))
                    want = {(ref.si, x, y) for row in cells for (x, y) in row}
                    r.count('trace_checked')
                    if touched != want:
                        report(r, ID, None, case, {'missing': sorted(want - touched)[:6], 'extra': sorted(touched - want)[:6]},
                               'exactly the cells of the area', monitor='touched-cells')
                else:
                    r.seen('unreached_state', 'cell uid format / _cell_preprocessor trace')
            trivial = ref.single and ref.si == 0 and ref.r1 == 1 and ref.c1 == 1
            if not trivial:
                r.nt((name, fm['formula'], vi))
    if bi == 0:
        r.sample({'titles': titles, 'far': far, 'formulas': [f['formula'] for f in forms[:10]]})
    # ---- unknown titles must be rejected ------------------------------------------------------------
    if not far:
        bad_titles = ['Nope', 'No pe', titles[0] + 'x', titles[0][:-1] or 'q', 'S1 ', ' ' + titles[0], 'Sheet', titles[-1] + '1', 'Лист', '0']
        # ... and titles that EARLIER workbooks of this process had and this one has not (a sheet of last month's file): as unknown as any
        bad_titles = [t_ for t_ in sorted(_EARLIER_TITLES) if t_ not in titles][:4] + bad_titles
        _EARLIER_TITLES.update(titles)
        bad_titles = [b for b in dict.fromkeys(bad_titles) if b not in titles and b.strip() and b.lower() not in [t.lower() for t in titles]]
        bcells = {}
        earlier_ = [b for b in bad_titles if b in _EARLIER_TITLES][:2]
        if earlier_:
            r.count('unknown_titles_known_to_earlier_workbooks', len(earlier_))
        for i, b in enumerate(earlier_ + rng.sample([b for b in bad_titles if b not in earlier_], min(4 - len(earlier_), len([b for b in bad_titles if b not in earlier_])))):
            q = "'" + b + "'!" if not (_WORD.match(b) and rng.random() < 0.5 and not b[0].isdigit()) else b + '!'
            body = rng.choice(['A1', '$B$2', 'A1:A3', 'A1:C2', 'A:A', 'A:B'])
            wrap = rng.choice(['={}', '=SUM({})', '=1+{}', '=IF(1>0,2,{})', '=COUNT(A1,{})'])
            if ':' in body and wrap in ('=1+{}', '=IF(1>0,2,{})'):
                wrap = '=SUM({})'
            bcells[f'K{i + 1}'] = wrap.format(q + body)
        # a prefix that names no sheet at all: as unknown as any other title, never the formula's own sheet
        bcells['K5'] = rng.choice(["=''!A1", '=!A1', "=SUM(''!A1:A3)", '=1+!B2', "=SUM(''!A:A)", '=!$B$2', "=COUNT(A1,''!B2)"])
        bspec = {'sheets': [wbspec.sheet(titles[si], {'A1': 1, 'B2': 2, **(bcells if si == 0 else {})}) for si in range(ns)]}
        bpath = wbspec.write(bspec, os.path.join(ctx.workdir, name + '_bad.xlsx'))
        for a, f in bcells.items():
            t = pipeline.translate(bpath, entry=pipeline.entry_cell(titles[0], a))
            r.ev()
            r.count('unknown_title_refs')
            case = dict(case0, formula=f, cell=a, sheet=0, spec=bspec, kind='unknown-title')
            if t.kind != pipeline.LIB_EXC:
                if t.ok:
                    ld = pipeline.load_text(t.value)
                    rr, cc = wbspec.rc(a)
                    val = pipeline.query(ld.value, 0, rr, cc).brief() if ld.ok else ld.brief()
                else:
                    val = t.brief()
                report(r, ID, None, case, val, 'rejected with a library exception', monitor='unknown-title')
            r.nt((name, f))


def plan(tier, seed):
    nn, nf = (32, 16) if tier == 'quick' else (800, 320)
    sh = [{'kind': 'near', 'n': nn // 16, 'k': k} for k in range(16)]
    sh += [{'kind': 'far', 'n': nf // 8, 'k': k} for k in range(8)]
    return sh


def run_replay(ctx, case):
    """re-judge one recorded formula on its recorded workbook"""
    r = ctx.r
    spec = case['spec']
    titles = [s['title'] for s in spec['sheets']]
    si, a = case['sheet'], case['cell']
    path = wbspec.write(spec, os.path.join(ctx.workdir, 'replay.xlsx'))
    if case.get('kind') == 'unknown-title':
        t = pipeline.translate(path, entry=pipeline.entry_cell(titles[0], a))
        r.ev()
        if t.kind != pipeline.LIB_EXC:
            report(r, ID, None, case, t.brief() if not t.ok else 'translated', 'rejected with a library exception', monitor='unknown-title')
        return
    if case.get('what'):
        t = pipeline.translate(path)
        ld = pipeline.load_text(t.value) if t.ok else t
        r.ev()
        if not ld.ok:
            report(r, ID, None, case, ld.brief(), 'a loadable class', monitor='translate')
        return
    t = pipeline.translate(path, entry=pipeline.entry_cell(titles[si], a))
    ld = pipeline.load_text(t.value) if t.ok else t
    ov = [(s, *wbspec.rc(x), v) for (s, x, v) in case.get('overrides', [])]
    rr, cc = wbspec.rc(a)
    out = pipeline.query(ld.value, si, rr, cc, ov or None) if ld.ok else ld
    r.ev()
    # expectation from the reference model on the same workbook (replay is for reading the witness, the generator's
    # arithmetic expectation is printed in the stored violation)
    env_ = evalr.Env(spec, {(titles[s], *wbspec.rc(x)): v for (s, x, v) in case.get('overrides', [])})
    try:
        outs, _ = evalr.outcomes(env_, titles[si], a)
        if not outcome_matches(out, outs, exact=False):
            report(r, ID, None, case, out.brief(), outs, monitor='replay-reference')
    except evalr.NoOpinion:
        # bare areas: compare the flattened list with the reference area
        ev = evalr.Evaluator(env_)
        from ..xlref.parser import parse
        node = parse(case['formula'])
        if node[0] == 'ref':
            area = ev.area(node, titles[si])
            exp = [None if v is evalr.BLANK else v for v in area.flat()]
            g = flat(out.value) if out.ok else None
            if g is None or len(g) != len(exp) or not all(same_cell(x, e) for x, e in zip(g, exp)):
                report(r, ID, None, case, out.brief(), wbspec.enc(exp), monitor='replay-reference')


def run_shard(shard, ctx):
    if 'replay' in shard:
        return run_replay(ctx, shard['replay'])
    for i in range(shard['n']):
        run_book(ctx, shard['k'] * 1000 + i, shard['kind'] == 'far')


def finish(r, tier, seed):
    return {'shapes': {k: v for k, v in r.counters.items() if k.startswith('shape:')}}
