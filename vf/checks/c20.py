"""C20 - the importable runtime base class and the emitted runtime agree.

Oracle: equality between the two real implementations (no model): helper name sets, signatures, and differential
execution of every helper on (a) arguments recorded in situ while real translations are evaluated and (b) synthetic
hostile argument tuples.  Blank objects are mapped to each class's own EmptyCell."""
import datetime as dt
import inspect
import itertools
import math
import re

from .. import pipeline, wbspec
from ..findings import report
from ..instr.runtime import RuntimeMonitor

ID = 'C20'
LEVEL = 'exploration'
RULE = ('every helper (callable class attribute, names compared as sets, signatures compared) of a generated class and of a '
        'trivial subclass of AbstractExcelInPython is called with identical arguments: argument tuples recorded by a wrapper '
        'on the generated class while a mixed workbook (all 40 functions, operators, criteria lambdas, ranges, blanks, dates) '
        'is evaluated under several override valuations, plus synthetic tuples per helper family drawn from typed pools; '
        'results compared by canonical form (type + value, blank objects by kind) or exception class, once on fresh instances per call and '
        'once as a history of calls on one long-lived instance per runtime. EmptyCell comparison '
        'tables compared on a value grid. Non-trivial: distinct (helper, canonical arguments) on which the helper returned '
        'normally in at least one runtime')
ASSUMPTIONS = ['the generated runtime does not depend on the translated cells (helpers are class-level)',
               'TODAY is compared within one second (same clock)']
HOST_SETTINGS = {'shards': lambda shards: [0], 'env': {'VERIF_HOST_DECIMAL': '3'}}
FLOORS = {'quick': {'evaluations': 4000, 'nontrivial': 1500, 'counters': {'helpers_compared': 50}},
          'thorough': {'evaluations': 60000, 'nontrivial': 20000, 'counters': {'helpers_compared': 50}}}

MIXED = {
    'A1': 3, 'A2': 5.5, 'A3': -2, 'A4': 'x', 'A5': 'abc', 'A6': True, 'A7': dt.datetime(2024, 1, 31), 'A8': dt.datetime(2024, 3, 1),
    'A9': 0, 'A10': '10', 'B1': 1, 'B2': 2, 'B3': 3, 'B4': 'b*', 'B5': 'Ab?', 'B6': 4, 'B7': 2.5, 'B8': 10, 'B10': 7,
    'C1': 'k1', 'C2': 'k2', 'C3': 'k3', 'D1': 11, 'D2': 12, 'D3': 13,
    'F1': '=A1+A2*A3', 'F2': '=A1>A2', 'F3': '=A4&A5&A1', 'F4': '=A1%', 'F5': '=-A1+A2', 'F6': '=A1=3', 'F7': '=A4<>A5',
    'F8': '=SUM(A1:A3,B1:B3)', 'F9': '=AVERAGE(A1:A3)', 'F10': '=MIN(A1:A3)', 'F11': '=MAX(A1:B3)', 'F12': '=COUNT(A1:A10)',
    'F13': '=COUNTBLANK(A1:B10)', 'F14': '=AND(A1>1,B1=1)', 'F15': '=OR(A1>5,B1=2)',
    'F16': '=IF(A1>2,"y","n")', 'F17': '=IFS(A1>5,1,A1>2,2)', 'F18': '=IFERROR(A1/A9,7)', 'F19': '=IF(A1>5,1)',
    'F20': '=ROUND(A2,0)', 'F21': '=ROUNDUP(A2,0)', 'F22': '=ROUNDDOWN(A3,0)',
    'F23': '=VLOOKUP(C2,C1:D3,2,FALSE)', 'F24': '=MATCH(C3,C1:C3,0)', 'F25': '=XMATCH(C1,C1:C3,0,-1)', 'F26': '=INDEX(C1:D3,2,2)',
    'F27': '=ADDRESS(A1,B8)', 'F28': '=COLUMN(B3)', 'F29': '=VLOOKUP(B2,B1:D3,3)', 'F30': '=MATCH(B7,B1:B3,1)',
    'F31': '=DATE(2024,A1,B8)', 'F32': '=YEAR(A7)', 'F33': '=MONTH(A7)', 'F34': '=DAY(A7)', 'F35': '=EDATE(A7,1)', 'F36': '=EOMONTH(A7,1)',
    'F37': '=DATEDIF(A7,A8,"D")', 'F38': '=DATEDIF(A7,A8,"M")', 'F39': '=DATEDIF(A7,A8,"YM")', 'F40': '=NETWORKDAYS(A7,A8)',
    'F41': '=NETWORKDAYS(A7,A8,A7:A8)', 'F42': '=TODAY()',
    'F43': '=LEFT(A5,2)', 'F44': '=RIGHT(A5,2)', 'F45': '=MID(A5,2,1)', 'F46': '=CONCATENATE(A4,A1,A5)', 'F47': '=SEARCH("b",A5)',
    'F48': '=SEARCH("B?",A5,1)', 'F49': '=VALUE(A10)', 'F50': '=LEFT(A5)', 'F51': '=SEARCH("z",A5)',
    'F52': '=SUMIF(A1:A3,">2")', 'F53': '=SUMIF(A1:A3,">2",B1:B3)', 'F54': '=SUMIFS(B1:B3,A1:A3,">0")', 'F55': '=COUNTIFS(A1:A3,">0")',
    'F56': '=AVERAGEIFS(B1:B3,A1:A3,">0",B1:B3,"<3")', 'F57': '=COUNTIFS(A4:A5,"a*")', 'F58': '=SUMIFS(B1:B3,A1:A3,A1)',
    'F59': '=COUNTIFS(A1:A3,">"&B1)', 'F60': '=COUNTIFS(A4:A5,"x")', 'F61': '=SUMIF(A4:A5,"a?c",B4:B5)',
    'F62': '=(A1+A2)%', 'F63': '=A1/A9', 'F64': '=A99+1', 'F65': '=A99&"t"', 'F66': '=IFERROR(VLOOKUP("zz",C1:D3,2,FALSE),"none")',
    'F71': '=A4&E1', 'F72': '=CONCATENATE(E2,"|",E3)', 'F73': '=COUNTIFS(A1:A3,">"&E2)', 'F74': '=E1&E2&E3&A6&A99', 'E1': 1e20, 'E2': 1e-5, 'E3': -2.5e16,
    # the guarded formula fails with the runtime's OWN exception (criteria range of another size than the value range)
    'F75': '=IFERROR(SUMIFS(A1:A3,B1:B2,">0"),-1)', 'F76': '=IFERROR(COUNTIFS(A1:A3,">0",B1:B2,">0"),-2)', 'F77': '=IFERROR(AVERAGEIFS(A1:A3,B1:B2,">0"),-3)',
    'F78': '=IFERROR(SUMIFS(A1:A3,B1:B3,">0",C1:C2,"k1"),"sizes")',
    'F67': '=INDEX(A1:A3&B1:B3,2)', 'F68': '=MIN(B1:B3)+MAX(B1:B3)', 'F69': '=TEXT(A1,"0")', 'F70': '=COUNT(1,2,"3")',
}
VALS = [[], [('A1', 7), ('A2', -1.25), ('A5', 'Abc'), ('A9', 2)], [('A1', 0), ('A4', ''), ('B2', 2.0), ('A7', dt.datetime(2023, 12, 31))],
        [('A1', 2.5), ('A3', 0), ('C2', 'K2'), ('B7', 99), ('A10', ' 12.5 ')]]


def make_classes(ctx):
    from excel2pycl import AbstractExcelInPython
    book = pipeline.Book(wbspec.spec(wbspec.sheet('S1', MIXED)), ctx.workdir, name='mixed')
    if book.cls is None:
        return None, None, book

    class Hand(AbstractExcelInPython):
        pass
    return book.cls, Hand, book


def helper_names(cls):
    out = {}
    for klass in reversed(cls.__mro__):
        if klass is object:
            continue
        for n, a in klass.__dict__.items():
            if n.startswith('__') or isinstance(a, type):
                continue
            if re.match(r'^_\d', n):
                continue  # translated cells
            f = a.__func__ if isinstance(a, (staticmethod, classmethod)) else a
            if callable(f):
                out[n] = (f, isinstance(a, staticmethod))
    return out


def canon(v, depth=0):
    if type(v).__name__ == 'EmptyCell':
        return ('EmptyCell',)
    if isinstance(v, float):
        if math.isnan(v):
            return ('float', 'nan')
        return ('float', repr(v))
    if isinstance(v, (list, tuple)):
        return (type(v).__name__, tuple(canon(i, depth + 1) for i in v))
    if isinstance(v, dict):
        return ('dict', tuple(sorted((repr(k), canon(x, depth + 1)) for k, x in v.items())))
    if callable(v) and not isinstance(v, type):
        return ('callable',)
    if isinstance(v, re.Match):
        return ('match', v.span(), v.group(0))
    return (type(v).__name__, repr(v))


def remap(v, cls):
    """map blank objects to cls's own EmptyCell"""
    if type(v).__name__ == 'EmptyCell':
        return cls.EmptyCell()
    if v is RAISE_OWN:
        return _raiser(cls.ExcelInPythonException('own'))
    if isinstance(v, list):
        return [remap(i, cls) for i in v]
    if isinstance(v, tuple):
        return tuple(remap(i, cls) for i in v)
    return v


def call(cls, inst, name, args, inst_given=False):
    f, is_static = helper_names(cls)[name]
    a = remap(args, cls)
    try:
        res = f(*a) if is_static else f(inst, *a)
        return ('ok', canon(res))
    except RecursionError:
        return ('exc', 'RecursionError')
    except BaseException as e:  # noqa: B902
        return ('exc', type(e).__name__)


B = 'BLANK'   # placeholder replaced per class
NUMS = [0, 1, -1, 2, 2.5, -2.5, 0.0045, 1.005, 10, 1e15, 2 ** 53 + 1, -0.0, 1e16, -1e16, 1e20, 1.5e300, 1e-5, -2.5e-7, 5e-324, 123456789012345678,
        0.1 + 0.2, 1 / 3, 2.0, -7.0, 1e15 + 0.5, 999999999999999.9, float('inf'), float('-inf'), float('nan')]
TEXTS = ['', 'a', 'abc', 'ABC', 'a?c', 'a*', '~*x', '10', '1.5', 'nan', 'x[1]', '2024-01-31', '31/01/2024', '12:30', '5%', '1 234,5', 'a.b', '(a)',
         # texts with a line break, a tab, a carriage return (Alt+Enter labels): wildcards run over them like over any character
         'a\nbc', 'Total\n2024', 'a\tc', 'a\r\nc', 'ab\n', '\n']
DATES = [dt.datetime(2024, 1, 31), dt.datetime(2024, 2, 29), dt.datetime(2023, 12, 31, 23, 59), dt.datetime(2020, 2, 29), dt.datetime(2024, 3, 1)]
# the edges of the calendar, for the functions that move by months (not for NETWORKDAYS: eight thousand years of days)
EDGE_DATES = [dt.datetime(9999, 12, 1), dt.datetime(9999, 11, 30), dt.datetime(9999, 12, 31), dt.datetime(9999, 1, 31), dt.datetime(1, 1, 15), dt.datetime(1, 2, 28), dt.datetime(1900, 1, 31)]
SPAN = [dt.datetime(2024, 1, 1) + dt.timedelta(days=d) for d in (0, 4, 5, 6, 7, 13, 30, 59, 60, 61, 90)]


class _HostError(Exception):
    pass


class _RaiseOwn:
    """replaced per class by a function that raises THAT class's ExcelInPythonException (remap)"""

    def __repr__(self):
        return 'RAISE_OWN'


RAISE_OWN = _RaiseOwn()


def _raiser(exc):
    def f():
        raise exc
    f.__qualname__ = 'raise_' + type(exc).__name__
    return f


# what a guarded expression can fail with: every family of built-in exceptions, decimal's, a plain Exception, somebody's subclass of it, and
# the runtime's own exception class
RAISERS = [_raiser(e) for e in (ZeroDivisionError('d'), ValueError('v'), TypeError('t'), KeyError('k'), IndexError('i'), AttributeError('a'), OverflowError('o'),
                                __import__('decimal').InvalidOperation(), Exception('plain'), RuntimeError('r'), _HostError('h'), StopIteration(), AssertionError('as'),
                                OSError('os'), UnicodeDecodeError('utf-8', b'x', 0, 1, 'u'), NotImplementedError('n'), NameError('nm'), LookupError('l'), ArithmeticError('ar'),
                                BufferError('b'), EOFError('e'), MemoryError('m'))] + [RAISE_OWN]


def holidays(rng):
    """a holiday range as the generated code hands it over: rows of 1-2 cells, dates of a few weeks (working days and weekends),
    the same date possibly listed more than once, a blank / text cell now and then"""
    pool = [dt.datetime(2024, 1, 1) + dt.timedelta(days=rng.randrange(0, 70)) for _ in range(4)]
    w = rng.choice([1, 1, 2])
    return [[rng.choice(pool + ([B, 'x'] if rng.random() < 0.2 else [])) for _ in range(w)] for _ in range(rng.randrange(1, 7))]


COL = [[1], [3], [3], [7], [B], ['x']]
ROW = [[1, 3, 3, 7, 9, 'x']]          # a horizontal range arrives as ONE row
ROW2 = [[10, 20, 30, 40, 50]]
TABLE = [[1, 'a', 10.5], [3, 'b', 20], [3, 'c', 30], [7, 'd', B], [B, 'e', 50]]


def synth(name, rng, n):
    """argument tuples for helper `name` (typed pools for the known families, generic pool otherwise)"""
    P = rng.choice
    ops = ['>=', '>', '<=', '<', '==', '!=', '??']
    scal = NUMS + TEXTS + DATES + [B, True, False, None]
    gens = {
        '_compare': lambda: (P(ops), P(scal), P(scal)), '_by_operator': lambda: (P(ops), P(NUMS + TEXTS), P(NUMS + TEXTS)),
        '_round': lambda: (P(NUMS + [B, 'x']), P([-3, -1, 0, 1, 2, 5, 1.0])), '_roundup': lambda: (P(NUMS + [B]), P([-2, 0, 1, 3])),
        '_rounddown': lambda: (P(NUMS + [B]), P([-2, 0, 1, 3])), '_decimal_round': lambda: (P(NUMS), P([-1, 0, 2]), P(['ROUND_HALF_UP', 'ROUND_UP', 'ROUND_DOWN'])),
        '_date': lambda: (P([1900, 2024, 99, -1, 10000, '2024', 'x']), P([-13, 0, 1, 2, 12, 13, 25, '3']), P([-400, -1, 0, 1, 28, 31, 32, 366, '5'])),
        '_datedif': lambda: (P(DATES + [1]), P(DATES + ['x']), P(['Y', 'M', 'D', 'MD', 'YM', 'YD', 'Q'])),
        '_edate': lambda: (P(DATES + EDGE_DATES + [5]), P([-14, -1, 0, 1, 1.9, 13, 11, 'x'])), '_eomonth': lambda: (P(DATES + EDGE_DATES + [5]), P([-14, -1, 0, 1, 1.9, 13, 11])),
        '_network_days': lambda: (P(DATES + SPAN + [1]), P(DATES + SPAN), P([None, [[DATES[0]], [B], ['x']], [[DATES[1], DATES[4]]], holidays(rng), holidays(rng)])),
        '_left': lambda: (P(TEXTS), P([None, -1, 0, 1, 2, 10])), '_right': lambda: (P(TEXTS), P([None, -1, 0, 1, 2, 10])),
        '_mid': lambda: (P(TEXTS), P([-1, 0, 1, 2, 5]), P([-1, 0, 1, 3])),
        '_search': lambda: (P(['a', 'B', 'b?', '*c', '~*', 'x[', '.', '', 'C*']), P(TEXTS), P([None, 0, 1, 2, 9])),
        '_value': lambda: (P(TEXTS + [' 7 ', '-3', '1e3', '1,5']),), '_excel_value_to_string': lambda: (P(scal),),
        '_match': lambda: (P([1, 3, 3.0, 5, 9, 0, 'x', 'X', B, 40, 10]), P([COL, COL, ROW, ROW2, [[5]], []]), P([0, 1, -1])),
        '_xmatch': lambda: (P([1, 3, 5, 9, 'x', 40, 10, 55]), P([COL, COL, ROW, ROW2, [[5]]]), P([0, -1, 1]), P([1, -1, 2, -2, 5])),
        '_vlookup': lambda: (P([1, 3, 3.0, 5, 9, 0, 'x', B, 10]), P([TABLE, TABLE, ROW2, COL]), P([1, 2, 3]), P([True, False, 0, 1, 'x'])),
        '_index': lambda: (P([TABLE, COL, [[1, 2, 3]], ROW, (TABLE, COL), (ROW2, ROW)]), P([-1, 0, 1, 2, 9, None]), P([None, 0, 1, 3, 9, -1]), P([1, 2, 3])),
        '_address': lambda: (P([1, 77, 1048575, 1048576, 1048577, 0, 2]), P([1, 26, 27, 52, 702, 703, 16383, 16384, 16385, 0]), *P([(), ('1',), ('4',), ('2', 'False'), ('3', 'True', 'Sh')])),
        '_sum': lambda: ([P(scal) for _ in range(4)],), '_average': lambda: ([P(NUMS + [B, 'x']) for _ in range(3)],),
        '_min': lambda: ([P(NUMS + ['x', '#N/A', B]) for _ in range(3)],), '_max': lambda: ([P(NUMS + ['x', '#REF!', B]) for _ in range(3)],),
        '_count': lambda: ([[P(scal)], [P(scal)]], [P(scal), '3'], P([[P(scal)], [P(scal), [1, 2, 'x']], [[4, 5.5]], [COL], [P(scal), P(scal)], [[1, [2, [3]]]]])), '_count_blank': lambda: ([P(scal + ['#N/A']) for _ in range(4)],),
        '_and': lambda: ([P(scal) for _ in range(3)],), '_or': lambda: ([P(scal) for _ in range(3)],),
        '_ifs': lambda: ([P([True, False, 0, 1]), P(scal), P([True, False]), P(scal + ['#N/A'])],),
        '_iferror': lambda: (P([lambda: 1, lambda: 1 / 0, lambda: '#N/A', lambda: 'x', lambda: B, lambda: None, lambda: float('nan'), lambda: float('inf'), lambda: ' #N/A'] + RAISERS),
                             P([lambda: 7, lambda: 'fb', lambda: B] + RAISERS[:3])),
        '_normalize_float_number': lambda: (P(NUMS + [0.1 + 0.2, 1 / 3]),), '_regexp': lambda: (P(['a?b', 'a*', '??', '~?x', 'x[1]', 'a~*b', '*', 'a.b', '(a|b)', '~~']),),
        '_flatten_list': lambda: (P([[1, [2, [3, B]]], [], [[['x']]], [COL, TABLE]]),), '_only_numeric_list': lambda: ([P(scal) for _ in range(5)], P([False, True])),
        '_only_bool_list': lambda: ([P(scal) for _ in range(5)],), '_only_datetime_list': lambda: ([P(scal) for _ in range(5)],),
        '_find_error_in_list': lambda: ([P(scal + ['#N/A', '#DIV/0!', ' #NULL!']) for _ in range(3)],),
        '_concat_arrays_values': lambda: (P([[1, 2], ['a'], []]), P([[3], ['b', 'c'], [B]])), '_when_cell_is_empty_cast_to_zero': lambda: ([P(scal) for _ in range(4)],),
        '_binary_search': lambda: (P([[[1], [3], [5], [7]], [[7], [5], [1]], [[2]]]), P([0, 1, 4, 5, 9]), P([False, True])),
        '_parse_date_obj': lambda: (P(TEXTS + DATES + [5, None]),), '_parse_date_formats': lambda: (P(['31/01/2024', '2024-01-31', 'x']), P(['%d/%m/%Y', '%Y-%m-%d'])),
        '_day': lambda: (P(DATES + EDGE_DATES + [1]),), '_month': lambda: (P(DATES + ['x']),), '_year': lambda: (P(DATES + EDGE_DATES),),
        '_to_number': lambda: (P(scal),), '_to_float': lambda: (P(scal),), '_today': lambda: (),
        '_sum_if': lambda: (P([COL, TABLE]), P([lambda x: x == 3, lambda x: isinstance(x, int) and x > 1, lambda x: True]), P([COL, [[10], [20], [30]], TABLE])),
        '_sumifs': lambda: ([[10], [20], [30]], [[1], [2], [B]], P([lambda x: x > 0, lambda x: x == 0]), *P([(), ([['a'], ['b'], ['a']], lambda x: x == 'a'), ([[1], [2]], lambda x: True)])),
        '_countifs': lambda: (P([[[1], [0], [3]], [['a'], [B], ['c']]]), P([lambda x: x is not None and x != 2, lambda x: x == 0, lambda x: True]), *P([(), ([[1], [2], [3]], lambda x: x > 1)])),
        '_averageifs': lambda: (P([[[10], [20], [30]], [[True], [B], [3]], [['x'], [1], [2]], []]), [[1], [2], [3]], P([lambda x: x > 1, lambda x: x > 9])),
        '_criterion': lambda: (P(scal + ['>5', '<=2.5', '<>a', '=abc', 'a*', '?', '~*', '>=2024-01-31', '<>', '=', '>x', '10', ' 7 ', '>1e3', '<-1', 'a*c', 'Total*', '*2024', '<>*20??', 'a?c', '=a?bc', '*', '??', 'a*\n']),),
        '_wildcard_pattern': lambda: (P(TEXTS + ['a?b', '*', '~~', '~?x~*', 'a.b*', '[a]?', '\\d+', '~', 'x~']),),
        '_criterion_number': lambda: (P(scal + [' 12 ', '-3.5', '1e3', 'inf', 'nan', '0x10', '1_000', '٣']),),
        'set_arguments': lambda: ([{'uid': '_0_0_0', 'value': P(NUMS)}],),
        'exec_function_in': lambda: (P(['_9_9_9', '_77_0_0']),), '_cell_preprocessor': lambda: (P(['_9_9_9', '_77_1_1']),),
    }
    out = []
    g = gens.get(name)
    for _ in range(n):
        if g is not None:
            out.append(tuple(g()))
    return out


def subst_blank(args, cls):
    if args is B or (isinstance(args, str) and args == B):
        return cls.EmptyCell()
    if isinstance(args, list):
        return [subst_blank(a, cls) for a in args]
    if isinstance(args, tuple):
        return tuple(subst_blank(a, cls) for a in args)
    return args


def plan(tier, seed):
    n = 6 if tier == 'quick' else 16
    return [{'part': i, 'parts': n} for i in range(n)]


def compare_structure(r, gen, hand):
    hg, hh = helper_names(gen), helper_names(hand)
    only_g, only_h = sorted(set(hg) - set(hh)), sorted(set(hh) - set(hg))
    r.ev()
    if only_g or only_h:
        report(r, ID, None, {'what': 'helper name sets'}, {'only_generated': only_g, 'only_abstract': only_h}, 'equal sets', monitor='helper-sets')
    for n in sorted(set(hg) & set(hh)):
        r.ev()
        try:
            sg, sh = str(inspect.signature(hg[n][0])), str(inspect.signature(hh[n][0]))
        except (TypeError, ValueError):
            continue
        norm = lambda s: re.sub(r'\s*->.*$', '', re.sub(r':\s*[^,)=]+', '', s)).replace(' ', '')
        if hg[n][1] != hh[n][1] or norm(sg) != norm(sh):
            report(r, ID, None, {'what': 'signature', 'helper': n}, {'generated': sg, 'abstract': sh}, 'same parameters', monitor='helper-signatures')
        r.count('helpers_compared')
    # EmptyCell tables
    eg, eh = gen.EmptyCell(), hand.EmptyCell()
    grid = NUMS + TEXTS[:6] + DATES[:2] + [None, True, False, [], [1]]
    for v in grid:
        for opn in ('__eq__', '__ne__', '__lt__', '__le__', '__gt__', '__ge__'):
            r.ev()
            try:
                a = getattr(eg, opn)(v)
            except Exception as e:
                a = type(e).__name__
            try:
                b = getattr(eh, opn)(v)
            except Exception as e:
                b = type(e).__name__
            if canon(a) != canon(b):
                report(r, ID, None, {'what': 'EmptyCell.' + opn, 'other': v}, {'generated': a, 'abstract': b}, 'equal', monitor='emptycell-table')
    for opn in ('__eq__', '__lt__', '__le__'):
        r.ev()
        if getattr(eg, opn)(gen.EmptyCell()) != getattr(eh, opn)(hand.EmptyCell()):
            report(r, ID, None, {'what': 'EmptyCell.' + opn, 'other': 'EmptyCell'}, None, 'equal', monitor='emptycell-table')
    return sorted(set(hg) & set(hh))


def call_predicate(cls, inst, name, args):
    """helpers that return a predicate (_criterion): compare what the predicate says on a grid of cells"""
    f, is_static = helper_names(cls)[name]
    try:
        pred = f(*args) if is_static else f(inst, *args)
    except BaseException as e:  # noqa: B902
        return ('exc', type(e).__name__)
    out = []
    for cell in NUMS[:12] + TEXTS + DATES[:3] + [cls.EmptyCell(), True, False, None, dt.date(2024, 1, 31)]:
        try:
            out.append(canon(pred(cell)))
        except BaseException as e:  # noqa: B902
            out.append(('exc', type(e).__name__))
    return ('pred', tuple(out))


def differential(r, gen, hand, name, args, source):
    gi, hi = gen(), hand()
    if name == '_criterion':
        a = call_predicate(gen, gi, name, subst_blank(args, gen))
        b = call_predicate(hand, hi, name, subst_blank(args, hand))
    else:
        a = call(gen, gi, name, subst_blank(args, gen))
        b = call(hand, hi, name, subst_blank(args, hand))
    r.ev()
    if name == '_today' and a[0] == b[0] == 'ok':
        return
    if a != b:
        report(r, ID, None, {'helper': name, 'args': canon(args), 'source': source}, {'generated': a, 'abstract': b}, 'identical result or exception class',
               monitor='helper-differential')
    if a[0] in ('ok', 'pred') or b[0] in ('ok', 'pred'):
        r.nt((name, repr(canon(args))))
    r.count('diff:' + name)


def run_shard(shard, ctx):
    r, rng = ctx.r, ctx.rng
    gen, hand, book = make_classes(ctx)
    if gen is None:
        r.violation('translate', {'spec': 'MIXED'}, book.whole.brief(), 'a loadable class')
        return
    if 'replay' in shard:
        c = shard['replay']
        if 'helper' not in c:
            compare_structure(r, gen, hand)
            return
        # replays of differential cases re-run the synthetic pool of that helper (arguments hold callables/blanks)
        for args in synth(c['helper'], rng, 400):
            differential(r, gen, hand, c['helper'], args, 'synthetic')
        return
    common = helper_names(gen).keys() & helper_names(hand).keys()
    if shard['part'] == 0:
        compare_structure(r, gen, hand)
        # classes DERIVED from the two runtimes: a subclass of the generated class, and a hand-written class two steps below the base class
        # (cells as methods, the way the base class is meant to be used) answer like the class that defines the cells
        import re as _re
        Sub = type('Sub', (gen,), {})
        SubSub = type('SubSub', (Sub,), {'extra': 1})
        uids = sorted(k for k in gen.__dict__ if _re.fullmatch(r'_\d+_\d+_\d+', k))[:40]
        for uid in uids:
            outs = []
            for klass in (gen, Sub, SubSub):
                try:
                    outs.append(('ok', canon(klass().exec_function_in(uid))))
                except BaseException as e:  # noqa: B902
                    outs.append(('exc', type(e).__name__))
            r.ev()
            r.count('derived_class_checks')
            if not (outs[0] == outs[1] == outs[2]):
                report(r, ID, None, {'helper': '_cell_preprocessor', 'args': [uid], 'source': 'subclass of the generated class'},
                       {'generated': outs[0], 'subclass': outs[1], 'subclass_of_subclass': outs[2]}, 'the same value from a derived class', monitor='derived-class')
        H = type('H', (hand,), {'_0_0_0': lambda self: 5, '_0_1_0': lambda self: self._cell_preprocessor('_0_0_0') + 1,
                                '_0_2_0': lambda self: self._sum(self._flatten_list([[self._cell_preprocessor('_0_0_0')], [self._cell_preprocessor('_0_1_0')]]))})
        H2 = type('H2', (H,), {})
        for uid, want in (('_0_0_0', 5), ('_0_1_0', 6), ('_0_2_0', 11)):
            for klass in (H, H2):
                try:
                    got = ('ok', klass().exec_function_in(uid))
                except BaseException as e:  # noqa: B902
                    got = ('exc', type(e).__name__)
                r.ev()
                r.count('derived_class_checks')
                if got != ('ok', want):
                    report(r, ID, None, {'helper': '_cell_preprocessor', 'args': [uid], 'source': 'hand-written class derived from ' + klass.__mro__[1].__name__},
                           got, want, monitor='derived-class')
    # (a) recorded in situ
    recorded = []
    mon = RuntimeMonitor(r, record_args=recorded, prefix='insitu')
    # a second, independent load of the same text is instrumented, so that the differential below uses an untouched class
    rec_cls = pipeline.load_text(book.whole.value).value
    mon.install(rec_cls)
    formulas = [a for a, v in MIXED.items() if isinstance(v, str) and v.startswith('=')]
    vals = VALS if shard['part'] % 2 == 0 else [VALS[rng.randrange(len(VALS))] + [('A1', rng.choice(NUMS[:8])), ('A5', rng.choice(TEXTS))]]
    for val in vals:
        for a in formulas:
            r_, c_ = wbspec.rc(a)
            pipeline.query(rec_cls, 0, r_, c_, [(0, *wbspec.rc(x), v) for x, v in val])
    seen = set()
    for name, args in recorded:
        if name not in common:
            continue
        key = (name, repr(canon(args)))
        if key in seen:
            continue
        seen.add(key)
        if hash(key) % shard['parts'] != shard['part'] and ctx.tier == 'thorough':
            pass
        differential(r, gen, hand, name, args, 'recorded')
    r.count('recorded_distinct_calls', len(seen))
    # (b) synthetic
    per = 60 if ctx.tier == 'quick' else 500
    for name in sorted(common):
        for args in synth(name, rng, per):
            differential(r, gen, hand, name, args, 'synthetic')
        # (c) the same tuples once more as ONE history on ONE instance of each runtime: state a helper keeps on its instance
        #     (or on its class) between calls must evolve identically in both runtimes
        gi, hi = gen(), hand()
        for k, args in enumerate(synth(name, rng, per)):
            if name == '_criterion':
                a = call_predicate(gen, gi, name, subst_blank(args, gen))
                b = call_predicate(hand, hi, name, subst_blank(args, hand))
            else:
                a = call(gen, gi, name, subst_blank(args, gen), inst_given=True)
                b = call(hand, hi, name, subst_blank(args, hand), inst_given=True)
            r.ev()
            r.count('stateful_calls')
            if name == '_today' and a[0] == b[0] == 'ok':
                continue
            if a != b:
                report(r, ID, None, {'helper': name, 'args': canon(args), 'source': 'synthetic-history', 'position_in_history': k},
                       {'generated': a, 'abstract': b}, 'identical result or exception class on one long-lived instance', monitor='helper-differential-history')
                break
        if not synth(name, rng, 1) and name not in ('get_titles', 'get_sheets_size'):  # those two return workbook data
            r.seen('helpers_without_synthetic_pool', name)
    r.sample({'helpers': sorted(common)[:8], 'recorded_example': [n for n, _ in recorded[:5]]})


def finish(r, tier, seed):
    return {'differential_calls_per_helper': {k[5:]: v for k, v in r.counters.items() if k.startswith('diff:')}, 'exhaustive': False,
            'programs': 2, 'disagreements_checked': r.n_violations}
