"""Drive the REAL library at its public boundary and classify what happened.

Parser -> text -> load (class object / file) -> Executor.  Nothing here interprets results; oracles do.
"""
import os
import traceback

from . import env
from .wbspec import enc

env.setup()

from excel2pycl import Parser, Executor, Cell  # noqa: E402
from excel2pycl.src.exceptions import E2PyclException  # noqa: E402

VALUE, LIB_EXC, FOREIGN_EXC = 'VALUE', 'LIB_EXC', 'FOREIGN_EXC'


class Outcome:
    __slots__ = ('kind', 'value', 'exc', 'phase', 'tb', 'second')

    def __init__(self, kind, value=None, exc=None, phase=None, tb=None):
        self.kind, self.value, self.exc, self.phase, self.tb = kind, value, exc, phase, tb
        self.second = None      # outcome of asking the same Parser once more after a refusal (see translate)

    @property
    def ok(self):
        return self.kind == VALUE

    @property
    def exc_name(self):
        return type(self.exc).__name__ if self.exc is not None else None

    def brief(self):
        if self.kind == VALUE:
            return {'kind': VALUE, 'value': enc(self.value), 'type': type(self.value).__name__}
        return {'kind': self.kind, 'exc': self.exc_name, 'msg': str(self.exc)[:160], 'phase': self.phase}

    def __repr__(self):
        return f'Outcome({self.brief()})'


def _exc_outcome(e, phase):
    kind = LIB_EXC if isinstance(e, E2PyclException) else FOREIGN_EXC
    # no traceback formatting here: on 3.12 it compiles source segments (audit 'compile' events inside C07's windows)
    return Outcome(kind, exc=e, phase=phase, tb=None)


def _host_settings():
    """VERIF_HOST_DECIMAL=<prec>[,<rounding>]: every library call runs with the calling thread's decimal context set the way a host
    program might have set it (money code with a small precision). Properties quantify over inputs, not over the host's arithmetic
    settings: the observations must be the same. The harness's own reference arithmetic runs outside of it."""
    if os.environ.get('VERIF_HOST_CALENDAR'):
        # process-wide: which weekday the host's calendars start with (calendar.setfirstweekday(calendar.SUNDAY) for US-style month views);
        # the layout of calendar.monthcalendar / Calendar() follows it, the Gregorian calendar does not
        import calendar
        calendar.setfirstweekday(int(os.environ['VERIF_HOST_CALENDAR']))
    v = os.environ.get('VERIF_HOST_DECIMAL')
    if not v:
        return None
    import decimal
    parts = v.split(',')
    traps = []
    if 'traps' in parts:
        # ... or a host that wants to hear about every inexact decimal operation of its own code: the documented place for application-wide
        # defaults is DefaultContext (new Context objects and new threads inherit from it), and the running thread's context has them too
        parts.remove('traps')
        traps = [decimal.Inexact, decimal.Rounded, decimal.InvalidOperation, decimal.DivisionByZero, decimal.Overflow, decimal.Subnormal, decimal.Underflow]
        for t in (decimal.Inexact, decimal.Rounded, decimal.Subnormal):
            decimal.DefaultContext.traps[t] = True
    return decimal.Context(prec=int(parts[0]), rounding=getattr(decimal, parts[1]) if len(parts) > 1 else decimal.ROUND_DOWN, traps=traps)


_HOST_CTX = _host_settings()


def guarded(fn, phase):
    if _HOST_CTX is not None:
        import decimal
        inner = fn

        def fn():
            with decimal.localcontext(_HOST_CTX):
                return inner()
    try:
        return Outcome(VALUE, fn())
    except (KeyboardInterrupt, SystemExit):
        raise
    except BaseException as e:  # noqa: B902 - every failure is an observation
        if type(e).__name__ in ('StepBudgetExceeded',):
            raise
        return _exc_outcome(e, phase)


def interpreter_state():
    """process-wide interpreter settings a library call has no business changing (and must restore if it touches them)"""
    import decimal
    import locale
    import sys
    c = decimal.getcontext()
    return {'recursionlimit': sys.getrecursionlimit(), 'decimal_prec': c.prec, 'decimal_rounding': c.rounding, 'cwd': os.getcwd(),
            'sys_path_len': len(sys.path), 'locale': locale.setlocale(locale.LC_ALL), 'int_max_str_digits': sys.get_int_max_str_digits()}


def make_parser(path, entry=None, safety=False):
    p = Parser().set_excel_file_path(path)
    if entry is not None:
        p.set_entrypoint_cell(entry)
    if safety:
        p.enable_safety_check()
    else:
        p.disable_safety_check()
    return p


def translate(path, entry=None, safety=False, ask_again=True):
    """-> Outcome whose value is the source text.  A Parser that refused (library exception) is asked once more without any
    setter call in between; that second answer is kept in Outcome.second: a refusal must be repeatable - the same request must
    not suddenly yield None, a stale class or a foreign exception (history-dependent loss of a rejection)."""
    p = guarded(lambda: make_parser(path, entry, safety), 'translate')
    if not p.ok:
        return p
    o = guarded(lambda: p.value.get_translation(), 'translate')
    if ask_again and o.kind == LIB_EXC:
        o.second = guarded(lambda: p.value.get_translation(), 'translate')
    return o


def refusal_repeatable(o):
    """None if fine, else a description of how the second answer of the same Parser differs from its refusal"""
    s = getattr(o, 'second', None)
    if s is None:
        return None
    if s.kind == LIB_EXC and type(s.exc) is type(o.exc):
        return None
    return {'first': o.brief(), 'second': s.brief() if s.kind != VALUE else {'kind': 'VALUE', 'type': type(s.value).__name__, 'len': len(s.value) if isinstance(s.value, str) else None}}


def load_text(text, name='<generated>'):
    """exec the generated module -> Outcome(value = class)"""
    def _load():
        ns = {'__name__': 'generated_excel_in_python'}
        code = compile(text, name, 'exec')
        exec(code, ns)
        return ns['ExcelInPython']
    return guarded(_load, 'load')


def load_file(path):
    def _load():
        return Executor().set_executed_class(class_file=path)
    return guarded(_load, 'load_file')


def entry_cell(title, addr):
    """entry point given as sheet title + A1 address"""
    from .wbspec import _A1
    m = _A1.match(addr)
    return Cell(title, m.group(1), m.group(2))


def file_executor(text, workdir, tag, name='model.py', prefill=None):
    """the class text written to <workdir>/<tag>/<name> (the SAME file name for every tag: a loader that remembers modules by file name
    mixes them up) and loaded through Executor.set_executed_class(class_file=...). prefill: text the path holds before (a longer class
    of an earlier translation). -> Outcome(Executor)"""
    d = os.path.join(workdir, tag)
    os.makedirs(d, exist_ok=True)
    path = os.path.join(d, name)
    if prefill is not None:
        with open(path, 'w', encoding='utf-8', newline='') as f:
            f.write(prefill)
    with open(path, 'w', encoding='utf-8', newline='') as f:
        f.write(text)
    return guarded(lambda: Executor().set_executed_class(class_file=path), 'load_file'), path


def ncell(sheet_idx, row, col, value=None):
    """numeric addressing, 1-based row/col of the spec -> 0-based Cell"""
    return Cell(sheet_idx, col - 1, row - 1, value)


def query(cls, sheet_idx, row, col, overrides=None):
    """fresh Executor per point (re-using one is quadratic on the pinned tree). overrides: [(sheet_idx,row,col,value)]"""
    def _q():
        ex = Executor().set_executed_class(class_object=cls)
        if overrides:
            ex.set_cells([ncell(s, r, c, v) for (s, r, c, v) in overrides])
        return ex.get_cell(ncell(sheet_idx, row, col)).value
    return guarded(_q, 'evaluate')


def query_many(cls, targets, overrides=None):
    """one fresh Executor, one override batch, several guarded queries. targets: [(sheet_idx,row,col)]"""
    try:
        ex = Executor().set_executed_class(class_object=cls)
        if overrides:
            ex.set_cells([ncell(s, r, c, v) for (s, r, c, v) in overrides])
    except (KeyboardInterrupt, SystemExit):
        raise
    except BaseException as e:  # noqa: B902
        o = _exc_outcome(e, 'evaluate')
        return [o for _ in targets]
    return [guarded(lambda t=t: ex.get_cell(ncell(*t)).value, 'evaluate') for t in targets]


class Book:
    """One workbook spec translated with the real Parser. Whole-file first; if that raises, every formula
    cell of interest is translated on its own through the entry-point API, so one bad formula cannot mask
    the others."""

    def __init__(self, spec, workdir, name='wb', per_cell=False, cells_of_interest=None, safety=False):
        from . import wbspec
        os.makedirs(workdir, exist_ok=True)
        self.spec = spec
        self.path = os.path.join(workdir, name + '.xlsx')
        wbspec.write(spec, self.path)
        self.titles = [s['title'] for s in spec['sheets'] if not s.get('chart')]
        self.whole = None          # Outcome of whole-file translation (value = text)
        self.cls = None
        self.per_cell = {}         # (sheet_idx, addr) -> Outcome(cls) for fallback mode
        self.texts = {}
        self.mode = 'whole'
        self.safety = safety
        if not per_cell:
            self.whole = translate(self.path, safety=safety)
            if self.whole.ok:
                ld = load_text(self.whole.value)
                if ld.ok:
                    self.cls = ld.value
                else:
                    self.whole = ld
        if self.cls is None:
            self.mode = 'per_cell'
            if cells_of_interest is None:
                cells_of_interest = [(si, addr) for si, s in enumerate(self.sheets())
                                     for addr, v in s.get('cells', {}).items()
                                     if isinstance(v, str) and v.startswith('=')]
            for (si, addr) in cells_of_interest:
                self.per_cell[(si, addr)] = self._one(si, addr)

    def sheets(self):
        return [s for s in self.spec['sheets'] if not s.get('chart')]

    def _one(self, si, addr):
        t = translate(self.path, entry=entry_cell(self.titles[si], addr), safety=self.safety)
        if not t.ok:
            return t
        self.texts[(si, addr)] = t.value
        return load_text(t.value)

    def klass(self, si, addr):
        """-> Outcome(value=class) for the class that can evaluate this cell"""
        if self.cls is not None:
            return Outcome(VALUE, self.cls)
        if (si, addr) not in self.per_cell:
            self.per_cell[(si, addr)] = self._one(si, addr)
        return self.per_cell[(si, addr)]

    def text_for(self, si, addr):
        if self.cls is not None:
            return self.whole.value
        return self.texts.get((si, addr))

    def value(self, si, addr, overrides=None):
        """Outcome of evaluating cell; translation failure is reported as that failure."""
        from .wbspec import rc
        k = self.klass(si, addr)
        if not k.ok:
            return k
        r, c = rc(addr)
        ov = None
        if overrides:
            ov = [(s, *rc(a), v) for (s, a, v) in overrides]
        return query(k.value, si, r, c, ov)

    def values(self, si, addrs, overrides=None):
        """several cells of one sheet under one override batch (whole-file mode); falls back to value()"""
        from .wbspec import rc
        if self.cls is None:
            return [self.value(si, a, overrides) for a in addrs]
        ov = [(s, *rc(a), v) for (s, a, v) in overrides] if overrides else None
        return query_many(self.cls, [(si, *rc(a)) for a in addrs], ov)
