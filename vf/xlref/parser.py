"""Independent formula reader: hand tokenizer + precedence-climbing parser (NOT ordered token sets).

Grammar = the subset the properties talk about.  Precedence (tightest first): postfix % > unary +/- > * / > + - > & >
comparisons; binary operators associate to the left.  parse() raises ParseError for anything else - which only
means "the reference model has no opinion", never "the library must reject".
"""
import re

from openpyxl.utils import column_index_from_string


class ParseError(Exception):
    pass


_NUM = re.compile(r'\d+(\.\d+)?(e-?\d+)?')
_STR = re.compile(r'"((?:[^"]|"")*)"')
_SHEET = r"(?:(?:'([^'!]+)'|([^\W]+?))!)"        # a sheet prefix names a sheet: an empty one is not in the grammar
_REF = re.compile(_SHEET + r'?\$?([A-Z]{1,3})\$?(\d{1,7})(?::\$?([A-Z]{1,3})\$?(\d{1,7}))?(?![\d(A-Za-z_])')
_COLREF = re.compile(_SHEET + r'?\$?([A-Z]{1,3}):\$?([A-Z]{1,3})(?![\d(A-Za-z_$])')
_FUNC = re.compile(r'([A-Z]+)\(')
_BOOL = re.compile(r'(TRUE|FALSE)(\(\))?(?![A-Za-z0-9_(])')
_WS = re.compile(r'[ \t\r\n]+')
_OPS = ['<>', '>=', '<=', '=', '>', '<', '+', '-', '*', '/', '&', '%', '(', ')', ',', ';']


def tokenize(text):
    """text: formula WITHOUT the leading '='.  -> list of (kind, value)"""
    i, n, out = 0, len(text), []
    while i < n:
        m = _WS.match(text, i)
        if m:
            i = m.end()
            continue
        m = _STR.match(text, i)
        if m:
            out.append(('str', m.group(1).replace('""', '"')))
            i = m.end()
            continue
        m = _BOOL.match(text, i)
        if m:
            out.append(('bool', m.group(1) == 'TRUE'))
            i = m.end()
            continue
        m = _FUNC.match(text, i)
        if m:
            out.append(('func', m.group(1)))
            out.append(('op', '('))
            i = m.end()
            continue
        m = _REF.match(text, i)
        if m:
            sheet = m.group(1) if m.group(1) is not None else m.group(2)
            c1, r1 = column_index_from_string(m.group(3)), int(m.group(4))
            if m.group(5):
                c2, r2 = column_index_from_string(m.group(5)), int(m.group(6))
                # the corners in any order span the same area
                r1, r2, c1, c2 = min(r1, r2), max(r1, r2), min(c1, c2), max(c1, c2)
                out.append(('ref', (sheet, r1, c1, r2, c2, True)))
            else:
                out.append(('ref', (sheet, r1, c1, r1, c1, False)))
            i = m.end()
            continue
        m = _COLREF.match(text, i)
        if m:
            sheet = m.group(1) if m.group(1) is not None else m.group(2)
            ca, cb = column_index_from_string(m.group(3)), column_index_from_string(m.group(4))
            out.append(('ref', (sheet, None, min(ca, cb), None, max(ca, cb), True)))
            i = m.end()
            continue
        m = _NUM.match(text, i)
        if m:
            t = m.group(0)
            out.append(('num', t))
            i = m.end()
            continue
        for op in _OPS:
            if text.startswith(op, i):
                out.append(('op', op))
                i += len(op)
                break
        else:
            raise ParseError(f'unexpected character {text[i]!r} at {i}')
    return out


def num_value(t):
    """a numeric literal denotes the double nearest to its decimal text (ints stay ints)"""
    if '.' in t or 'e' in t:
        v = float(t)
        return v
    v = int(t)
    # an Excel number is a double: a whole number beyond 2^53 is the double nearest to it
    return float(v) if v > 2 ** 53 else v


_CMP = {'=', '<>', '<', '>', '<=', '>='}
_BINPREC = {'=': 1, '<>': 1, '<': 1, '>': 1, '<=': 1, '>=': 1, '&': 2, '+': 3, '-': 3, '*': 4, '/': 4}


class _P:
    def __init__(self, toks, prec=None, right=False):
        self.t, self.i = toks, 0
        self.prec = prec or _BINPREC
        self.right = right

    def peek(self):
        return self.t[self.i] if self.i < len(self.t) else (None, None)

    def take(self):
        tok = self.peek()
        self.i += 1
        return tok

    def expect_op(self, op):
        k, v = self.take()
        if k != 'op' or v != op:
            raise ParseError(f'expected {op!r}, got {v!r}')

    def expr(self, minprec=1):
        left = self.unary()
        while True:
            k, v = self.peek()
            if k == 'op' and v in self.prec and self.prec[v] >= minprec:
                self.take()
                right = self.expr(self.prec[v] + (0 if self.right else 1))
                left = ('bin', v, left, right)
            else:
                return left

    def unary(self):
        k, v = self.peek()
        if k == 'op' and v in '+-' and v:
            self.take()
            x = self.unary()
            return ('un', v, x)
        return self.postfix()

    def postfix(self):
        x = self.atom()
        while self.peek() == ('op', '%'):
            self.take()
            x = ('pct', x)
        return x

    def atom(self):
        k, v = self.take()
        if k == 'num':
            return ('num', num_value(v), v)
        if k == 'str':
            return ('str', v)
        if k == 'bool':
            return ('bool', v)
        if k == 'ref':
            return ('ref',) + v
        if k == 'op' and v == '(':
            e = self.expr()
            if self.peek()[0] == 'op' and self.peek()[1] in ',;':
                items = [e]                      # reference union (INDEX over several areas)
                while self.peek()[0] == 'op' and self.peek()[1] in ',;':
                    self.take()
                    items.append(self.expr())
                self.expect_op(')')
                return ('union', items)
            self.expect_op(')')
            return ('par', e)
        if k == 'func':
            self.expect_op('(')
            args = []
            if self.peek() == ('op', ')'):
                self.take()
                return ('call', v, args)
            while True:
                args.append(self.expr())
                k2, v2 = self.take()
                if k2 == 'op' and v2 == ')':
                    return ('call', v, args)
                if not (k2 == 'op' and v2 in ',;'):
                    raise ParseError(f'expected separator or ), got {v2!r}')
        raise ParseError(f'unexpected token {v!r}')


FLAT = {op: 1 for op in _BINPREC}


_CACHE = {}


def parse(formula, prec=None, right=False):
    if prec is None and not right:
        if formula not in _CACHE:
            if len(_CACHE) > 50000:
                _CACHE.clear()
            try:
                _CACHE[formula] = _parse(formula)
            except ParseError as e:
                _CACHE[formula] = e
        v = _CACHE[formula]
        if isinstance(v, ParseError):
            raise v
        return v
    return _parse(formula, prec, right)


def _parse(formula, prec=None, right=False):
    """formula: cell text starting with '='  -> AST (tuples).  prec/right: deliberately WRONG groupings, used only
    to decide whether a mis-grouping of this formula would be observable under a valuation."""
    if not formula.startswith('='):
        raise ParseError('not a formula')
    p = _P(tokenize(formula[1:]), prec, right)
    e = p.expr()
    if p.i != len(p.t):
        raise ParseError(f'trailing tokens from {p.i}: {p.t[p.i:p.i + 3]}')
    return e


def refs(ast, out=None):
    """all ('ref', ...) nodes in an AST"""
    if out is None:
        out = []
    if isinstance(ast, tuple):
        if ast and ast[0] == 'ref':
            out.append(ast)
        else:
            for x in ast[1:]:
                if isinstance(x, (tuple, list)):
                    refs(x, out)
    elif isinstance(ast, list):
        for x in ast:
            refs(x, out)
    return out
