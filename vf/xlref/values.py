"""Value model of the reference evaluator and the equivalence between library observations and
reference outcomes."""
import datetime as dt
import math

ERROR_TEXTS = {'#NUM!', '#DIV/0!', '#N/A', '#NAME?', '#NULL!', '#REF!', '#VALUE!', '#ERROR!', '#DIV0!'}


class Blank:
    _inst = None

    def __new__(cls):
        if cls._inst is None:
            cls._inst = super().__new__(cls)
        return cls._inst

    def __repr__(self):
        return 'BLANK'


BLANK = Blank()


class Err:
    """Excel error value. kind None = 'some error, the statement does not say which'."""
    __slots__ = ('kind',)

    def __init__(self, kind=None):
        self.kind = kind

    def __repr__(self):
        return f'Err({self.kind})'

    def __eq__(self, o):
        return isinstance(o, Err) and o.kind == self.kind

    def __hash__(self):
        return hash(('Err', self.kind))


class XlError(Exception):
    """raised inside the reference evaluator to propagate an Excel error value"""

    def __init__(self, kind=None):
        super().__init__(kind)
        self.kind = kind


class AnyValue:
    def __repr__(self):
        return 'ANY'


ANY = AnyValue()


def is_num(v):
    return isinstance(v, (int, float)) and not isinstance(v, bool)


def is_blank_lib(v):
    return v is None or type(v).__name__ == 'EmptyCell'


def norm(v):
    """library value -> reference value"""
    if is_blank_lib(v) or v is BLANK:
        return BLANK
    if isinstance(v, str) and v in ERROR_TEXTS:
        return Err(v)
    if isinstance(v, dt.datetime):
        return v
    if isinstance(v, dt.date):
        return dt.datetime(v.year, v.month, v.day)
    if isinstance(v, list):
        return [norm(i) for i in v]
    return v


def num_eq(a, b, exact, scale=0.0):
    if isinstance(a, float) and math.isnan(a) or isinstance(b, float) and math.isnan(b):
        return False
    if exact:
        return a == b
    if a == b:
        return True
    try:
        return abs(a - b) <= max(1e-12 * max(abs(a), abs(b)), 1e-13 * scale)
    except OverflowError:
        return False


def val_eq(got, exp, exact=True, err_exact=False, empty_text_is_blank=False, scale=0.0):
    """got: normalised library value; exp: one reference outcome"""
    if exp is ANY:
        return True
    if isinstance(exp, str) and exp in ERROR_TEXTS:
        exp = Err(exp)      # the library represents error values by their text: an expected error text IS that error value
    if isinstance(exp, Err):
        if not isinstance(got, Err):
            return False
        return (not err_exact) or exp.kind is None or got.kind == exp.kind
    if isinstance(got, Err):
        return False
    if exp is BLANK:
        return got is BLANK
    if got is BLANK:
        # the library hands an empty text result over as its blank object (which equals "" in its own comparisons)
        return empty_text_is_blank and isinstance(exp, str) and exp == ''
    if isinstance(exp, bool) or isinstance(got, bool):
        return isinstance(exp, bool) and isinstance(got, bool) and exp == got
    if is_num(exp):
        return is_num(got) and num_eq(got, exp, exact, scale)
    if isinstance(exp, str):
        return isinstance(got, str) and got == exp
    if isinstance(exp, dt.datetime):
        return isinstance(got, dt.datetime) and got == exp
    if isinstance(exp, list):
        return isinstance(got, list) and len(got) == len(exp) and all(
            val_eq(g, e, exact, err_exact, empty_text_is_blank, scale) for g, e in zip(got, exp))
    return got == exp


def outcome_matches(outcome, expected, exact=True, err_exact=False, reject_ok=False, empty_text_is_blank=False, scale=0.0):
    """outcome: pipeline.Outcome of translate+evaluate; expected: iterable of acceptable reference outcomes.
    An exception while *evaluating* counts as 'an error value' (the library models most Excel errors as
    Python exceptions).  A failure while translating/loading only matches when reject_ok."""
    expected = list(expected)
    if outcome.kind != 'VALUE':
        if outcome.phase == 'evaluate':
            # a failing evaluation stands for "some error value"; where the clause names the error value
            # (err_exact and a kind given) only that value itself is accepted
            return any(e is ANY or (isinstance(e, Err) and (not err_exact or e.kind is None)) for e in expected)
        return reject_ok and outcome.kind == 'LIB_EXC'
    got = norm(outcome.value)
    return any(val_eq(got, e, exact, err_exact, empty_text_is_blank, scale) for e in expected)
