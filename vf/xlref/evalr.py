"""Reference evaluator: documented Excel semantics for exactly the clauses the property statements spell out.

Where a statement is silent the evaluator consults a *choice flag*; outcomes() re-evaluates under every
combination of the flags actually consulted and returns the set of acceptable outcomes.  NoOpinion = the
reference model has nothing to say about this input (the case is skipped and counted, never judged).
"""
import calendar
import datetime as dt
import decimal
import itertools
import re
from decimal import Decimal

from openpyxl.utils import get_column_letter

from .parser import parse, ParseError, refs as ast_refs
from .values import BLANK, Err, XlError, ANY, is_num, ERROR_TEXTS
from ..wbspec import dec, rc


class NoOpinion(Exception):
    pass


class Cycle(Exception):
    pass


EPOCH = dt.datetime(1899, 12, 30)


class Area:
    def __init__(self, rows, sheet, r1, c1, whole_col=False):
        self.rows, self.sheet, self.r1, self.c1, self.whole_col = rows, sheet, r1, c1, whole_col

    @property
    def h(self):
        return len(self.rows)

    @property
    def w(self):
        return len(self.rows[0]) if self.rows else 0

    def flat(self):
        return [v for row in self.rows for v in row]

    def __repr__(self):
        return f'Area({self.sheet}!R{self.r1}C{self.c1} {self.h}x{self.w})'


class Env:
    """workbook model built from a wbspec + overrides {(sheet_title,row,col): value}"""

    def __init__(self, spec, overrides=None, now=None):
        self.order = [s['title'] for s in spec['sheets'] if not s.get('chart')]
        self.cells, self.max_row, self.max_col = {}, {}, {}
        for s in spec['sheets']:
            if s.get('chart'):
                continue
            d = {}
            for addr, v in s.get('cells', {}).items():
                v = dec(v)
                if v is None or v == '':
                    continue
                if isinstance(v, float):
                    v = float(f'{v:.16g}')      # what the .xlsx holds: openpyxl writes numbers with 16 significant digits
                d[rc(addr)] = v
            self.cells[s['title']] = d
            self.max_row[s['title']] = max([r for r, _ in d], default=0)
            self.max_col[s['title']] = max([c for _, c in d], default=0)
        self.overrides = dict(overrides or {})
        self.now = now


def serial(d):
    delta = d - EPOCH
    return delta.days + delta.seconds / 86400


def text_of(v):
    if v is BLANK:
        return ''
    if isinstance(v, bool):
        return 'TRUE' if v else 'FALSE'
    if isinstance(v, int):
        return str(v)
    if isinstance(v, float):
        if v != v or abs(v) == float('inf'):
            raise NoOpinion('text form of a non-finite number')
        if v == int(v) and abs(v) < 1e15:
            return str(int(v))
        if not 1e-9 <= abs(v) < 1e15:
            raise NoOpinion('text form of a number written with an exponent')
        # 15 significant digits of the number the double stands for, written plainly (0.1+0.2 is "0.3", 1/3 "0.333333333333333")
        d = decimal.Context(prec=15, rounding=decimal.ROUND_HALF_EVEN, traps=[]).create_decimal(Decimal(v))
        t = format(d, 'f')
        if '.' in t:
            t = t.rstrip('0').rstrip('.')
        return t
    if isinstance(v, str):
        return v
    if isinstance(v, dt.datetime):
        if v.hour or v.minute or v.second or v.microsecond:
            # the serial number with the time of day as its fraction
            return text_of((v - dt.datetime(1899, 12, 30)).total_seconds() / 86400)
        return str((v - dt.datetime(1899, 12, 30)).days)      # joined to a text a date is its serial number
    raise NoOpinion(f'text form of {type(v).__name__}')


_ISODATE = re.compile(r'^\s*(\d{4})-(\d{1,2})-(\d{1,2})\s*$')
_NUMTXT = re.compile(r'^\s*[+-]?(\d+(\.\d*)?|\.\d+)([eE][+-]?\d+)?\s*$', re.ASCII)


def to_num(v):
    if v is BLANK:
        return 0
    if isinstance(v, bool):
        return int(v)
    if is_num(v):
        return v
    if isinstance(v, str):
        raise NoOpinion('text operand in arithmetic')
    if isinstance(v, dt.datetime):
        raise NoOpinion('date operand in arithmetic')
    raise NoOpinion('operand type')


def truth(v):
    if isinstance(v, bool):
        return v
    if v is BLANK:
        return False
    if is_num(v):
        return v != 0
    raise NoOpinion('truth value of a text/date')


def wildcard_regex(p):
    """Excel wildcard pattern -> anchored, case-insensitive regex (own translation; metacharacters literal)"""
    out, i = [], 0
    while i < len(p):
        ch = p[i]
        if ch == '~' and i + 1 < len(p) and p[i + 1] in '?*~':
            out.append(re.escape(p[i + 1]))
            i += 2
            continue
        if ch == '?':
            out.append('.')
        elif ch == '*':
            out.append('.*')
        else:
            out.append(re.escape(ch))
        i += 1
    return ''.join(out)


def has_wildcard(p):
    i = 0
    while i < len(p):
        if p[i] == '~' and i + 1 < len(p) and p[i + 1] in '?*~':
            i += 2
            continue
        if p[i] in '?*':
            return True
        i += 1
    return False


def unescape_tilde(p):
    return re.sub(r'~([?*~])', r'\1', p)


_CRIT = re.compile(r'^(>=|<=|<>|>|<|=)?(.*)$', re.S)


class Evaluator:
    def __init__(self, env, choices=None, parse_fn=None, strict_text=False, text_arith=None):
        self.env = env
        self.parse_fn = parse_fn or parse
        self.strict_text = strict_text
        # text operands of + - * / unary sign and %: None = no opinion (default), 'excel' = a numeric text is its number and any other
        # text is #VALUE!, 'python' = the defect model "operators are Python's" (str*int repeats, str+str joins, the rest fails)
        self.text_arith = text_arith
        self.text_in_arith = False
        self.choices = choices or {}
        self.used = set()
        self.memo = {}
        self.stack = []
        self.touched = []   # cells evaluated, in order (for laziness/closure oracles)
        self.maxabs = 0.0   # largest magnitude among the numeric cells and literals read (scale of summation round-off)

    # ---- choice flags ---------------------------------------------------------------------------
    def choose(self, flag):
        self.used.add(flag)
        return bool(self.choices.get(flag, False))

    # ---- cells ----------------------------------------------------------------------------------
    def cell(self, sheet, r, c):
        if sheet not in self.env.cells:
            raise XlError('#REF!')
        key = (sheet, r, c)
        if key in self.env.overrides:
            v = self.env.overrides[key]
            if v is None:
                return BLANK
            return self._seen(self._const(v))
        if key in self.memo:
            return self.memo[key]
        raw = self.env.cells[sheet].get((r, c))
        if raw is None:
            return BLANK
        if isinstance(raw, str) and raw.startswith('=') and type(raw).__name__ != 'TextCell':
            if key in self.stack:
                raise Cycle(key)
            self.stack.append(key)
            self.touched.append(key)
            depth0, self.depth = getattr(self, 'depth', 0), 0
            try:
                v = self.scalar(self.ev(self.parse_fn(raw), sheet, (r, c)))
            finally:
                self.stack.pop()
                self.depth = depth0
            if v is ANY and self.stack:
                raise NoOpinion('a value the statement leaves open flows into a dependent cell')
        else:
            v = self._seen(self._const(raw))
        self.memo[key] = v
        return v

    def _seen(self, v):
        if is_num(v) and not isinstance(v, bool) and v == v and abs(v) != float('inf'):
            self.maxabs = max(self.maxabs, abs(v))
        return v

    @staticmethod
    def _const(v):
        if isinstance(v, dt.datetime):
            return v
        if isinstance(v, dt.date):
            return dt.datetime(v.year, v.month, v.day)
        return v

    def scalar(self, v):
        if isinstance(v, Area):
            if v.h == 1 and v.w == 1:
                return v.rows[0][0]
            raise NoOpinion('area used as a scalar')
        return v

    def area(self, node, sheet):
        _, sh, r1, c1, r2, c2, is_range = node
        sh = sh if sh not in (None, '') else sheet
        if sh not in self.env.cells:
            raise XlError('#REF!')
        whole = r1 is None
        if whole:
            r1, r2 = 1, max(self.env.max_row[sh], 1)
        rows = []
        for r in range(r1, r2 + 1):
            row = []
            for c in range(c1, c2 + 1):
                try:
                    row.append(self.cell(sh, r, c))
                except XlError as e:
                    row.append(Err(e.kind))
            rows.append(row)
        return Area(rows, sh, r1, c1, whole)

    # ---- expressions ----------------------------------------------------------------------------
    def ev(self, n, sheet, at=None):
        k = n[0]
        if k == 'num':
            return self._seen(n[1])
        if k == 'str':
            return n[1]
        if k == 'bool':
            return n[1]
        if k == 'par':
            return self.ev(n[1], sheet, at)
        if k == 'ref':
            a = self.area(n, sheet)
            if not n[6]:
                v = a.rows[0][0]
                if isinstance(v, Err):
                    raise XlError(v.kind)
                return v
            return a
        if k == 'un':
            v = self.scalar(self.ev(n[2], sheet, at))
            if isinstance(v, str) and self.text_arith:
                self.text_in_arith = True
                if self.text_arith == 'python':
                    raise XlError(None)                  # -'x' / +'x' is a TypeError
                if n[1] == '+':
                    return v                             # unary plus hands its operand on unchanged, a text included
                v = self._text_number(v)
            x = to_num(v)
            return -x if n[1] == '-' else x
        if k == 'pct':
            v = self.scalar(self.ev(n[1], sheet, at))
            if isinstance(v, str) and self.text_arith:
                self.text_in_arith = True
                if self.text_arith == 'python':
                    raise XlError(None)
                v = self._text_number(v)
            x = to_num(v)
            return float(f'{x / 100:.15g}')
        if k == 'bin':
            return self.binop(n[1], self.scalar(self.ev(n[2], sheet, at)), self.scalar(self.ev(n[3], sheet, at)))
        if k == 'call':
            f = FUNCS.get(n[1])
            if f is None:
                raise NoOpinion('function ' + n[1])
            self.depth = getattr(self, 'depth', 0) + 1
            try:
                v = f(self, n[2], sheet, at)
            except XlError as e:
                if getattr(e, 'origin_depth', None) is None:
                    e.origin_depth = self.depth      # the function (nesting level) whose evaluation produced the error value
                raise
            finally:
                self.depth -= 1
            if v is ANY and self.depth > 0:
                # "anything" is an answer for a whole formula only: inside a nest the enclosing function would have to work on it
                raise NoOpinion('a value the statement leaves open flows into an enclosing function')
            return v
        raise NoOpinion(k)

    @staticmethod
    def _text_number(t):
        if _NUMTXT.match(t):
            t = t.strip()
            return float(t) if ('.' in t or 'e' in t.lower()) else int(t)
        raise XlError('#VALUE!')

    def binop(self, op, a, b):
        if op in '+-*/' and self.text_arith and (isinstance(a, str) or isinstance(b, str)):
            self.text_in_arith = True
            if self.text_arith == 'python':
                pa, pb = (0 if a is BLANK else a), (0 if b is BLANK else b)
                try:
                    if op == '+':
                        res = pa + pb
                    elif op == '*':
                        res = pa * pb
                    elif op == '-':
                        res = pa - pb
                    else:
                        res = pa / pb
                except (TypeError, ZeroDivisionError):
                    raise XlError(None)
                if isinstance(res, str) and len(res) > 10000:
                    raise NoOpinion('huge text')
                return res
            a = self._text_number(a) if isinstance(a, str) else a
            b = self._text_number(b) if isinstance(b, str) else b
        if op == '-' and isinstance(a, dt.datetime) and isinstance(b, dt.datetime):
            return a - b          # a number of days; only comparisons give it a meaning here
        if op in '+-*/':
            x, y = to_num(a), to_num(b)
            if op == '+':
                return x + y
            if op == '-':
                return x - y
            if op == '*':
                return x * y
            if y == 0:
                raise XlError('#DIV/0!')
            return x / y
        if op == '&':
            def _open(v):
                # a whole float (4/2, 0/-5) has the text form of that whole number - no negative zero among them; other floats,
                # logicals and blanks are C17 territory
                return v is BLANK or isinstance(v, bool) or (isinstance(v, float) and not (v == v and abs(v) < 1e15 and v == int(v)))
            if self.strict_text and (_open(a) or _open(b)):
                raise NoOpinion('text form of a boolean/float operand of & (C17 territory)')
            return text_of(a) + text_of(b)
        return self.compare(op, a, b)

    def compare(self, op, a, b):
        a = a / dt.timedelta(days=1) if isinstance(a, dt.timedelta) else a
        b = b / dt.timedelta(days=1) if isinstance(b, dt.timedelta) else b

        def kind(v):
            if v is BLANK:
                return 'blank'
            if isinstance(v, bool):
                return 'bool'
            if is_num(v):
                return 'num'
            if isinstance(v, str):
                return 'text'
            if isinstance(v, dt.datetime):
                return 'date'
            return '?'
        ka, kb = kind(a), kind(b)
        if ka == 'blank' and kb == 'blank':
            c = 0
        elif {ka, kb} <= {'num', 'blank'}:
            x, y = to_num(a), to_num(b)
            c = (x > y) - (x < y)
        elif ka == kb == 'text':
            x, y = a.casefold(), b.casefold()
            if (x == y) != (a.lower() == b.lower()):
                raise NoOpinion('texts whose case folding is not one-to-one')
            if _NUMTXT.match(a) or _NUMTXT.match(b):
                if x != y:
                    raise NoOpinion('numeric-looking texts')
            elif x != y and (a.lower() != a or b.lower() != b) and op not in ('=', '<>'):
                # texts are compared without regard to case: equal-but-for-case texts are equal under all six operators and = / <>
                # always have an answer; which of two DIFFERENT texts comes first when capitals are involved is collation
                raise NoOpinion('text ordering with capitals')
            c = (x > y) - (x < y)
        elif ka == kb == 'date':
            c = (a > b) - (a < b)
        elif ka == kb == 'bool':
            c = (a > b) - (a < b)
        else:
            raise NoOpinion(f'mixed-kind comparison {ka} vs {kb}')
        return {'=': c == 0, '<>': c != 0, '<': c < 0, '>': c > 0, '<=': c <= 0, '>=': c >= 0}[op]

    # ---- helpers for functions ------------------------------------------------------------------
    def arg_scalar(self, n, sheet, at):
        return self.scalar(self.ev(n, sheet, at))

    def numeric_items(self, args, sheet, at, date_flag='date_cells_are_numbers'):
        """numeric cells of areas (+ numeric scalars); returns (numbers, n_dates) honouring the date flag"""
        nums = []
        for a in args:
            v = self.ev(a, sheet, at)
            if a[0] == 'ref' and isinstance(v, list):
                raise NoOpinion('a cell whose value is a list as an argument of an aggregate')
            if isinstance(v, (Area, list)) or a[0] == 'ref':
                # a list is a row/column handed on by INDEX(area,0,c) / INDEX(area,r,0): its items are area cells
                vals = v.flat() if isinstance(v, Area) else v if isinstance(v, list) else [v]
                for x in vals:
                    if isinstance(x, Err) or (isinstance(x, str) and x in ERROR_TEXTS):
                        raise NoOpinion('error value inside an aggregated area')
                    if isinstance(x, (list, Area)) and isinstance(v, Area):
                        raise NoOpinion('a cell whose value is a list inside an aggregated area')
                    if is_num(x):
                        nums.append(x)
                    elif isinstance(x, dt.datetime):
                        if self.choose(date_flag):
                            nums.append(serial(x))
            else:
                if is_num(v):
                    nums.append(v)
                elif isinstance(v, bool) or isinstance(v, str) or v is BLANK:
                    raise NoOpinion('non-numeric scalar argument of an aggregate')
                elif isinstance(v, dt.datetime):
                    raise NoOpinion('date scalar in aggregate')
        return nums


# ================================================================================================
# function library
# ================================================================================================
FUNCS = {}
ARITY = {}


def fn(name, lo, hi):
    def d(f):
        def w(ev, args, sheet, at):
            if not (lo <= len(args) <= hi):
                raise NoOpinion(f'{name} with {len(args)} arguments')
            return f(ev, args, sheet, at)
        FUNCS[name] = w
        ARITY[name] = (lo, hi)
        return f
    return d


# ---- C13 -----------------------------------------------------------------------------------------
@fn('IF', 2, 3)
def _if(ev, a, sh, at):
    if truth(ev.arg_scalar(a[0], sh, at)):
        return ev.ev(a[1], sh, at)
    return ev.ev(a[2], sh, at) if len(a) == 3 else False


@fn('IFS', 2, 254)
def _ifs(ev, a, sh, at):
    if len(a) % 2:
        raise NoOpinion('IFS with an odd number of arguments')
    for i in range(0, len(a), 2):
        if truth(ev.arg_scalar(a[i], sh, at)):
            return ev.ev(a[i + 1], sh, at)
    raise XlError('#N/A')


@fn('IFERROR', 2, 2)
def _iferror(ev, a, sh, at):
    try:
        v = ev.ev(a[0], sh, at)
        if isinstance(v, str) and v.startswith('#') and v in ('#NUM!', '#DIV/0!', '#N/A', '#NAME?', '#NULL!', '#REF!', '#VALUE!'):
            raise XlError(v)
        if isinstance(v, (Area, list)):
            items = v.flat() if isinstance(v, Area) else v
            if any(isinstance(x, Err) or (isinstance(x, str) and x in ERROR_TEXTS) for x in items):
                # element-wise (dynamic arrays) or whole-value fallback: the statement speaks of one value
                raise NoOpinion('IFERROR over an area that holds an error value')
        if isinstance(v, float) and (v != v or abs(v) == float('inf')):
            raise XlError('#NUM!')      # a number too large for a cell is the error value #NUM!
        return v
    except XlError as e:
        if getattr(e, 'origin_depth', None) is not None and e.origin_depth > getattr(ev, 'depth', 0) + 1:
            # the error value was produced deeper inside and handed through at least one enclosing FUNCTION before it arrived here:
            # what that function does with an error value is outside the statements (the library hands error values on as texts)
            raise NoOpinion('an error value passed through an enclosing function before IFERROR')
        return ev.ev(a[1], sh, at)


# ---- C11 -----------------------------------------------------------------------------------------
@fn('SUM', 1, 254)
def _sum(ev, a, sh, at):
    return sum(ev.numeric_items(a, sh, at))


@fn('AVERAGE', 1, 254)
def _average(ev, a, sh, at):
    n = ev.numeric_items(a, sh, at)
    if not n:
        raise XlError('#DIV/0!')      # the average of no numbers
    return sum(n) / len(n)


@fn('MIN', 1, 254)
def _min(ev, a, sh, at):
    n = ev.numeric_items(a, sh, at)
    return min(n) if n else 0          # no number among the arguments: 0


@fn('MAX', 1, 254)
def _max(ev, a, sh, at):
    n = ev.numeric_items(a, sh, at)
    return max(n) if n else 0


@fn('COUNT', 1, 254)
def _count(ev, a, sh, at):
    return len(ev.numeric_items(a, sh, at, date_flag='date_cells_are_counted'))      # a clause of its own: counting is not folding


@fn('COUNTBLANK', 1, 254)
def _countblank(ev, a, sh, at):
    n = 0
    for x in a:
        v = ev.ev(x, sh, at)
        vals = v.flat() if isinstance(v, Area) else [v]
        if any(isinstance(i, (list, Area)) for i in vals):
            raise NoOpinion('a cell whose value is a list inside a counted area')
        n += sum(1 for i in vals if i is BLANK or i == '' and isinstance(i, str))
    return n


def _truths(ev, a, sh, at):
    """blank cells have no truth value and are passed over (directly named or inside an area); texts inside an area are ignored by
    Excel and truthy for Python, so they are left unjudged, and so is a call in which nothing is left to judge (#VALUE! in Excel)"""
    out = []
    for x in a:
        v = ev.ev(x, sh, at)
        items = v.flat() if isinstance(v, Area) else [v]
        for i in items:
            if isinstance(i, (list, Area)):
                raise NoOpinion('a cell whose value is a list inside AND/OR')
            if i is BLANK:
                continue
            if isinstance(v, Area) and isinstance(i, str):
                raise NoOpinion('text inside an area argument of AND/OR')
            out.append(truth(i))
    if not out:
        raise NoOpinion('AND/OR of nothing but blanks')
    return out


@fn('AND', 1, 254)
def _and(ev, a, sh, at):
    return all(_truths(ev, a, sh, at))


@fn('OR', 1, 254)
def _or(ev, a, sh, at):
    return any(_truths(ev, a, sh, at))


# ---- C16 -----------------------------------------------------------------------------------------
def _dround(ev, a, sh, at, mode, default_digits=None):
    x = to_num(ev.arg_scalar(a[0], sh, at))
    if len(a) > 1:
        n = to_num(ev.arg_scalar(a[1], sh, at))
    elif default_digits is not None:
        n = default_digits
    else:
        raise NoOpinion('digits missing')
    d = Decimal(format(x, '.15g')) if isinstance(x, float) else Decimal(x)
    q = d.quantize(Decimal((0, (1,), -int(n))), rounding=mode, context=decimal.Context(prec=400, traps=[]))
    return float(q)


@fn('ROUND', 2, 2)
def _round(ev, a, sh, at):
    return _dround(ev, a, sh, at, decimal.ROUND_HALF_UP)


@fn('ROUNDUP', 1, 2)
def _roundup(ev, a, sh, at):
    return _dround(ev, a, sh, at, decimal.ROUND_UP, 0)


@fn('ROUNDDOWN', 1, 2)
def _rounddown(ev, a, sh, at):
    return _dround(ev, a, sh, at, decimal.ROUND_DOWN, 0)


# ---- C17 -----------------------------------------------------------------------------------------
def _text_arg(ev, n, sh, at, blank_is_empty_text=False):
    v = ev.arg_scalar(n, sh, at)
    if v is BLANK and blank_is_empty_text:
        return ''
    if not isinstance(v, str):
        raise NoOpinion('non-text first argument of a text function')
    return v


def _int_arg(ev, n, sh, at):
    v = ev.arg_scalar(n, sh, at)
    if v is BLANK:
        return 0          # a blank cell counts as 0 where a number is expected (it is not an omitted argument)
    if isinstance(v, str) and re.fullmatch(r'\s*[+-]?\d+\s*', v):
        return int(v)     # a number stored as text (a cell, the result of a text function, a quoted literal) is that number
    if isinstance(v, bool) or not is_num(v) or v != int(v):
        raise NoOpinion('non-integer count/position')
    return int(v)


@fn('LEFT', 1, 2)
def _left(ev, a, sh, at):
    t = _text_arg(ev, a[0], sh, at)
    n = _int_arg(ev, a[1], sh, at) if len(a) == 2 else 1
    if n < 0:
        raise XlError(None)
    return t[:n]


@fn('RIGHT', 1, 2)
def _right(ev, a, sh, at):
    t = _text_arg(ev, a[0], sh, at)
    n = _int_arg(ev, a[1], sh, at) if len(a) == 2 else 1
    if n < 0:
        raise XlError(None)
    return t[len(t) - n:] if n <= len(t) else t


@fn('MID', 3, 3)
def _mid(ev, a, sh, at):
    t = _text_arg(ev, a[0], sh, at)
    k, n = _int_arg(ev, a[1], sh, at), _int_arg(ev, a[2], sh, at)
    if k < 1 or n < 0:
        raise XlError(None)
    return t[k - 1:k - 1 + n]


@fn('CONCATENATE', 1, 254)
def _concatenate(ev, a, sh, at):
    return ''.join(text_of(ev.arg_scalar(x, sh, at)) for x in a)


@fn('SEARCH', 2, 3)
def _search(ev, a, sh, at):
    f, t = _text_arg(ev, a[0], sh, at, True), _text_arg(ev, a[1], sh, at, True)
    s = _int_arg(ev, a[2], sh, at) if len(a) == 3 else 1
    if s > len(t):
        raise XlError('#VALUE!')
    if s < 1:
        # "at or after s" with s < 1: Excel answers #VALUE!, reading it as "from the start" is not excluded by the statement
        if ev.choose('search_start_below_one_searches_from_start'):
            s = 1
        else:
            raise XlError('#VALUE!')
    if f == '':
        # the empty text (a blank cell) is found where the search starts; in an empty text there is no position to start at
        if t == '':
            raise NoOpinion('empty needle in an empty text')
        return s
    m = re.compile(wildcard_regex(f), re.I | re.S).search(t, s - 1)
    if not m:
        raise XlError('#VALUE!')
    return m.start() + 1


@fn('VALUE', 1, 1)
def _value(ev, a, sh, at):
    v = ev.arg_scalar(a[0], sh, at)
    if is_num(v):
        return v
    if isinstance(v, str) and not _NUMTXT.match(v):
        t = v.strip()
        m = re.match(r'^([+-]?(?:\d+\.?\d*|\.\d+))\s*%$', t)
        if m:
            # a percentage: the number it denotes is body/100; dividing the double of the body by 100 may be one ulp off - both accepted
            from fractions import Fraction
            if ev.choose('percent_text_divided_as_double'):
                return float(m.group(1)) / 100
            return float(Fraction(m.group(1)) / 100)
        m = _ISODATE.match(t)
        if m:
            try:
                return (dt.datetime(int(m.group(1)), int(m.group(2)), int(m.group(3))) - dt.datetime(1899, 12, 30)).days
            except ValueError:
                raise XlError('#VALUE!')
        m = re.match(r'^(\d{1,2}):(\d{2})(?::(\d{2}))?$', t)
        if m and int(m.group(1)) < 24 and int(m.group(2)) < 60 and int(m.group(3) or 0) < 60:
            from fractions import Fraction
            return float(Fraction(int(m.group(1)) * 3600 + int(m.group(2)) * 60 + int(m.group(3) or 0), 86400))
        if t and not any(ch.isdigit() for ch in t):
            raise XlError('#VALUE!')
        if '_' in t or any(ch.isdigit() and not ch.isascii() for ch in t):
            # an underscore between digits, digits of another script: spellings of Python's int(), of no spreadsheet's number format
            raise XlError('#VALUE!')
        raise NoOpinion('VALUE of a text in a national number / date format')
    if not isinstance(v, str):
        raise NoOpinion('VALUE of a non-text')
    t = v.strip()
    return float(t) if ('.' in t or 'e' in t.lower()) else int(t)


@fn('TEXT', 2, 2)
def _text(ev, a, sh, at):
    # the library ignores the format (documented): only the case in which that cannot matter is judged - a whole number under "0"
    v = ev.arg_scalar(a[0], sh, at)
    fmt = ev.arg_scalar(a[1], sh, at)
    if fmt == '0' and is_num(v) and not isinstance(v, bool) and v == int(v) and abs(v) < 1e15:
        return int(v)          # Excel hands back the text of that integer; in arithmetic and under & it behaves like the number
    raise NoOpinion('TEXT with a format that changes the value')


# ---- C15 -----------------------------------------------------------------------------------------
def add_months(d, m):
    y, mo = divmod(d.year * 12 + d.month - 1 + m, 12)
    mo += 1
    if not (1 <= y <= 9999):
        raise XlError('#NUM!')
    day = min(d.day, calendar.monthrange(y, mo)[1])
    return d.replace(year=y, month=mo, day=day)


def _date_arg(ev, n, sh, at):
    v = ev.arg_scalar(n, sh, at)
    if isinstance(v, str) and not any(ch.isdigit() for ch in v):
        raise XlError('#VALUE!')          # a text that cannot be a date: an error value in Excel, a failure in the library
    if not isinstance(v, dt.datetime):
        raise NoOpinion('non-date argument of a date function')
    return v


@fn('DATE', 3, 3)
def _date(ev, a, sh, at):
    y, m, d = (_int_arg(ev, x, sh, at) for x in a)
    if not (1900 <= y <= 9999):
        raise NoOpinion('year outside 1900..9999')
    try:
        base = add_months(dt.datetime(y, 1, 1), m - 1)
        res = base + dt.timedelta(days=d - 1)
    except (OverflowError, ValueError):
        raise XlError('#NUM!')
    if res.year < 1900 or res.year > 9999:
        raise NoOpinion('result outside 1900..9999')
    return res


@fn('YEAR', 1, 1)
def _year(ev, a, sh, at):
    return _date_arg(ev, a[0], sh, at).year


@fn('MONTH', 1, 1)
def _month(ev, a, sh, at):
    return _date_arg(ev, a[0], sh, at).month


@fn('DAY', 1, 1)
def _day(ev, a, sh, at):
    return _date_arg(ev, a[0], sh, at).day


@fn('EDATE', 2, 2)
def _edate(ev, a, sh, at):
    d = _date_arg(ev, a[0], sh, at)
    return add_months(d, _int_arg(ev, a[1], sh, at))


@fn('EOMONTH', 2, 2)
def _eomonth(ev, a, sh, at):
    d = _date_arg(ev, a[0], sh, at)
    t = add_months(d.replace(day=1), _int_arg(ev, a[1], sh, at))
    return dt.datetime(t.year, t.month, calendar.monthrange(t.year, t.month)[1])


def datedif(d1, d2, unit):
    if d1 > d2:
        raise XlError(None)
    months = 12 * (d2.year - d1.year) + (d2.month - d1.month) - (1 if d2.day < d1.day else 0)
    if unit == 'D':
        return (d2.date() - d1.date()).days if hasattr(d1, 'date') else (d2 - d1).days
    if unit == 'M':
        return months
    if unit == 'Y':
        return months // 12
    if unit == 'YM':
        return months % 12
    raise NoOpinion('DATEDIF unit ' + unit)


@fn('DATEDIF', 3, 3)
def _datedif(ev, a, sh, at):
    d1, d2 = _date_arg(ev, a[0], sh, at), _date_arg(ev, a[1], sh, at)
    u = ev.arg_scalar(a[2], sh, at)
    if not isinstance(u, str):
        raise NoOpinion('unit')
    # the calendar dates count, not the times of day (a serial number's whole part)
    d1, d2 = dt.datetime(d1.year, d1.month, d1.day), dt.datetime(d2.year, d2.month, d2.day)
    return datedif(d1, d2, u.upper())


def networkdays(d1, d2, holidays):
    a, b = d1.date(), d2.date()
    sign = 1
    if a > b:
        a, b, sign = b, a, -1
    hs = {h.date() for h in holidays}
    n, cur = 0, a
    while cur <= b:
        if cur.weekday() < 5 and cur not in hs:
            n += 1
        cur += dt.timedelta(days=1)
    return sign * n


@fn('NETWORKDAYS', 2, 3)
def _networkdays(ev, a, sh, at):
    d1, d2 = _date_arg(ev, a[0], sh, at), _date_arg(ev, a[1], sh, at)
    hol = []
    if len(a) == 3:
        v = ev.ev(a[2], sh, at)
        vals = v.flat() if isinstance(v, Area) else [v]
        hol = [x for x in vals if isinstance(x, dt.datetime)]
    return networkdays(d1, d2, hol)


@fn('TODAY', 0, 0)
def _today(ev, a, sh, at):
    if ev.env.now is None:
        raise NoOpinion('no clock')
    n = ev.env.now
    return dt.datetime(n.year, n.month, n.day)


# ---- C14 -----------------------------------------------------------------------------------------
def _keys_equal(k, v):
    if is_num(k) and is_num(v):
        return k == v
    if isinstance(k, str) and isinstance(v, str):
        return k.casefold() == v.casefold()
    if isinstance(k, bool) and isinstance(v, bool):
        return k == v
    return False


def _key_le(k, v):
    if is_num(k) and is_num(v):
        return k <= v
    if isinstance(k, str) and isinstance(v, str):
        return k.casefold() <= v.casefold()
    return None


def match_pos(value, keys, mode, from_end=False, ev=None):
    """1-based position or raises XlError('#N/A')"""
    if value is BLANK or isinstance(value, (dt.datetime,)):
        raise NoOpinion('lookup value kind')
    if mode == 0:
        idx = range(len(keys) - 1, -1, -1) if from_end else range(len(keys))
        for i in idx:
            if keys[i] is BLANK:
                continue          # a blank key cell is no key: it is passed over by every lookup function (never the key 0 or "")
            if _keys_equal(keys[i], value):
                return i + 1
        raise XlError('#N/A')
    if mode == 1:
        pos = None
        last = max((i for i, k in enumerate(keys) if k is not BLANK), default=-1)
        for i, k in enumerate(keys[:last + 1]):
            if k is BLANK:
                # below the data blank rows are passed over; a gap INSIDE an ascending key column has no defined place in the order
                raise NoOpinion('blank key between the keys of an approximate match')
            le = _key_le(k, value)
            if le is None:
                raise NoOpinion('mixed key kinds in approximate match')
            if le:
                pos = i + 1
            else:
                break
        if pos is None:
            raise XlError('#N/A')
        return pos
    raise NoOpinion('match mode ' + repr(mode))


def _column_keys(v):
    """the keys one below the other: a column, a single row searched along the row, a single cell"""
    if not isinstance(v, Area):
        if isinstance(v, (list,)):
            raise NoOpinion('lookup array is a list value')
        return [v]
    if v.w == 1:
        return [row[0] for row in v.rows]
    if v.h == 1:
        return list(v.rows[0])
    raise NoOpinion('2-d lookup vector')


@fn('MATCH', 2, 3)
def _match(ev, a, sh, at):
    value = ev.arg_scalar(a[0], sh, at)
    keys = _column_keys(ev.ev(a[1], sh, at))
    mode = _int_arg(ev, a[2], sh, at) if len(a) == 3 else 1
    return match_pos(value, keys, mode, ev=ev)


@fn('XMATCH', 2, 4)
def _xmatch(ev, a, sh, at):
    value = ev.arg_scalar(a[0], sh, at)
    keys = _column_keys(ev.ev(a[1], sh, at))
    mode = _int_arg(ev, a[2], sh, at) if len(a) >= 3 else 0
    smode = _int_arg(ev, a[3], sh, at) if len(a) == 4 else 1
    if mode != 0 or smode not in (1, -1):
        raise NoOpinion('XMATCH modes other than exact, first/last')
    return match_pos(value, keys, 0, from_end=(smode == -1), ev=ev)


@fn('VLOOKUP', 3, 4)
def _vlookup(ev, a, sh, at):
    value = ev.arg_scalar(a[0], sh, at)
    table = ev.ev(a[1], sh, at)
    if not isinstance(table, Area):
        raise NoOpinion('table')
    col = _int_arg(ev, a[2], sh, at)
    approx = True
    if len(a) == 4:
        flag = ev.arg_scalar(a[3], sh, at)
        if isinstance(flag, float):
            raise NoOpinion('range_lookup given as a float')
        approx = truth(flag)
    try:
        pos = match_pos(value, [row[0] for row in table.rows], 1 if approx else 0, ev=ev)
    except XlError:
        if col < 1 or col > table.w:
            raise XlError(None)       # nothing found AND no such column: some error value
        raise
    if col < 1:
        raise XlError('#VALUE!')
    if col > table.w:
        raise XlError('#REF!')
    return table.rows[pos - 1][col - 1]


@fn('INDEX', 2, 4)
def _index(ev, a, sh, at):
    area = ev.ev(a[0], sh, at)
    if not isinstance(area, Area):
        raise NoOpinion('INDEX first argument')
    if len(a) == 4:
        raise NoOpinion('area number')
    r = _int_arg(ev, a[1], sh, at)
    c = _int_arg(ev, a[2], sh, at) if len(a) >= 3 else None
    if c is None:
        if area.h == 1:
            r, c = 1, r
        elif area.w == 1:
            c = 1
        else:
            raise NoOpinion('2-argument INDEX on a 2-d area')
    if r < 0 or c < 0:
        raise XlError(None)
    if r > area.h or c > area.w:
        raise XlError('#REF!')
    if r == 0 and c == 0:
        raise NoOpinion('INDEX(area,0,0)')
    if r == 0:
        col = [row[c - 1] for row in area.rows]
        return col[0] if len(col) == 1 else col
    if c == 0:
        row = list(area.rows[r - 1])
        return row[0] if len(row) == 1 else row
    return area.rows[r - 1][c - 1]


@fn('COLUMN', 0, 1)
def _column(ev, a, sh, at):
    if not a:
        if at is None:
            raise NoOpinion('COLUMN() without a home cell')
        return at[1]
    if a[0][0] != 'ref':
        raise NoOpinion('COLUMN of a non-reference')
    return a[0][3]


@fn('ADDRESS', 2, 5)
def _address(ev, a, sh, at):
    r, c = _int_arg(ev, a[0], sh, at), _int_arg(ev, a[1], sh, at)
    if not (1 <= c <= 16384) or r < 1:
        raise NoOpinion('ADDRESS outside the sheet')
    kind = 1
    if len(a) >= 3:
        k = ev.arg_scalar(a[2], sh, at)
        if k is BLANK:
            kind = 1
        elif isinstance(k, bool) or not is_num(k) or k != int(k) or not 1 <= int(k) <= 4:
            raise NoOpinion('kind of reference outside 1..4')
        else:
            kind = int(k)
    a1 = True
    if len(a) >= 4:
        f = ev.arg_scalar(a[3], sh, at)
        if f is BLANK or isinstance(f, str):
            raise NoOpinion('reference style given as blank / text')
        a1 = truth(f)
    letters = get_column_letter(c)
    if a1:
        out = {1: f'${letters}${r}', 2: f'{letters}${r}', 3: f'${letters}{r}', 4: f'{letters}{r}'}[kind]
    else:
        out = {1: f'R{r}C{c}', 2: f'R{r}C[{c}]', 3: f'R[{r}]C{c}', 4: f'R[{r}]C[{c}]'}[kind]
    if len(a) == 5:
        name = ev.arg_scalar(a[4], sh, at)
        if not isinstance(name, str) or not name or "'" in name:
            raise NoOpinion('sheet name argument that is not a plain text')
        # Excel puts the name between apostrophes only where it has to; with them the reference means the same sheet
        plain = re.fullmatch(r'[A-Za-z_][A-Za-z0-9_.]*', name) is not None and not re.fullmatch(r'[A-Za-z]{1,3}[0-9]+|[Rr][0-9]*[Cc][0-9]*', name)
        if plain and not ev.choose('address_sheet_always_quoted'):
            out = name + '!' + out
        else:
            out = "'" + name + "'!" + out
    return out


# ---- C12 -----------------------------------------------------------------------------------------
def crit_matcher(ev, crit):
    """crit: evaluated criterion scalar -> predicate(cell value) (may consult choice flags)"""
    if isinstance(crit, bool):
        raise NoOpinion('boolean criterion')
    if crit is BLANK:
        raise NoOpinion('blank criterion')
    op, rhs = '=', crit
    if isinstance(crit, str):
        m = _CRIT.match(crit)
        op = m.group(1) or '='
        rest = m.group(2)
        iso = _ISODATE.match(rest)
        if iso:
            try:
                rhs = dt.datetime(int(iso.group(1)), int(iso.group(2)), int(iso.group(3)))
            except ValueError:
                raise NoOpinion('date-shaped criterion text that is no date')
        elif _NUMTXT.match(rest):
            t = rest.strip()
            rhs = float(t) if ('.' in t or 'e' in t.lower()) else int(t)
        else:
            rhs = rest
        if isinstance(rhs, str) and rhs == '':
            raise NoOpinion('empty criterion body')
    if isinstance(rhs, dt.datetime):
        # a date as the plain value (a date cell handed over) or written year-month-day after the operator: date-time cells are
        # compared as the moments they are (a time part counts), a cell of another kind never meets it (and always meets <>)
        def d(x):
            if isinstance(x, dt.datetime):
                return {'=': x == rhs, '<>': x != rhs, '>': x > rhs, '<': x < rhs, '>=': x >= rhs, '<=': x <= rhs}[op]
            if is_num(x) and not isinstance(x, bool):
                raise NoOpinion('numeric cell against a date criterion (serial numbers)')
            if isinstance(x, str) and any(ch.isdigit() for ch in x):
                raise NoOpinion('text with digits against a date criterion')
            return op == '<>'
        return d
    if is_num(rhs):
        def p(x):
            if x is BLANK:
                return ev.choose_blank(op, rhs)
            if isinstance(x, bool):
                return op == '<>'
            if is_num(x):
                return {'=': x == rhs, '<>': x != rhs, '>': x > rhs, '<': x < rhs, '>=': x >= rhs, '<=': x <= rhs}[op]
            if isinstance(x, str):
                if _NUMTXT.match(x) and op in ('=', '<>'):
                    eq = float(x) == rhs
                    same = ev.choose('numeric_text_equals_number')
                    return (eq if same else False) if op == '=' else ((not eq) if same else True)
                if _NUMTXT.match(x):
                    raise NoOpinion('numeric-looking text against an ordering criterion')
                return op == '<>'
            if isinstance(x, dt.datetime):
                # a date cell meets a numeric criterion by its serial number (">="&C1 with a date in C1 is ">=45306")
                sx = (x - dt.datetime(1899, 12, 30)).total_seconds() / 86400
                if sx != int(sx) and abs(sx - rhs) < 1e-6:
                    raise NoOpinion('date-time cell within a rounding error of the criterion')
                return {'=': sx == rhs, '<>': sx != rhs, '>': sx > rhs, '<': sx < rhs, '>=': sx >= rhs, '<=': sx <= rhs}[op]
            return op == '<>'
        return p
    # text criterion
    if op in ('>', '<', '>=', '<='):
        raise NoOpinion('text ordering criterion')
    wild = has_wildcard(rhs)
    rx = re.compile(wildcard_regex(rhs), re.I | re.S) if wild else None
    lit = unescape_tilde(rhs).casefold()

    def q(x):
        if isinstance(x, str):
            hit = bool(rx.fullmatch(x)) if wild else (x.casefold() == lit)
        elif x is BLANK:
            hit = False
        elif is_num(x) and not isinstance(x, bool):
            if wild:
                hit = bool(rx.fullmatch(text_of(x))) and ev.choose('wildcard_matches_numbers')
            else:
                hit = False
        else:
            hit = False
        return hit if op == '=' else not hit
    return q


def _choose_blank(self, op, rhs):
    """blank cell against a numeric criterion: as 0 or never matching - statement silent"""
    if self.choose('blank_is_zero_for_criteria'):
        x = 0
        return {'=': x == rhs, '<>': x != rhs, '>': x > rhs, '<': x < rhs, '>=': x >= rhs, '<=': x <= rhs}[op]
    return op == '<>'


Evaluator.choose_blank = _choose_blank


def _crit_pairs(ev, a, sh, at):
    if len(a) % 2:
        raise NoOpinion('odd criteria list')
    pairs = []
    for i in range(0, len(a), 2):
        rng = ev.ev(a[i], sh, at)
        if not isinstance(rng, Area):
            raise NoOpinion('criteria range')
        pairs.append((rng, crit_matcher(ev, ev.arg_scalar(a[i + 1], sh, at))))
    return pairs


def _select(pairs, n):
    sel = []
    for i in range(n):
        sel.append(all(p(rng.flat()[i]) for rng, p in pairs))
    return sel


def _target_numbers(ev, vals, summing=False):
    """the numbers among the selected cells of the sum / average range.  Summing passes over texts (as SUM does); a date cell in
    a sum and an average over texts or dates are left unjudged"""
    out = []
    for v in vals:
        if is_num(v):
            out.append(v)
        elif isinstance(v, bool):
            if ev.choose('bool_target_counts_as_number'):
                out.append(int(v))
        elif isinstance(v, str):
            if v in ERROR_TEXTS:
                raise NoOpinion('error text in target range')
            if not summing:
                raise NoOpinion('text in target range')
        elif isinstance(v, dt.datetime):
            raise NoOpinion('date in target range')
        elif isinstance(v, (list, Area)):
            raise NoOpinion('list value in target range')
    return out


def _shape(a):
    return (a.h, a.w)


def _check_shapes(ranges, target):
    """different SIZES are an error (statement) - height and width: the same number of cells in another shape (1x6 against 6x1, 3x2 against
    2x3) cannot be laid over each other either (Excel: #VALUE!); pairing the cells in reading order would be the silent mis-alignment"""
    for rg in ranges:
        if _shape(rg) != _shape(target):
            raise XlError(None)


@fn('SUMIFS', 3, 255)
def _sumifs(ev, a, sh, at):
    target = ev.ev(a[0], sh, at)
    pairs = _crit_pairs(ev, a[1:], sh, at)
    _check_shapes([r for r, _ in pairs], target)
    sel = _select(pairs, len(target.flat()))
    return sum(_target_numbers(ev, [v for v, s in zip(target.flat(), sel) if s], summing=True))


@fn('AVERAGEIFS', 3, 255)
def _averageifs(ev, a, sh, at):
    target = ev.ev(a[0], sh, at)
    pairs = _crit_pairs(ev, a[1:], sh, at)
    _check_shapes([r for r, _ in pairs], target)
    sel = _select(pairs, len(target.flat()))
    if any(isinstance(v, (str, dt.datetime)) for v in target.flat()):
        # a text anywhere in the average range - selected or not - makes the library answer '#DIV0!' (asserted by the repository's own
        # test_with_string_in_average_range); the statement speaks of the selected cells only: unjudged
        raise NoOpinion('text / date somewhere in the average range')
    nums = _target_numbers(ev, [v for v, s in zip(target.flat(), sel) if s])
    if not nums:
        raise XlError(None)
    return sum(nums) / len(nums)


@fn('COUNTIFS', 2, 254)
def _countifs(ev, a, sh, at):
    pairs = _crit_pairs(ev, a, sh, at)
    _check_shapes([r for r, _ in pairs], pairs[0][0])
    return sum(_select(pairs, len(pairs[0][0].flat())))


@fn('SUMIF', 2, 3)
def _sumif(ev, a, sh, at):
    rng = ev.ev(a[0], sh, at)
    if not isinstance(rng, Area):
        raise NoOpinion('SUMIF range')
    p = crit_matcher(ev, ev.arg_scalar(a[1], sh, at))
    if len(a) == 3:
        t = a[2]
        if t[0] != 'ref':
            raise NoOpinion('SUMIF target')
        # the target range takes its geometry from the criteria range, anchored at the target's first cell
        tsheet = t[1] if t[1] not in (None, '') else sh
        if t[2] is None and rng.whole_col:
            if rng.w != t[5] - t[3] + 1:
                raise NoOpinion('whole-column SUMIF target of another width')
            node = t
        else:
            # a whole-column target next to a bounded criteria area is anchored at the top of that column
            top = 1 if t[2] is None else t[2]
            node = ('ref', tsheet, top, t[3], top + rng.h - 1, t[3] + rng.w - 1, True)
        target = ev.area(node, sh)
    else:
        target = rng
    sel = [p(v) for v in rng.flat()]
    return sum(_target_numbers(ev, [v for v, s in zip(target.flat(), sel) if s], summing=True))


# ================================================================================================
# drivers
# ================================================================================================
def evaluate_once(env, sheet, addr, choices=None, **kw):
    ev = Evaluator(env, choices, **kw)
    r, c = rc(addr)
    try:
        v = ev.cell(sheet, r, c)
        if isinstance(v, Area):
            raise NoOpinion('area result')
        if isinstance(v, dt.timedelta) or (isinstance(v, float) and (v != v or abs(v) == float('inf'))):
            # what a cell SHOWS for a difference of dates or for an overflowed product is outside the statements; inside a
            # comparison (days) and inside IFERROR (an error value) these values have a meaning, see compare() and IFERROR
            raise NoOpinion('a difference of dates / an overflowed number as the value of a cell')
    except XlError as e:
        v = Err(e.kind)
    LAST['scale'] = ev.maxabs
    LAST['text_in_arith'] = ev.text_in_arith
    return v, ev


# magnitude of the largest number the last evaluation read: sums of such numbers differ by round-off of that scale when the
# order of summation differs, however small the (cancelled) result is
LAST = {'scale': 0.0}


def outcomes(env, sheet, addr, max_flags=5, **kw):
    """-> (list of acceptable outcomes, flags consulted).  Raises NoOpinion / ParseError / Cycle."""
    v, ev = evaluate_once(env, sheet, addr, **kw)
    flags = sorted(ev.used)
    outs = [v]
    if flags:
        if len(flags) > max_flags:
            raise NoOpinion('too many silent clauses involved')
        seen_flags = set(flags)
        for combo in itertools.product([False, True], repeat=len(flags)):
            if not any(combo):
                continue
            v2, ev2 = evaluate_once(env, sheet, addr, dict(zip(flags, combo)), **kw)
            if ev2.used - seen_flags:
                raise NoOpinion('flag set depends on choices')
            if not any(_same_ref(v2, o) for o in outs):
                outs.append(v2)
            ev.maxabs = max(ev.maxabs, ev2.maxabs)
    LAST['scale'] = ev.maxabs
    return outs, flags


def _same_ref(a, b):
    if a is ANY or b is ANY:
        return a is b
    return type(a) is type(b) and a == b
