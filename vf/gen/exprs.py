"""Typed random expressions over the whole supported function set (used by the 'mixed' shards of the semantic checks).

Every check C10-C17 sweeps its own functions with templates of its own; what no template writes down is one function's result
flowing into another one (=SUM(ROUND(F6,0),MAX(B1:B3)), =LEFT(CONCATENATE(A2,B1),MATCH(3,A3:A8,0)), =IF(COUNTIFS(A3:A8,">2")>1,...)).
gen(rng, typ, depth) produces such nests over a fixed data block; the judge is vf/xlref as everywhere else.  Leaves and argument
values are chosen so that the well-defined paths dominate: an error value flowing into an enclosing function or operator is
outside the statements (the library represents Excel errors as texts that do not propagate), so callers leave reference outcomes
that are error values unjudged unless the root contains them (IFERROR / IFS / lookups at the root)."""
import datetime as dt

# the data block (sheet 'S'): numbers, an ascending key column with a partner column, texts, logicals, dates, blanks
BLOCK = {
    'A1': 4, 'B1': 2.5, 'C1': -3, 'D1': 10, 'E1': 0,                                   # numbers
    'A2': 'alpha', 'B2': 'Beta', 'C2': 'x y', 'D2': 'abcabc', 'E2': '12',               # texts
    'A3': 1, 'A4': 3, 'A5': 3, 'A6': 7, 'A7': 9, 'A8': 12,                              # ascending keys (one duplicate)
    'B3': 10, 'B4': 30, 'B5': 35, 'B6': 70, 'B7': 90, 'B8': 120,                        # partner values
    'C3': 'k1', 'C4': 'k3', 'C5': 'K3', 'C6': 'k7', 'C7': 'k9', 'C8': 'k12',            # partner texts
    'D3': True, 'D4': False,                                                            # logicals
    'E3': dt.datetime(2024, 1, 31), 'E4': dt.datetime(2024, 3, 15), 'E5': dt.datetime(2023, 12, 29), 'E6': dt.datetime(2024, 2, 29),
    # F6, F7 stay blank
    'F1': 6, 'F2': 1, 'F3': 2, 'F4': 3,                                                  # small positive integers (positions, counts)
}
NUM_CELLS = ['A1', 'B1', 'C1', 'D1', 'E1', 'F1', 'A4', 'B6']
SMALL_CELLS = ['F2', 'F3', 'F4']
TEXT_CELLS = ['A2', 'B2', 'C2', 'D2']
BOOL_CELLS = ['D3', 'D4']
DATE_CELLS = ['E3', 'E4', 'E5', 'E6']
BLANK_CELLS = ['F6', 'F7']
NUM_AREAS = ['A1:E1', 'A3:A8', 'B3:B8', 'A3:B8', 'A1:F1', 'B3:B5', 'A6:B8', 'F1:F4', 'A1:B1', 'F2:F7', 'D1:F1']
MIXED_AREAS = ['A1:E2', 'A2:E3', 'C3:D8', 'A3:C8', 'D1:E4']
FUNCS_BY_PROPERTY = {
    'C01': ['OP', 'AMP', 'CMP'],          # pseudo-names: arithmetic operators, &, comparisons (over the results of functions)
    'C10': ['CMP'],
    'C11': ['SUM', 'AVERAGE', 'MIN', 'MAX', 'COUNT', 'COUNTBLANK', 'AND', 'OR'],
    'C12': ['SUMIF', 'SUMIFS', 'COUNTIFS', 'AVERAGEIFS'],
    'C13': ['IF', 'IFS', 'IFERROR'],
    'C14': ['VLOOKUP', 'MATCH', 'XMATCH', 'INDEX', 'COLUMN', 'ADDRESS'],
    'C15': ['DATE', 'YEAR', 'MONTH', 'DAY', 'EDATE', 'EOMONTH', 'DATEDIF', 'NETWORKDAYS'],
    'C16': ['ROUND', 'ROUNDUP', 'ROUNDDOWN'],
    'C17': ['LEFT', 'RIGHT', 'MID', 'CONCATENATE', 'SEARCH', 'VALUE'],
}


def q(text):
    return '"' + text + '"'


class Gen:
    def __init__(self, rng, prefer=()):
        self.rng = rng
        self.prefer = set(prefer)       # functions of the calling check: chosen more often
        self.used = set()

    # ---- helpers -------------------------------------------------------------------------------------
    def pick(self, options):
        """options: [(weight, name, thunk)]; functions of the calling check weigh three times as much"""
        w = [(wt * (3 if name in self.prefer else 1), name, th) for wt, name, th in options]
        x = self.rng.uniform(0, sum(a for a, _, _ in w))
        for a, name, th in w:
            x -= a
            if x <= 0:
                break
        if name and name.isupper():
            self.used.add(name)
        return th()

    def sep(self):
        return self.rng.choice([',', ',', ';'])

    def ref(self, a):
        k = self.rng.random()
        if k < 0.7:
            return a
        col, row = a[0], a[1:]
        if k < 0.8:
            return f'${col}${row}'
        if k < 0.9:
            return f'S!{a}'
        return f"'S'!{col}${row}"

    # ---- numbers -------------------------------------------------------------------------------------
    def num(self, d):
        r = self.rng
        if d <= 0:
            return self.pick([(5, '', lambda: self.ref(r.choice(NUM_CELLS))), (2, '', lambda: r.choice(['2', '7', '0.5', '10', '3', '1.25', '100'])),
                              (1, '', lambda: self.ref(r.choice(SMALL_CELLS)))])
        return self.pick([
            (3, '', lambda: self.num(0)),
            (3, 'OP', lambda: f'{self.num(d - 1)}{r.choice(["+", "-", "*"])}{self.num(d - 1)}'),
            (1, 'OP', lambda: f'({self.num(d - 1)}+{self.num(d - 1)})*{self.num(0)}'),
            (1, 'OP', lambda: f'{self.num(d - 1)}/{r.choice(["2", "4", "F1", "0.5", "D1"])}'),
            (1, 'OP', lambda: f'-{self.num(0)}'),
            (1, 'OP', lambda: f'{self.num(0)}%'),
            # signs and percent directly at a call or a bracketed group, three different operators of neighbouring precedence
            (1, 'OP', lambda: f'-{r.choice(["SUM(A1:B1)", "MAX(F1:F4)", "ROUND(B1,0)", "COUNT(A3:A8)"])}{r.choice(["+", "*", "-", "/"])}{self.num(0)}'),
            (1, 'OP', lambda: f'{r.choice(["SUM(A1:B1)", "MIN(F1:F4)", "ROUND(D1/3,1)"])}%{r.choice(["+", "*", "-"])}{self.num(0)}'),
            (1, 'OP', lambda: f'({self.num(d - 1)}{r.choice(["+", "-"])}{self.num(0)})%'),
            (1, 'OP', lambda: f'-({self.num(d - 1)}{r.choice(["+", "-", "*"])}{self.num(0)})'),
            (1, 'OP', lambda: f'{self.num(0)}-{self.num(0)}*{self.num(0)}/{r.choice(["2", "4", "F1", "D1"])}'),
            (1, 'OP', lambda: f'{self.num(0)}/{r.choice(["2", "4", "F1"])}*{self.num(0)}-{self.num(d - 1)}'),
            (1, 'OP', lambda: f'{self.num(0)}*-{self.num(0)}+{self.num(0)}%'),
            (1, 'OP', lambda: f'{self.num(0)}--{self.num(0)}'),
            (3, 'SUM', lambda: f'SUM({self.agg_args(d)})'), (2, 'MAX', lambda: f'MAX({self.agg_args(d)})'), (2, 'MIN', lambda: f'MIN({self.agg_args(d)})'),
            (2, 'AVERAGE', lambda: f'AVERAGE({self.agg_args(d)})'), (2, 'COUNT', lambda: f'COUNT({self.agg_args(d, mixed=True)})'),
            (1, 'COUNTBLANK', lambda: f'COUNTBLANK({r.choice(NUM_AREAS + MIXED_AREAS)})'),
            (3, 'ROUND', lambda: f'ROUND({self.num(d - 1)}{self.sep()}{self.digits()})'),
            (2, 'ROUNDUP', lambda: f'ROUNDUP({self.num(d - 1)}{self.sep()}{self.digits()})'),
            (2, 'ROUNDDOWN', lambda: f'ROUNDDOWN({self.num(d - 1)}{self.sep()}{self.digits()})'),
            (3, 'IF', lambda: f'IF({self.boolean(d - 1)}{self.sep()}{self.num(d - 1)}{self.sep()}{self.num(d - 1)})'),
            (1, 'IFS', lambda: f'IFS({self.boolean(d - 1)},{self.num(d - 1)},TRUE,{self.num(0)})'),
            (2, 'IFERROR', lambda: f'IFERROR({self.num(d - 1)}/{r.choice(["E1", "0", "F6", "2", "A1"])}{self.sep()}{self.num(0)})'),
            (1, 'IFERROR', lambda: f'IFERROR(VLOOKUP({r.choice(["2", "5", "99", "A4"])},A3:B8,2,FALSE){self.sep()}{self.num(0)})'),
            (2, 'VLOOKUP', lambda: f'VLOOKUP({self.key(d)}{self.sep()}A3:B8{self.sep()}2{self.sep()}{r.choice(["FALSE", "0", "TRUE", "1"])})'),
            (1, 'VLOOKUP', lambda: f'VLOOKUP({self.key(d)},A3:C8,2)'),
            (2, 'MATCH', lambda: f'MATCH({self.key(d)}{self.sep()}A3:A8{self.sep()}{r.choice(["0", "1"])})'),
            (1, 'XMATCH', lambda: f'XMATCH({self.key(d)},A3:A8)'),
            (2, 'INDEX', lambda: f'INDEX({r.choice(["B3:B8", "A3:A8"])}{self.sep()}{self.pos(d, 6)})'),
            (1, 'INDEX', lambda: f'INDEX(A3:B8{self.sep()}{self.pos(d, 6)}{self.sep()}{r.choice(["1", "2", "F2", "F3"])})'),
            (1, 'INDEX', lambda: f'INDEX(B3:B8,MATCH({self.key(d)},A3:A8,0))'),
            (1, 'COLUMN', lambda: f'COLUMN({self.ref(r.choice(NUM_CELLS + TEXT_CELLS))})'),
            (1, 'SEARCH', lambda: f'SEARCH({q(r.choice(["a", "b", "c", "ab", "B", "?c", "b*"]))},{self.text(d - 1)})'),
            (1, 'VALUE', lambda: f'VALUE({r.choice(["E2", "LEFT(E2,1)", "RIGHT(E2,1)", "E2&E2", "MID(D2&E2,7,2)"])})'),
            (2, 'YEAR', lambda: f'{r.choice(["YEAR", "MONTH", "DAY"])}({self.date(d - 1)})'),
            (1, 'DATEDIF', lambda: f'DATEDIF({self.ref("E5")},{self.date(d - 1)},{q(r.choice(["D", "M", "Y"]))})'),
            (1, 'NETWORKDAYS', lambda: f'NETWORKDAYS({self.ref("E5")},{self.date(d - 1)})'),
            (2, 'SUMIF', lambda: f'SUMIF(A3:A8{self.sep()}{self.crit(d)}{self.sep()}B3:B8)'),
            (1, 'SUMIF', lambda: f'SUMIF(B3:B8{self.sep()}{self.crit(d)})'),
            (2, 'SUMIFS', lambda: f'SUMIFS(B3:B8{self.sep()}A3:A8{self.sep()}{self.crit(d)})'),
            (1, 'SUMIFS', lambda: f'SUMIFS(B3:B8,A3:A8,{self.crit(d)},B3:B8,{self.crit(d)})'),
            (2, 'COUNTIFS', lambda: f'COUNTIFS({r.choice(["A3:A8", "B3:B8", "C3:C8"])}{self.sep()}{self.crit(d)})'),
            (1, 'COUNTIFS', lambda: f'COUNTIFS(C3:C8,{q(r.choice(["k*", "k?", "k3", "*3", "<>k3"]))})'),
            (1, 'AVERAGEIFS', lambda: f'AVERAGEIFS(B3:B8,A3:A8,{q(r.choice([">0", ">=1", "<100", "<>99"]))})'),
        ])

    def digits(self):
        return self.rng.choice(['0', '1', '2', '-1', 'F2', 'F3', '0', '3'])

    def key(self, d):
        r = self.rng
        return self.pick([(4, '', lambda: r.choice(['1', '3', '7', '9', '12', 'A4', 'A6', 'F4', '4', '8', '100'])),
                          (1, '', lambda: f'{r.choice(["A4", "F4", "3"])}+{r.choice(["0", "4", "6"])}'),
                          (1, 'ROUND', lambda: f'ROUND({r.choice(["A6", "6.6", "B1+0.6"])},0)'),
                          (1, 'MAX', lambda: f'MAX({r.choice(["A3:A6", "F2:F4", "A3,F4"])})'),
                          (1, 'IF', lambda: f'IF({self.boolean(0)},3,7)')])

    def pos(self, d, hi):
        r = self.rng
        return self.pick([(4, '', lambda: str(r.randrange(1, hi + 1))), (2, '', lambda: self.ref(r.choice(SMALL_CELLS))),
                          (1, 'MATCH', lambda: f'MATCH({r.choice(["3", "7", "12", "A6"])},A3:A8,0)'),
                          (1, 'COUNT', lambda: f'COUNT({r.choice(["F2:F4", "A3:A5", "A1:B2"])})'),
                          (1, 'ROUNDDOWN', lambda: f'ROUNDDOWN({r.choice(["B1", "2.9", "F1/2"])},0)'),
                          (1, 'MIN', lambda: f'MIN(F1,{r.randrange(1, hi + 1)})')])

    def agg_args(self, d, mixed=False):
        r = self.rng
        n = r.choice([1, 1, 2, 2, 3])
        args = []
        for _ in range(n):
            k = r.random()
            if k < 0.45:
                args.append(r.choice(NUM_AREAS + (MIXED_AREAS if mixed or r.random() < 0.3 else [])))
            elif k < 0.75:
                args.append(self.num(d - 1))
            elif k < 0.85:
                args.append(self.ref(r.choice(NUM_CELLS + BLANK_CELLS)))
            else:
                args.append(r.choice(['1', '2.5', '0', '-4']))
        return self.sep().join(args)

    def crit(self, d):
        r = self.rng
        return self.pick([(4, '', lambda: '"' + r.choice(['>', '>=', '<', '<=', '<>', '=']) + r.choice(['3', '7', '30', '0', '9', '35']) + '"'),
                          (2, '', lambda: r.choice(['3', '7', '30', 'A4', 'F4', 'B4'])),
                          (2, '', lambda: '"' + r.choice(['>', '<=', '<>']) + '"&' + self.ref(r.choice(['A4', 'A6', 'F4', 'B4', 'F1']))),
                          (1, 'ROUND', lambda: '">"&ROUND(' + r.choice(['B1', '6.6', 'A1/3']) + ',0)'),
                          (1, 'MAX', lambda: '"<"&MAX(' + r.choice(['A3:A6', 'F1:F4', 'A1:B1']) + ')'),
                          (1, 'IF', lambda: f'IF({self.boolean(0)},">3","<=3")')])

    # ---- texts ---------------------------------------------------------------------------------------
    def text(self, d):
        r = self.rng
        if d <= 0:
            return self.pick([(4, '', lambda: self.ref(r.choice(TEXT_CELLS))), (2, '', lambda: r.choice(['"abc"', '"x"', '"hello world"', '"Ab"', '"b-c"']))])
        return self.pick([
            (3, '', lambda: self.text(0)),
            (3, 'AMP', lambda: f'{self.text(d - 1)}&{self.text(d - 1)}'),
            (1, 'AMP', lambda: f'{self.text(d - 1)}&{self.intnum(d - 1)}'),
            (3, 'LEFT', lambda: f'LEFT({self.text(d - 1)}{self.sep()}{self.count(d)})'),
            (3, 'RIGHT', lambda: f'RIGHT({self.text(d - 1)}{self.sep()}{self.count(d)})'),
            (3, 'MID', lambda: f'MID({self.text(d - 1)}{self.sep()}{self.pos(d, 4)}{self.sep()}{self.count(d)})'),
            (1, 'LEFT', lambda: f'LEFT({self.text(d - 1)})'),
            (2, 'CONCATENATE', lambda: f'CONCATENATE({self.text(d - 1)}{self.sep()}{q(r.choice(["-", "", " "]))}{self.sep()}{self.text(d - 1)})'),
            (1, 'CONCATENATE', lambda: f'CONCATENATE({self.text(d - 1)},{self.intnum(d - 1)})'),
            (2, 'IF', lambda: f'IF({self.boolean(d - 1)}{self.sep()}{self.text(d - 1)}{self.sep()}{self.text(d - 1)})'),
            (1, 'IFS', lambda: f'IFS({self.boolean(d - 1)},{self.text(d - 1)},{self.boolean(0)},{self.text(0)},TRUE,"none")'),
            (1, 'IFERROR', lambda: f'IFERROR(VLOOKUP({self.key(d)},A3:C8,3,FALSE),"none")'),
            (1, 'VLOOKUP', lambda: f'VLOOKUP({r.choice(["1", "3", "7", "A6", "12"])},A3:C8,3,FALSE)'),
            (1, 'INDEX', lambda: f'INDEX(C3:C8{self.sep()}{self.pos(d, 6)})'),
            (1, 'ADDRESS', lambda: f'ADDRESS({self.pos(d, 9)}{self.sep()}{self.pos(d, 30)})'),
        ])

    def intnum(self, d):
        """a number whose text form is not in question (an integer)"""
        r = self.rng
        return self.pick([(3, '', lambda: r.choice(['7', 'A1', 'D1', 'F1', 'A6'])), (1, 'COUNT', lambda: f'COUNT({r.choice(NUM_AREAS)})'),
                          (1, 'MATCH', lambda: 'MATCH(7,A3:A8,0)'), (1, 'ROUND', lambda: f'ROUND({r.choice(["B1", "A1/3", "6.5"])},0)'),
                          (1, 'SUM', lambda: f'SUM({r.choice(["A3:A8", "F1:F4", "A1,D1"])})'), (1, 'YEAR', lambda: f'{r.choice(["YEAR", "MONTH", "DAY"])}({r.choice(DATE_CELLS)})')])

    def count(self, d):
        r = self.rng
        return self.pick([(4, '', lambda: str(r.randrange(0, 5))), (2, '', lambda: self.ref(r.choice(SMALL_CELLS))),
                          (1, 'COUNT', lambda: f'COUNT({r.choice(["F2:F4", "A1:B2", "A3:A4"])})'),
                          (1, 'MIN', lambda: f'MIN(F1,{r.randrange(1, 4)})'), (1, 'SEARCH', lambda: f'SEARCH("c",{r.choice(["D2", "C2&D2"])})'),
                          (1, 'ROUNDUP', lambda: f'ROUNDUP({r.choice(["B1", "1.2", "F4/2"])},0)')])

    # ---- logicals ------------------------------------------------------------------------------------
    def boolean(self, d):
        r = self.rng
        cmpn = lambda: f'{self.num(max(d - 1, 0))}{r.choice([">", "<", ">=", "<=", "=", "<>"])}{self.num(0)}'          # noqa: E731
        if d <= 0:
            return self.pick([(4, 'CMP', cmpn), (1, '', lambda: self.ref(r.choice(BOOL_CELLS))), (1, '', lambda: r.choice(['TRUE', 'FALSE']))])
        return self.pick([
            (4, 'CMP', cmpn),
            (1, 'CMP', lambda: f'{self.text(d - 1)}{r.choice(["=", "<>"])}{self.text(0)}'),
            (2, 'AND', lambda: f'AND({self.boolean(d - 1)}{self.sep()}{self.boolean(d - 1)})'),
            (2, 'OR', lambda: f'OR({self.boolean(d - 1)}{self.sep()}{self.boolean(d - 1)})'),
            (1, 'IF', lambda: f'IF({self.boolean(d - 1)},{self.boolean(0)},{self.boolean(0)})'),
            (1, '', lambda: self.ref(r.choice(BOOL_CELLS))),
            (1, 'CMP', lambda: f'{self.date(d - 1)}{r.choice([">", "<", "="])}{self.date(0)}'),
        ])

    # ---- dates ---------------------------------------------------------------------------------------
    def date(self, d):
        r = self.rng
        if d <= 0:
            return self.pick([(3, '', lambda: self.ref(r.choice(DATE_CELLS))), (1, 'DATE', lambda: f'DATE({r.choice(["2024", "2023", "2020"])},{r.randrange(1, 13)},{r.randrange(1, 29)})')])
        return self.pick([
            (3, '', lambda: self.date(0)),
            (2, 'DATE', lambda: f'DATE({r.choice(["2024", "YEAR(E3)", "2000+F1"])}{self.sep()}{self.pos(d, 12)}{self.sep()}{self.pos(d, 28)})'),
            (2, 'EDATE', lambda: f'EDATE({self.date(d - 1)}{self.sep()}{r.choice(["1", "-1", "12", "F2", "F4", "-13"])})'),
            (2, 'EOMONTH', lambda: f'EOMONTH({self.date(d - 1)}{self.sep()}{r.choice(["0", "1", "-1", "F3", "11"])})'),
            (1, 'IF', lambda: f'IF({self.boolean(d - 1)},{self.date(d - 1)},{self.date(0)})'),
        ])

    def formula(self, typ, depth):
        self.used = set()
        body = {'N': self.num, 'T': self.text, 'B': self.boolean, 'D': self.date}[typ](depth)
        return '=' + body, set(self.used)


VALUATIONS = [
    [],
    [('A1', 9), ('B1', 0.25), ('C1', 6), ('F1', 2), ('A2', 'zebra'), ('D2', 'xcx'), ('F3', 3), ('D3', False), ('E3', dt.datetime(2024, 5, 31)), ('B5', 31)],
    [('A1', -2), ('D1', 7.75), ('E1', 5), ('F2', 2), ('F4', 1), ('B2', 'b'), ('C2', 'ccc c'), ('D4', True), ('E5', dt.datetime(2023, 11, 30)), ('A4', 2)],
    [('A1', 3), ('B1', 3), ('F6', 4), ('A2', 'Bc'), ('E2', '7'), ('F1', 4), ('E4', dt.datetime(2025, 1, 1)), ('A6', 8), ('B3', -10)],
]


def random_valuation(rng):
    """type-preserving overrides of the data block (numbers stay numbers, the key column stays ascending, texts stay texts)"""
    ov = []
    for a in rng.sample(NUM_CELLS[:6], 3):
        ov.append((a, rng.choice([0, 1, -1, 2.5, 7, 12, 0.1, 99.5, -40, 3, 1e6, 0.004])))
    for a in rng.sample(SMALL_CELLS, 2):
        ov.append((a, rng.randrange(0, 5)))
    for a in rng.sample(TEXT_CELLS, 2):
        ov.append((a, rng.choice(['', 'a', 'Zz top', 'abcabcabc', 'x', 'b-c-d', 'Alpha', 'c c', '12ab'])))
    if rng.random() < 0.5:
        ov.append((rng.choice(BOOL_CELLS), rng.random() < 0.5))
    if rng.random() < 0.6:
        ov.append((rng.choice(DATE_CELLS), dt.datetime(2024, 1, 1) + dt.timedelta(days=rng.randrange(-400, 400))))
    if rng.random() < 0.5:
        keys = sorted(rng.sample(range(0, 40), 6))
        if rng.random() < 0.5:
            keys[2] = keys[1]
        ov += [(f'A{3 + i}', k) for i, k in enumerate(keys)]
    if rng.random() < 0.3:
        ov.append((rng.choice(BLANK_CELLS), rng.choice([5, 'filled', 0])))
    return ov
