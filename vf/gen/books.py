"""Shared generator of small layered workbooks (constants + formulas that only look backwards, so no cycles).

Used where the library is compared with itself (C08 schedules, C06 members): the formulas need not be well-behaved,
a formula that raises is an observation like any other."""
import datetime as dt

from .. import wbspec

TITLES = ['S1', 'Data_2', 'my sheet', 'Лист1', 'T', 'Main', 'x y']


def const(rng):
    k = rng.random()
    if k < 0.35:
        return rng.randrange(-9, 60)
    if k < 0.55:
        return round(rng.uniform(-5, 40), rng.choice([1, 2, 3]))
    if k < 0.75:
        return rng.choice(['apple', 'Bee', 'cat', 'k1', 'x y', 'dog', '10', 'ZZ'])
    if k < 0.85:
        return rng.random() < 0.5
    if k < 0.93:
        return dt.datetime(2023, 1, 1) + dt.timedelta(days=rng.randrange(0, 800))
    return 0


def gen(rng, nsheets=None, formulas_per_sheet=8, raising=True):
    """-> (spec, info) ; info = {'titles', 'consts': {(si,r,c): v}, 'formulas': {(si,r,c): text}}"""
    ns = nsheets or rng.randrange(1, 4)
    titles = rng.sample(TITLES, ns)
    consts, formulas = {}, {}
    for si in range(ns):
        for r in range(1, rng.randrange(3, 8)):
            for c in range(1, rng.randrange(2, 6)):          # ragged rows
                if rng.random() < 0.8:
                    consts[(si, r, c)] = const(rng)
    nums = [k for k, v in consts.items() if isinstance(v, (int, float)) and not isinstance(v, bool)]
    texts = [k for k, v in consts.items() if isinstance(v, str)]
    dates = [k for k, v in consts.items() if isinstance(v, dt.datetime)]
    done = []          # formula cells already placed (may be referenced by later ones)

    def ref(own, key):
        si, r, c = key
        a = wbspec.a1(r, c)
        if si == own and rng.random() < 0.7:
            return rng.choice([a, '$' + a, a.replace(a.lstrip('ABCDEFGHIJ'), '$' + a.lstrip('ABCDEFGHIJ'))])
        return f"'{titles[si]}'!{a}"

    def N(own):
        pool = nums + [k for k in done if rng.random() < 0.5]
        return ref(own, rng.choice(pool)) if pool else str(rng.randrange(1, 9))

    def T(own):
        return ref(own, rng.choice(texts)) if texts else '"t"'

    def area(own):
        si = own if rng.random() < 0.7 else rng.randrange(ns)
        r1, c1 = rng.randrange(1, 5), rng.randrange(1, 4)
        r2, c2 = r1 + rng.randrange(0, 3), c1 + rng.randrange(0, 2)
        p = '' if si == own else f"'{titles[si]}'!"
        return f'{p}{wbspec.a1(r1, c1)}:{wbspec.a1(r2, c2)}'

    def col(own):
        si = own if rng.random() < 0.7 else rng.randrange(ns)
        p = '' if si == own else f"'{titles[si]}'!"
        c = rng.choice('ABCD')
        return f'{p}{c}:{c}'

    for si in range(ns):
        for i in range(formulas_per_sheet):
            r, c = i % 6 + 1, 7 + i // 6           # formulas in columns G.. (constants stay in A..E)
            t = rng.choice([
                lambda: f'={N(si)}+{N(si)}', lambda: f'={N(si)}*{N(si)}-{N(si)}', lambda: f'=SUM({area(si)})',
                lambda: f'=SUM({col(si)})', lambda: f'=IF({N(si)}>{N(si)},"y",{N(si)})', lambda: f'={T(si)}&"-"&{N(si)}',
                lambda: f'=COUNTBLANK({area(si)})', lambda: f'=MAX({area(si)},{N(si)})', lambda: f'=ROUND({N(si)}/3,2)',
                lambda: f'={area(si)}', lambda: f'=LEFT({T(si)},2)', lambda: f'=COLUMN({N(si)})', lambda: f'={N(si)}>={N(si)}',
                lambda: f'=IFERROR({N(si)}/{N(si)},-1)', lambda: f'=COUNT({area(si)})', lambda: f'=AVERAGE({area(si)},{N(si)})',
                lambda: f'=INDEX({area(si)},1,1)', lambda: f'=-{N(si)}%', lambda: f'=AND({N(si)}>0,{N(si)}<50)',
                lambda: (f'=YEAR({ref(si, rng.choice(dates))})' if dates else '=1+1'),
                lambda: (f'={N(si)}/0' if raising else '=2*3'),
                lambda: f'=MATCH({N(si)},A1:A5,0)',
            ])()
            formulas[(si, r, c)] = t
            done.append((si, r, c))
    sheets = []
    for si in range(ns):
        cells = {wbspec.a1(r, c): v for (s, r, c), v in consts.items() if s == si}
        cells.update({wbspec.a1(r, c): f for (s, r, c), f in formulas.items() if s == si})
        sheets.append(wbspec.sheet(titles[si], cells))
    return {'sheets': sheets}, {'titles': titles, 'consts': consts, 'formulas': formulas}
