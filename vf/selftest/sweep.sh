#!/bin/bash
# usage: sweep.sh quick "0 1 2 3" [checks...]   - runs the checks on the unchanged tree for several seeds, prints every run that is not silent
tier=$1; seeds=$2; shift 2
checks=${@:-C01 C02 C03 C04 C05 C06 C07 C08 C09 C10 C11 C12 C13 C14 C15 C16 C17 C18 C19 C20}
cd /verif
for s in $seeds; do for c in $checks; do
  out=$(VERIF_SEED=$s ./check $c --tier $tier 2>&1); rc=$?
  echo "$c seed=$s rc=$rc $(echo "$out" | grep '^# C' | tail -1 | cut -c1-140)"
  if [ $rc -ne 0 ]; then echo "$out" | grep -v '^KNOWN' | tail -8 | cut -c1-700; fi
done; done
