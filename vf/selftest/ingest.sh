#!/bin/bash
# usage: ingest.sh C08 slug "needs text"
id=$1; slug=$2; needs=$3
wt=${4:-/tmp/seed_$id}
d=/verif/seeded/$id-$slug
mkdir -p $d
cp $wt/seed_patch.diff $d/patch.diff && cp $wt/seed_demo.py $d/demo.py && cp $wt/seed_note.md $d/note.md || exit 1
python3 - "$id" "$needs" "$d" <<'P'
import json,sys
pid,needs,d=sys.argv[1:4]
json.dump({'property': pid, 'needs': needs, 'source': 'independent sub-agent given only the property text and a scratch worktree',
           'ran': 'vf.selftest.seeded --confirm: pinned suite on the changed copy, demo.py on /repo (exit 0) and on the changed copy (exit 1), then ./check of the property with VERIF_REPO_ROOT pointing at the changed copy'},
          open(d+'/meta.json','w'), indent=1)
P
echo ingested $d
