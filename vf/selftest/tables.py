"""print the markdown tables of DESIGN.md section 7 from the self-test table and the seeded directory"""
import json
import os

from .run import M, HERE


def main():
    print('| mutant | property | what it breaks |')
    print('|---|---|---|')
    for mid, (prop, edits, note) in M.items():
        print(f'| `{mid}` | {prop} | {note} |')
    print()
    print('| seeded change | property | what it needs in order to manifest |')
    print('|---|---|---|')
    d = os.path.join(HERE, 'seeded')
    for sid in sorted(os.listdir(d)):
        mp = os.path.join(d, sid, 'meta.json')
        if os.path.exists(mp):
            m = json.load(open(mp))
            print(f"| `{sid}` | {m['property']} | {m['needs']} |")


if __name__ == '__main__':
    main()
