"""Run the checks against the seeded breaking changes kept under /verif/seeded/<id>/:

    /venv/bin/python -m vf.selftest.seeded [ids...] [--thorough] [--all-checks] [--confirm]

Each seeded/<id>/ holds patch.diff (git diff of the library), demo.py (exits 0 on the unchanged library, 1 on the
changed one) and meta.json ({"property": "C07", "needs": "...", "ran": "..."}).  The patch is applied to a scratch copy of
/repo outside /repo and /verif (the checks follow VERIF_REPO_ROOT), so /repo itself is never touched by this script;
applying the patch to /repo with `git -C /repo apply` and undoing it with `git -C /repo checkout -- .` is equivalent.
--confirm also re-establishes the premise: the pinned suite passes with the change, the demo passes without it and
fails with it.  Evidence files are put back afterwards."""
import json
import os
import shutil
import subprocess
import sys
import tempfile

HERE = os.path.dirname(os.path.dirname(os.path.dirname(os.path.abspath(__file__))))
SEEDED = os.path.join(HERE, 'seeded')
PINNED = ['/venv/bin/python', '-m', 'pytest', '-q', '-p', 'no:cacheprovider', '--timeout=900', '--continue-on-collection-errors']
ALL = [f'C{i:02d}' for i in range(1, 21)]


def scratch_with_patch(patch):
    root = tempfile.mkdtemp(prefix='vf_seed_', dir='/tmp')
    subprocess.run(['rsync', '-a', '--exclude', '.git', '--exclude', '__pycache__', '/repo/', root + '/'], check=True)
    p = subprocess.run(['patch', '-p1', '-s', '-i', patch], cwd=root, capture_output=True, text=True)
    if p.returncode != 0:
        shutil.rmtree(root, ignore_errors=True)
        raise RuntimeError(f'patch does not apply: {patch}\n{p.stdout}{p.stderr}')
    return root


def run_check(prop, root, tier):
    e = dict(os.environ, VERIF_REPO_ROOT=root)
    c = subprocess.run([os.path.join(HERE, 'check'), prop, '--tier', tier], env=e, capture_output=True, text=True)
    lines = c.stdout.splitlines()
    return {'exit': c.returncode, 'violations': len([l for l in lines if l.startswith('VIOLATION')]),
            'monitors': sorted({l.split('monitor=')[1].split()[0] for l in lines if l.startswith('#   monitor=')}),
            'inconclusive': [l for l in lines if l.startswith('INCONCLUSIVE')][:1]}


def one(sid, tier, all_checks, confirm):
    d = os.path.join(SEEDED, sid)
    meta = json.load(open(os.path.join(d, 'meta.json')))
    root = scratch_with_patch(os.path.join(d, 'patch.diff'))
    res = {'id': sid, 'property': meta['property']}
    try:
        if confirm:
            e = dict(os.environ, PYTHONPATH=root)
            t = subprocess.run(PINNED, cwd=root, env=e, capture_output=True, text=True)
            res['pinned_suite_passes_with_change'] = t.returncode == 0
            demo = os.path.join(d, 'demo.py')
            # the demos make scratch directories of their own: inside the copy, which is removed below
            scratch = os.path.join(root, '.demo_scratch')
            os.makedirs(scratch, exist_ok=True)
            a = subprocess.run(['/venv/bin/python', demo], env=dict(os.environ, PYTHONPATH='/repo', TMPDIR=scratch), cwd=scratch, capture_output=True, text=True)
            b = subprocess.run(['/venv/bin/python', demo], env=dict(os.environ, PYTHONPATH=root, TMPDIR=scratch), cwd=scratch, capture_output=True, text=True)
            res['demo_without_change'] = a.returncode
            res['demo_with_change'] = b.returncode
        res['own'] = run_check(meta['property'], root, tier)
        res['caught'] = res['own']['exit'] == 1 and res['own']['violations'] > 0
        if all_checks:
            res['others'] = {}
            for p in ALL:
                if p != meta['property']:
                    o = run_check(p, root, tier)
                    if o['exit'] != 0:
                        res['others'][p] = o
    finally:
        shutil.rmtree(root, ignore_errors=True)
    return res


def main():
    args = [a for a in sys.argv[1:] if not a.startswith('-') and not a.isdigit()]
    tier = 'thorough' if '--thorough' in sys.argv else 'quick'
    ids = sorted(x for x in os.listdir(SEEDED) if os.path.isdir(os.path.join(SEEDED, x)) and (not args or any(x.startswith(a) for a in args)))
    keep = tempfile.mkdtemp(prefix='vf_evidence_', dir='/tmp')
    shutil.copytree(os.path.join(HERE, 'evidence'), os.path.join(keep, 'evidence'))
    out = []
    try:
        import concurrent.futures
        jobs = int(sys.argv[sys.argv.index('-j') + 1]) if '-j' in sys.argv else 1

        def safe(sid):
            meta_ = json.load(open(os.path.join(SEEDED, sid, 'meta.json')))
            if meta_.get('retired'):
                return {'id': sid, 'caught': True, 'retired': True}
            try:
                return one(sid, tier, '--all-checks' in sys.argv, '--confirm' in sys.argv)
            except RuntimeError as e:
                # the library moved on under the patch (a later repair touched the same lines): the seed has to be rebased by hand
                return {'id': sid, 'caught': False, 'patch_failed': True, 'why': str(e).splitlines()[0]}

        with concurrent.futures.ThreadPoolExecutor(jobs) as pool:
            for r in pool.map(safe, ids):
                out.append(r)
                if r.get('retired'):
                    print('RETIRED ' + r['id'], flush=True)
                    continue
                if r.get('patch_failed'):
                    print('PATCH-FAILED ' + r['id'], r['why'], flush=True)
                    continue
                print(('CAUGHT ' if r['caught'] else 'MISSED ') + r['id'], r['property'], r['own'],
                      {k: r[k] for k in ('pinned_suite_passes_with_change', 'demo_without_change', 'demo_with_change') if k in r},
                      ('also: ' + ','.join(sorted(r.get('others', {})))) if r.get('others') else '', flush=True)
    finally:
        shutil.rmtree(os.path.join(HERE, 'evidence'), ignore_errors=True)
        shutil.copytree(os.path.join(keep, 'evidence'), os.path.join(HERE, 'evidence'))
        shutil.rmtree(keep, ignore_errors=True)
    print(json.dumps({'seeded': len(out), 'missed': [r['id'] for r in out if not r['caught']]}))
    return 0


if __name__ == '__main__':
    sys.exit(main())
