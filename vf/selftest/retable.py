"""rewrite the two generated tables of DESIGN.md section 7 in place:  /venv/bin/python -m vf.selftest.retable"""
import io
import os
from contextlib import redirect_stdout

from . import tables
from .run import HERE


def main():
    buf = io.StringIO()
    with redirect_stdout(buf):
        tables.main()
    mut, seeds = buf.getvalue().strip().split('\n\n')
    p = os.path.join(HERE, 'DESIGN.md')
    lines = open(p, encoding='utf-8').read().split('\n')
    out, i = [], 0
    while i < len(lines):
        if lines[i].startswith('| mutant | property |') or lines[i].startswith('| seeded change | property |'):
            out += (mut if lines[i].startswith('| mutant') else seeds).split('\n')
            while i < len(lines) and lines[i].startswith('|'):
                i += 1
            continue
        out.append(lines[i])
        i += 1
    open(p, 'w', encoding='utf-8').write('\n'.join(out))
    print('tables rewritten:', mut.count('\n') - 1, 'mutants,', seeds.count('\n') - 1, 'seeded changes')


if __name__ == '__main__':
    main()
