"""Does every repaired defect come back as a violation when its repair is undone?

    /venv/bin/python -m vf.selftest.reverts [C13 ...|sha ...] [--thorough] [-j 4]

For every line 'fixed: property=<id> <commit> ...' of known-findings.txt the diff of that commit is applied IN REVERSE to a
scratch copy of /repo outside /repo and /verif (VERIF_REPO_ROOT points the check at it), the check of the property is run,
and the copy is removed.  Expected: exit 1 with a VIOLATION line ('a fixed entry suppresses nothing: the check reports the
violation again if it ever returns').  A later repair that rewrote the same lines makes the reverse diff inapplicable; that
is printed as PATCH-FAILED, not counted as caught.  Nothing here is registered in MANIFEST.json (DESIGN.md section 7)."""
import concurrent.futures
import json
import os
import re
import shutil
import subprocess
import sys
import tempfile

HERE = os.path.dirname(os.path.dirname(os.path.dirname(os.path.abspath(__file__))))


def fixed_lines():
    out = []
    for line in open(os.path.join(HERE, 'known-findings.txt'), encoding='utf-8'):
        m = re.match(r'fixed: property=(C\d\d) ([0-9a-f]{7,40}) (.*)', line)
        if m:
            out.append(m.groups())
    return out


def run_one(prop, sha, what, tier):
    root = tempfile.mkdtemp(prefix='vf_rev_', dir='/tmp')
    res = {'property': prop, 'commit': sha, 'what': what[:100]}
    try:
        subprocess.run(['rsync', '-a', '--exclude', '.git', '--exclude', '__pycache__', '/repo/', root + '/'], check=True)
        diff = subprocess.run(['git', '-C', '/repo', 'diff', sha + '~', sha, '--', 'excel2pycl'], capture_output=True, text=True, check=True).stdout
        p = subprocess.run(['patch', '-R', '-p1', '--no-backup-if-mismatch', '-f'], cwd=root, input=diff, capture_output=True, text=True)
        if p.returncode != 0:
            res['state'] = 'PATCH-FAILED'
            return res
        # the copy must still import
        imp = subprocess.run(['/venv/bin/python', '-c', 'import excel2pycl'], cwd=root, env=dict(os.environ, PYTHONPATH=root), capture_output=True, text=True)
        if imp.returncode != 0:
            res['state'] = 'NO-IMPORT'
            return res
        e = dict(os.environ, VERIF_REPO_ROOT=root)
        c = subprocess.run([os.path.join(HERE, 'check'), prop, '--tier', tier], env=e, capture_output=True, text=True)
        lines = c.stdout.splitlines()
        res['exit'] = c.returncode
        res['monitors'] = sorted({l.split('monitor=')[1].split()[0] for l in lines if l.startswith('#   monitor=')})
        res['state'] = 'CAUGHT' if c.returncode == 1 and any(l.startswith('VIOLATION') for l in lines) else 'MISSED'
        return res
    finally:
        shutil.rmtree(root, ignore_errors=True)


def main():
    argv = sys.argv[1:]
    args = [a for i, a in enumerate(argv) if not a.startswith('-') and not (i and argv[i - 1] == '-j')]
    tier = 'thorough' if '--thorough' in sys.argv else 'quick'
    jobs = int(sys.argv[sys.argv.index('-j') + 1]) if '-j' in sys.argv else 4
    todo = [f for f in fixed_lines() if not args or f[0] in args or any(f[1].startswith(a) for a in args)]
    keep = tempfile.mkdtemp(prefix='vf_evidence_', dir='/tmp')
    shutil.copytree(os.path.join(HERE, 'evidence'), os.path.join(keep, 'evidence'))
    out = []
    try:
        with concurrent.futures.ThreadPoolExecutor(jobs) as ex:
            for res in ex.map(lambda f: run_one(*f, tier), todo):
                out.append(res)
                print(res['state'], res['property'], res['commit'], res.get('monitors', ''), '::', res['what'], flush=True)
    finally:
        shutil.rmtree(os.path.join(HERE, 'evidence'), ignore_errors=True)
        shutil.copytree(os.path.join(keep, 'evidence'), os.path.join(HERE, 'evidence'))
        shutil.rmtree(keep, ignore_errors=True)
    tally = {}
    for r in out:
        tally[r['state']] = tally.get(r['state'], 0) + 1
    print(json.dumps({'fixes': len(out), **tally, 'missed': [r['property'] + ':' + r['commit'] for r in out if r['state'] == 'MISSED']}))
    return 1 if tally.get('MISSED') else 0


if __name__ == '__main__':
    sys.exit(main())
