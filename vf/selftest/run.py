"""Mutation self-test of the monitors:  /venv/bin/python -m vf.selftest.run [ids...] [--tests] [--tier quick]

Each mutant is a small source change that breaks ONE property while the repository still imports (and, with --tests,
while its pinned suite still passes).  The mutant is applied to a scratch copy of /repo OUTSIDE /repo and /verif
(VERIF_REPO_ROOT points the check at it), the check of the property is run, and the copy is removed.  Expected: exit 1
with a VIOLATION line.  Nothing here is registered in MANIFEST.json; it validates the monitors (DESIGN.md section 7)."""
import json
import os
import shutil
import subprocess
import sys
import tempfile

HERE = os.path.dirname(os.path.dirname(os.path.dirname(os.path.abspath(__file__))))
SRC = 'excel2pycl/src/'
CTX = SRC + 'context.py'
ABS = SRC + 'utilities/abstract_excel_in_python_class.py'

# id: (property, [(file, old, new)], note)     a file list entry may name two files (both runtimes) via tuple
M = {
    'c18-enumerate-from-1': ('C18', [(SRC + 'excel.py', 'for row in worksheet.iter_rows():\n                rows_data = []',
                                      'for row in worksheet.iter_rows():\n                rows_data = []\n                if not row:\n                    continue')],
                             'empty rows are skipped while reading: rows after a gap shift up'),
    'c18-size-counts-nonempty': ('C18', [(SRC + 'excel.py', "rows_data_len = len(rows_data)", "rows_data_len = len([x for x in rows_data if x is not None])")],
                                 'last_column = number of non-empty cells of the longest row'),
    'c18-sheetnames': ('C18', [(SRC + 'excel.py', "'titles': worksheets_titles,", "'titles': wb.sheetnames,")], 'chart sheets numbered (the repaired defect)'),
    'c02-colmajor': ('C02', [(SRC + 'excel.py', 'return [list(row) for row in zip(*columns)]', 'return columns')], 'A:C column-major (the repaired defect)'),
    'c02-matrix-last-row': ('C02', [(SRC + 'excel.py', 'for row in range(first.row, second.row + 1):', 'for row in range(first.row, second.row + (1 if second.row - first.row < 3 else 0)):')],
                            'areas taller than 3 rows lose their last row (get_range/_get_vertical_range with explicit rows is dead code: every A1:A3 lexes as a matrix)'),
    'c02-title-fallback': ('C02', [(SRC + 'handle_cell.py', "            raise E2PyclCellException(f'There is no worksheet with the title of {cell}')\n        cell.title = titles[cell.title]",
                                    "            cell.title = 0\n        else:\n            cell.title = titles[cell.title]")], 'unknown title resolves to the first sheet'),
    'c02-absolute-row-off': ('C02', [(SRC + 'tokens/regexp_tokens/__init__.py', "                              row=self.value[6])", "                              row=self.value[6] if '$' not in self.value[0][-len(self.value[6]) - 1:] else str(int(self.value[6]) + 1))")],
                             'a $-absolute row of a single-cell reference is read one row lower'),
    'c08-getcell-grows-sizes': ('C08', [(SRC + 'utilities/executor.py', "        self._handle_one_cell(cell)\n        cell.value = self._executed_instance.exec_function_in(cell.uid)",
                                         "        self._handle_one_cell(cell)\n        self._sheets_size[cell.title]['last_row'] = max(cell.row + 1, self._sheets_size[cell.title]['last_row'])\n        cell.value = self._executed_instance.exec_function_in(cell.uid)")],
                                'a query beyond the used range grows the reported sheet size'),
    'c08-sheet-extra-row': ('C08', [(SRC + 'utilities/executor.py', "for row in range(sheet_size.get('last_row', 0)):", "for row in range(sheet_size.get('last_row', 0) + (1 if self._cells else 0)):")],
                            'get_sheet has one row too many once overrides exist'),
    'c08-a1-row-off': ('C08', [(SRC + 'handle_cell.py', "            cell.row = int(cell.row) - 1", "            cell.row = int(cell.row) - (1 if int(cell.row) < 10 else 0)")],
                       'A1-style addressing of rows >= 10 is off by one (numeric addressing is not)'),
    'c08-shared-arguments': ('C08', [(CTX, "        self._arguments: Dict[str, Any] = {{}}\n        self.set_arguments(arguments)",
                                      "        self._arguments: Dict[str, Any] = self.__class__.__dict__.get('_shared', {{}})\n        self.set_arguments(arguments)"),
                                     (CTX, "        self._arguments = {{\n            **self._arguments,\n            **{{i['uid']: i['value'] for i in arguments}}\n        }}",
                                      "        self._arguments.update({{i['uid']: i['value'] for i in arguments}})\n        type(self)._shared = self._arguments")],
                             'override map shared between instances of the generated class (two executors see each other)'),
    'c06-no-memo': ('C06', [(SRC + 'tokens/composite_base_token.py', "        memo = getattr(in_cell, '_parse_memo', None)\n", "        memo = None\n")],
                    'packrat memo off: parse time exponential in nesting depth (the repaired defect) - step budget must trip'),
    'c06-recursionerror': ('C06', [(SRC + 'translators/cell_translator.py', "                except RecursionError as e:", "                except ZeroDivisionError as e:")],
                           'RecursionError of long operator chains escapes again'),
    'c06-no-compile-guard': ('C06', [(SRC + 'context.py', "            compile('class _:\\n' + self.__build_function('_', code), '<cell>', 'exec')", "            pass")],
                             'a formula nested >100 levels is emitted although Python cannot compile it'),
    'c06-row-zero': ('C06', [(SRC + 'handle_cell.py', "            if int(cell.row) < 1:", "            if int(cell.row) < 0:"),
                             (SRC + 'handle_cell.py', "not isinstance(coordinate, int) or coordinate < 0:", "not isinstance(coordinate, int) or coordinate < -1:")],
                     'A0 accepted: method name _0_0_-1 (both layers removed: the row text check and the whole-number check of D97 - either alone is an equivalent mutant now)'),
    'c06-constant-str': ('C06', [(SRC + 'translators/cell_translator.py', "                code = repr(cell.value)\n",
                                  "                code = repr(cell.value) if not isinstance(cell.value, str) or '\\\\' not in cell.value else '\"' + cell.value + '\"'\n")],
                         'text constants containing a backslash are emitted between plain double quotes'),
    'c11-bool-numeric': ('C11', [(CTX, "            if type(i) in [float, int] or (with_string_digits", "            if isinstance(i, (float, int)) or (with_string_digits")],
                         'numeric filter by isinstance: TRUE/FALSE and blank objects inside areas are folded'),
    'c11-countblank-zero': ('C11', [(CTX, 'empty = [elem for elem in flatten_list if elem is None or elem == ""]', 'empty = [elem for elem in flatten_list if elem is None or elem == "" or elem == 0 and elem is not False]')],
                            'COUNTBLANK also counts zeros'),
    'c11-flatten-drops-nested-tail': ('C11', [(CTX, "                result.extend(self._flatten_list(i))", "                result.extend(self._flatten_list(i[:6]))")],
                                      'areas with more than 6 rows lose the rest when flattened'),
    'c11-and-any': ('C11', [(CTX, "        return all(item for item in flatten_list if not isinstance(item, self.EmptyCell))", "        return all(item for item in flatten_list[:2] if not isinstance(item, self.EmptyCell))")],
                    'AND looks at its first two arguments only'),
    'c11-text-digits-numeric': ('C11', [(CTX, "def _only_numeric_list(flatten_list: List, with_string_digits: bool = False):", "def _only_numeric_list(flatten_list: List, with_string_digits: bool = True):")],
                                'numeric-looking text inside areas is folded as if it were a number'),
    'c13-swap-branches-default': ('C13', [(SRC + 'translators/if_cc_token_translator.py', "if token.when_false else 'False'", "if token.when_false else 'True'")],
                                  'IF without else-branch yields TRUE instead of FALSE'),
    'c13-if-eager': ('C13', [(SRC + 'translators/if_cc_token_translator.py', "return f'(({when_true}) if ({condition}) else ({when_false}))'", "return f'(({when_true}), ({when_false}))[0 if ({condition}) else 1]'")],
                     'IF evaluates both branches (tuple indexing): an error in the branch not taken surfaces'),
    'c13-iferror-eager': ('C13', [(SRC + 'translators/iferror_cc_token_translator.py', "lambda: {condition}, lambda: {when_error})", "lambda: {condition}, {when_error})")],
                          'IFERROR fallback evaluated eagerly (the repaired defect)'),
    'c13-ifs-error-anywhere': ('C13', [(CTX, "            condition = value_of(flatten_list[index])\n", "            condition = value_of(flatten_list[index])\n            if index == 0 and self._find_error_in_list([value_of(i) for i in flatten_list[1::2]]):\n                return self._find_error_in_list([value_of(i) for i in flatten_list[1::2]])\n")],
                               'IFS scans all values for error texts first (the repaired defect)'),
    'c13-ifs-no-match-value': ('C13', [(CTX, "                return value_of(flatten_list[index + 1])\n            index += 2\n\n        return '#N/A'", "                return value_of(flatten_list[index + 1])\n            index += 2\n\n        return '#VALUE!'")],
                               'IFS without a true condition returns #VALUE! instead of #N/A'),
    'c13-iferror-only-exceptions': ('C13', [(CTX, "            is_error = bool(self._find_error_in_list([cell]))", "            is_error = False")],
                                    'IFERROR only catches failures, not error values'),
    'c17-left-off-by-one': ('C17', [(CTX, "        if len(text) < num_chars:\n            return text\n        return text[0:num_chars]", "        if len(text) <= num_chars:\n            return text\n        return text[0:num_chars] if num_chars < 3 else text[0:num_chars - 1]")],
                            'LEFT with a count >= 3 below the length returns one character too few'),
    'c17-mid-start': ('C17', [(CTX, "        return text[start_num - 1:start_num + num_chars - 1]", "        return text[start_num - 1:start_num + num_chars - 1] if start_num > 1 else text[0:num_chars + 1]")],
                      'MID from position 1 returns one character too many'),
    'c17-search-from-zero': ('C17', [(CTX, "search(within_text, start_num - 1)", "search(within_text, 0)")], 'SEARCH ignores the start position'),
    'c17-search-case': ('C17', [(CTX, "re.compile(self._wildcard_pattern(find_text), re.IGNORECASE | re.DOTALL)", "re.compile(self._wildcard_pattern(find_text), re.DOTALL)")], 'SEARCH is case-sensitive'),
    'c17-search-tilde': ('C17', [(CTX, "and text[index + 1] in '?*~':", "and text[index + 1] in '?*':")], '~~ is not an escaped tilde'),
    'c17-blank-text-form': ('C17', [(CTX, "        if isinstance(value, self.EmptyCell):\n            return ''\n\n        if isinstance(value, bool):", "        if isinstance(value, bool):")],
                            'a blank operand of & becomes "0" again (the repaired defect)'),
    'c17-value-int-only': ('C17', [(CTX, "            if plain:\n                return float(text)\n", "            if plain:\n                return float(text) if 'e' not in text.lower() else '#VALUE!'\n")],
                           'VALUE refuses exponent notation'),
    'c12-ge-for-gt': ('C12', [(CTX, "            case '>':\n                return left_operand > right_operand", "            case '>':\n                return left_operand >= right_operand")],
                      '> behaves as >= (comparison operators and criteria share _by_operator)'),
    'c12-skip-size-check': ('C12', [(CTX, "                if len(sum_range) != len(i):\n                    raise self.ExcelInPythonException('Invalid sumifs range size')", "                if False:\n                    raise self.ExcelInPythonException('Invalid sumifs range size')"),
                                    (CTX, "                if sum_range_shape and self._area_shape(i) and self._area_shape(i) != sum_range_shape:", "                if False:")],
                            'SUMIFS does not check that the ranges have one size (both layers removed: the cell count and the shape check of D105 - the count check alone is an equivalent mutant now)'),
    'c12-wildcard-prefix': ('C12', [(CTX, "hit = re.fullmatch(self._wildcard_pattern(value), cell, re.IGNORECASE | re.DOTALL) is not None", "hit = re.match(self._wildcard_pattern(value), cell, re.IGNORECASE | re.DOTALL) is not None")],
                            'text criteria match a prefix of the cell instead of the whole cell'),
    'c12-case-sensitive': ('C12', [(CTX, "hit = re.fullmatch(self._wildcard_pattern(value), cell, re.IGNORECASE | re.DOTALL) is not None", "hit = re.fullmatch(self._wildcard_pattern(value), cell, re.DOTALL) is not None")],
                           'text criteria are case-sensitive'),
    'c12-eq-prefix-text': ('C12', [(CTX, "found = re.match(r'^(>=|<=|<>|>|<|=)(.*)$', criterion, re.DOTALL)", "found = re.match(r'^(>=|<=|<>|>|<)(.*)$', criterion, re.DOTALL)")],
                           '"=3" is taken as the plain text =3'),
    'c12-countifs-falsy': ('C12', [(CTX, "        return len([i for i in range(len(count_range)) if accepted[i] and count_condition(count_range[i])])", "        return len([i for i in range(len(count_range)) if accepted[i] and count_condition(count_range[i]) and count_range[i]])")],
                           'COUNTIFS drops rows whose cell is 0 (the repaired defect)'),
    'c12-sumif-target-shift': ('C12', [(SRC + 'excel.py', "                    base.row + abs(second.row - first.row) if first.row", "                    base.row + abs(second.row - first.row) - (1 if abs(second.row - first.row) > 5 else 0) if first.row")],
                               'the derived SUMIF target range is one row short for criteria ranges taller than 6'),
    'c12-second-pair-ignored': ('C12', [(CTX, "        for [_range, criteria] in range_and_criteria_zip:\n            for i in range(len(_range)):\n                if not criteria(_range[i]):\n                    sum_range[i] = None", "        for [_range, criteria] in range_and_criteria_zip[:2]:\n            for i in range(len(_range)):\n                if not criteria(_range[i]):\n                    sum_range[i] = None")],
                                'SUMIFS ignores the third criteria pair'),
    # ---- checks built in earlier rounds --------------------------------------------------------------------------------------
    'c01-percent-tenth': ('C01', [(SRC + 'translators/expression_token_translator.py', "f'self._normalize_float_number({operand} / 100)'", "f'self._normalize_float_number({operand} / 100.0000000001)'")],
                          'x% is x/100.0000000001'),
    'c01-text-compare-case-sensitive': ('C01', [(CTX, "left_operand, right_operand = left_operand.lower(), right_operand.lower()", "pass"),
                                                (ABS, "left_operand, right_operand = left_operand.lower(), right_operand.lower()", "pass")],
                                        'text operands of comparisons compared by code point again (the repaired defect)'),
    'c17-float-count-not-converted': ('C17', [(CTX, "        num_chars = int(num_chars)\n        if isinstance(text, self.EmptyCell):\n            text = ''\n        if num_chars < 0:\n            return '#ERROR!'\n        if not text:\n            return self.EmptyCell()\n        if len(text) < num_chars:\n            return text\n        return text[0:num_chars]",
                                               "        if num_chars < 0:\n            return '#ERROR!'\n        if not text:\n            return self.EmptyCell()\n        if len(text) < num_chars:\n            return text\n        return text[0:num_chars]"),
                                              (ABS, "        num_chars = int(num_chars)\n        if isinstance(text, self.EmptyCell):\n            text = ''\n        if num_chars < 0:\n            return '#ERROR!'\n        if not text:\n            return self.EmptyCell()\n        if len(text) < num_chars:\n            return text\n        return text[0:num_chars]",
                                               "        if num_chars < 0:\n            return '#ERROR!'\n        if not text:\n            return self.EmptyCell()\n        if len(text) < num_chars:\n            return text\n        return text[0:num_chars]")],
                                      'LEFT with a whole-number float count fails again (the repaired defect; needs a count made by ROUND*)'),
    'c14-vlookup-case-sensitive': ('C14', [(CTX, "                key, wanted = key.lower(), wanted.lower()", "                pass"), (ABS, "                key, wanted = key.lower(), wanted.lower()", "                pass")],
                                   'VLOOKUP compares text keys by code point again (the repaired defect)'),
    'c19-array-formula-object-scanned': ('C19', [(SRC + 'excel.py', "scanned = cell.value.text if isinstance(cell.value, ArrayFormula) else cell.value", "scanned = cell.value")],
                                         'the safety scan looks at the ArrayFormula object instead of its text (the repaired defect)'),
    'c03-entry-cell-not-refilled': ('C03', [(SRC + 'utilities/parser.py', "CellTranslator.translate(excel.fill_cell(copy(entrypoint_cell)), excel, context)", "CellTranslator.translate(copy(entrypoint_cell), excel, context)")],
                                    'an entry Cell handed out by an Executor is registered as its computed constant (the repaired defect)'),
    'c06-column-code-int': ('C06', [(SRC + 'translators/column_cc_token_translator.py', "return str(token.in_cell.column + 1)", "return token.in_cell.column + 1")],
                            'COLUMN() emits an int as code: =SUM(COLUMN(),1) ends translation with TypeError (the repaired defect)'),
    'c15-date-only-cells-not-lifted': ('C15', [(CTX, "            values[cell_uid] = self._at_midnight(method(self))", "            values[cell_uid] = method(self)"),
                                               (CTX, "        start_date = self._at_midnight(start_date)\n        if not isinstance(start_date, datetime.datetime):\n            return '#VALUE!'", "        if not isinstance(start_date, datetime.datetime):\n            return '#VALUE!'")],
                                       'date-only workbook cells (ISO-dates files) reach EDATE as datetime.date again (both layers removed: the lifting where a value enters, d5a9303, and the one inside EDATE, 27ab11f - either alone is an equivalent mutant)'),
    'c02-empty-sheet-prefix-accepted': ('C02', [(SRC + 'tokens/regexp_tokens/__init__.py', "regexp = r'((\\'([^\\'!]+?)\\'|(\\w+?))!)?\\$?([A-Z]+)\\$?(\\d+)'", "regexp = r'((\\'([^\\'!]*?)\\'|(\\w*?))!)?\\$?([A-Z]+)\\$?(\\d+)'")],
                                        '=!A1 and =\'\'!A1 read the own sheet again (the repaired defect)'),
    'c18-text-cell-with-equals-as-formula': ('C18', [(SRC + 'translators/cell_translator.py', " and not isinstance(cell.value, TextCellValue):", ":")],
                                             'a cell stored as text whose text starts with = is translated as a formula again (the repaired defect)'),
    'c04-none-override-leaks': ('C04', [(CTX, "            if value is None or (type(value)", "            if False and value is None or (type(value)"), (ABS, "            if value is None or (type(value)", "            if False and value is None or (type(value)")],
                                'an override without a value hands None to formulas again (the repaired defect)'),
    'c12-date-cell-vs-serial-criterion': ('C12', [(CTX, "                elif isinstance(cell, datetime.datetime):\n                    # the text form of a date joined by & is its serial number", "                elif False:\n                    # the text form of a date joined by & is its serial number"),
                                                  (ABS, "                elif isinstance(cell, datetime.datetime):\n                    # the text form of a date joined by & is its serial number", "                elif False:\n                    # the text form of a date joined by & is its serial number")],
                                          'a date cell never meets the serial-number criterion again (the repaired defect)'),
    'c11-min-of-nothing-raises': ('C11', [(CTX, "return min(numbers) if numbers else 0", "return min(numbers)"), (ABS, "return min(numbers) if numbers else 0", "return min(numbers)")],
                                  'MIN of no numbers raises ValueError again (the repaired defect)'),
    'c06-class-file-through-import-system': ('C06', [(SRC + 'object_loader.py', "    with open(module_path, 'rb') as file:\n        code = compile(file.read(), module_path, 'exec')\n    exec(code, module.__dict__)", "    spec.loader.exec_module(module)")],
                                             'class files go through the import system again: a rewrite within one second is answered from stale bytecode (the repaired defect)'),
    'c01-amp-precedence': ('C01', [(SRC + 'translators/expression_token_translator.py', "AmpersandToken: 2,", "AmpersandToken: 3,")], '& binds as tightly as + -'),
    'c03-area-cells-not-registered': ('C03', [(SRC + 'translators/matrix_of_cell_identifiers_token_translator.py', "CellTranslator.translate(j, excel, context) for j in i",
                                               "(CellTranslator.translate(j, excel, context) if excel.fill_cell(j).column < 3 else context._get_cell_with_cell_preprocessor(j.uid)) for j in i")],
                                      'cells of areas right of column C are referenced without being translated: missing from entry-point slices'),
    'c04-merge-order': ('C04', [(SRC + 'utilities/executor.py', "self._cells = {**self._cells, **{cell.uid: copy(cell) for cell in cells}}", "self._cells = {**{cell.uid: copy(cell) for cell in cells}, **self._cells}")],
                        'the first write to a cell wins'),
    'c05-accept-tail': ('C05', [(SRC + 'ast_builder.py', "        if token is None or unparsed_tokens:", "        if token is None or len(unparsed_tokens) > 1:")], 'one unparsed trailing token is tolerated'),
    'c07-literal-hand-quoted': ('C07', [(SRC + 'tokens/regexp_tokens/__init__.py', "            real_value = repr(self.value[1])", "            real_value = \"'\" + self.value[1].replace(\"'\", \"\\\\'\") + \"'\"")],
                                'string literals quoted by hand (backslash not escaped)'),
    'c09-dirty-flag-entry': ('C09', [(SRC + 'utilities/parser.py', "        self._entrypoint_cell = copy(cell) if cell is not None else None\n        self._entrypoint_cell_has_been_changed = True", "        self._entrypoint_cell = copy(cell) if cell is not None else None")],
                             'changing the entry cell does not invalidate the cached translation (the repaired defect)'),
    'c10-le-on-equal-texts': ('C10', [(CTX, "            case '<=':\n                return left_operand <= right_operand", "            case '<=':\n                return left_operand < right_operand or (left_operand == right_operand and not isinstance(left_operand, str))")],
                              '<= is false for two equal texts'),
    'c14-vlookup-lt': ('C14', [(CTX, "                if key <= wanted:", "                if key < wanted:")], 'approximate VLOOKUP takes keys strictly below the value'),
    'c15-weekend-sunday-only': ('C15', [(CTX, "if start.weekday() not in [5, 6] and start not in additional_days:", "if start.weekday() not in [6] and start not in additional_days:")], 'Saturdays count as working days'),
    'c15-date-month-clamp': ('C15', [(CTX, "        result_date += relativedelta(months=month - 1)", "        result_date += relativedelta(months=min(month, 24) - 1)")], 'DATE clamps months above 24'),
    'c16-half-even': ('C16', [(CTX, "        return self._decimal_round(number, num_digits, ROUND_HALF_UP)", "        return self._decimal_round(number, num_digits, 'ROUND_HALF_EVEN')")], 'ROUND rounds ties to even'),
    'c19-report-column-index': ('C19', [(SRC + 'excel.py', "suspicious_cells[f\"'{worksheet.title}'{cell.column_letter}{cell.row}\"]", "suspicious_cells[f\"'{worksheet.title}'{cell.column_letter}{index + 1 if cell.row > 40 else cell.row}\"]")],
                                'rows above 40 are reported by the position within the row'),
    'c20-one-copy-edited': ('C20', [(ABS, "        if start_num < 1:\n            return '#NUM!'", "        if start_num < 0:\n            return '#NUM!'")], 'MID edited in the abstract class only'),
    'c13-iferror-catches-recursionerror': ('C13', [(CTX, "        except (RecursionError, MemoryError):", "        except (MemoryError,):"),
                                                   (ABS, "        except (RecursionError, MemoryError):", "        except (MemoryError,):")],
                                           'IFERROR turns an exhausted stack into its fallback again (the repaired defect c2e1a59)'),
    'c13-timedelta-compared-as-text': ('C13', [(CTX, "        if isinstance(left_operand, datetime.timedelta):", "        if False and isinstance(left_operand, datetime.timedelta):"),
                                               (CTX, "        if isinstance(right_operand, datetime.timedelta):", "        if False and isinstance(right_operand, datetime.timedelta):")],
                                       'a difference of dates is compared as its text again (the repaired defect 5e2fdee)'),
    'c06-long-mantissa-unchecked': ('C06', [(SRC + 'tokens/regexp_tokens/__init__.py', "if len(self.value[2]) > 400 or len(self.value[5] or '') > 400 or", "if")],
                                    'a mantissa of thousands of digits reaches int() again (the repaired defect 6f79fd5)'),
    'c04-override-date-not-normalised': ('C04', [(CTX, "            return self._at_midnight(value)\n", "            return value\n")],
                                         'a date-only override enters the computation as datetime.date again (part of the repaired defect d5a9303)'),
    'c04-foreign-blank-object': ('C04', [(CTX, "            if value is None or (type(value).__name__ == 'EmptyCell' and not isinstance(value, self.EmptyCell)):", "            if value is None:")],
                                 'the blank object handed out by another generated class is kept as it is (part of the repaired defect d5a9303)'),
    'c04-refused-batch-grows-size': ('C04', [(SRC + 'utilities/executor.py', "            self._handle_one_cell(cell)\n\n        for cell in cells:",
                                              "            self._handle_one_cell(cell)\n            self._sheets_size[cell.title]['last_row'] = max(cell.row + 1, self._sheets_size[cell.title]['last_row'])\n\n        for cell in cells:")],
                                     'a batch refused at its second cell has already grown the sheet for its first (part of the repaired defect 44c45aa)'),
    'c04-generator-batch-lost': ('C04', [(SRC + 'utilities/executor.py', "        cells = list(cells)\n", "")], 'a batch given as a generator is walked twice and stores nothing (part of 44c45aa)'),
    'c04-callers-objects-kept': ('C04', [(SRC + 'utilities/executor.py', "{cell.uid: copy(cell) for cell in cells}", "{cell.uid: cell for cell in cells}")], 'the overrides are the caller\'s Cell objects again (part of 44c45aa)'),
    'c12-sumif-adds-anything': ('C12', [(CTX, "criteria(range_[i]) and isinstance(sum_range[i], (int, float)):", "criteria(range_[i]):")],
                                'SUMIF adds whatever the selected cell holds again: TypeError on a text (the repaired defects f2f712a / f42018f)'),
    'c16-negative-zero': ('C16', [(CTX, "float(result) + 0.0", "float(result)")], 'a negative amount rounded to nothing is -0.0 again (part of the repaired defect 625a7a1)'),
    'c12-date-text-completed-from-today': ('C12', [(CTX, "date_parser.parse(date, default=datetime.datetime(datetime.date.today().year, 1, 1))", "date_parser.parse(date)")],
                                           'the parts a date text leaves out come from today again: ">=Jan 2024" selects by the day of the month on which it is asked (31b228a)'),
    'c18-unknown-value-type-emitted': ('C18', [(SRC + 'translators/cell_translator.py', "            elif isinstance(cell.value, (bool, int, float, str, datetime.date, datetime.time, datetime.timedelta)):", "            elif True:")],
                                       'the repr() of any object is written into the class again (the repaired defect d1ed4bc)'),
    'c05-address-sixth-argument-dropped': ('C05', [(SRC + 'tokens/composite_tokens/__init__.py', "         ExpressionToken, SeparatorToken, ExpressionToken, SeparatorToken, ExpressionToken, SeparatorToken,\n         ExpressionToken, BracketFinishToken]\n    ]",
                                                    "         ExpressionToken, SeparatorToken, ExpressionToken, SeparatorToken, ExpressionToken, SeparatorToken,\n         ExpressionToken, BracketFinishToken],\n        [AddressKeywordToken, BracketStartToken, ExpressionToken, SeparatorToken,\n         ExpressionToken, SeparatorToken, ExpressionToken, SeparatorToken, ExpressionToken, SeparatorToken,\n         ExpressionToken, SeparatorToken, IterableExpressionToken, BracketFinishToken]\n    ]")],
                                           'ADDRESS accepts (and drops) arguments past the fifth again (part of the repaired defect e97b31b)'),
    'c02-reversed-corners-empty': ('C02', [(SRC + 'excel.py', "            replace(first, column=min(first.column, second.column), row=min(first.row, second.row) if rows_given else first.row),\n", "            first,\n"),
                                            (SRC + 'excel.py', "            replace(second, column=max(first.column, second.column), row=max(first.row, second.row) if rows_given else second.row))", "            second)")],
                                   'an area whose corners are not written top-left first has no cells again (the repaired defect f004db1)'),
    'c03-no-value-memo': ('C03', [(CTX, "        if cell_uid not in values:\n            values[cell_uid] = self._at_midnight(method(self))\n        return values[cell_uid]", "        return self._at_midnight(method(self))")],
                          'every reference evaluates its precedent again: time doubles per row of =A(n-1)+A(n-1)*0.05 (the repaired defect 5178474)'),
    'c03-reversed-corners-empty': ('C03', [(SRC + 'excel.py', "            replace(first, column=min(first.column, second.column), row=min(first.row, second.row) if rows_given else first.row),\n", "            first,\n"),
                                            (SRC + 'excel.py', "            replace(second, column=max(first.column, second.column), row=max(first.row, second.row) if rows_given else second.row))", "            second)")],
                                   'the same change seen from the entry-point side: the cells of such an area are left out of the slice'),
    'c12-wildcard-stops-at-line-break': ('C12', [(CTX, "hit = re.fullmatch(self._wildcard_pattern(value), cell, re.IGNORECASE | re.DOTALL) is not None", "hit = re.fullmatch(self._wildcard_pattern(value), cell, re.IGNORECASE) is not None"),
                                                 (ABS, "hit = re.fullmatch(self._wildcard_pattern(value), cell, re.IGNORECASE | re.DOTALL) is not None", "hit = re.fullmatch(self._wildcard_pattern(value), cell, re.IGNORECASE) is not None")],
                                         'a wildcard does not run over a line break inside the cell text (both runtimes alike, so C20 cannot see it)'),
}


def apply(root, edits):
    for (rel, old, new) in edits:
        p = os.path.join(root, rel)
        s = open(p, encoding='utf-8').read()
        if old not in s:
            raise SystemExit(f'mutant anchor not found in {rel}: {old[:60]!r}')
        open(p, 'w', encoding='utf-8').write(s.replace(old, new, 1))


def run_one(mid, tier='quick', tests=False):
    prop, edits, note = M[mid]
    root = tempfile.mkdtemp(prefix='vf_mut_', dir='/tmp')
    try:
        subprocess.run(['rsync', '-a', '--exclude', '.git', '--exclude', '__pycache__', '/repo/', root + '/'], check=True)
        apply(root, edits)
        res = {'id': mid, 'property': prop, 'note': note}
        if tests:
            e = dict(os.environ, PYTHONPATH=root)
            t = subprocess.run(['/venv/bin/python', '-m', 'pytest', '-q', '-p', 'no:cacheprovider', '-x', '--timeout=900', 'test'],
                               cwd=root, env=e, capture_output=True, text=True)
            res['tests_pass'] = t.returncode == 0
            res['tests_tail'] = t.stdout.strip().splitlines()[-1:] if t.stdout else []
        e = dict(os.environ, VERIF_REPO_ROOT=root)
        c = subprocess.run([os.path.join(HERE, 'check'), prop, '--tier', tier], env=e, capture_output=True, text=True)
        lines = c.stdout.splitlines()
        res['exit'] = c.returncode
        res['violations'] = [l for l in lines if l.startswith('VIOLATION')][:2]
        res['monitors'] = sorted({l.split('monitor=')[1].split()[0] for l in lines if l.startswith('#   monitor=')})
        res['inconclusive'] = [l for l in lines if l.startswith('INCONCLUSIVE')][:2]
        res['caught'] = c.returncode == 1 and bool(res['violations'])
        return res
    finally:
        shutil.rmtree(root, ignore_errors=True)


def main():
    args = [a for a in sys.argv[1:] if not a.startswith('--')]
    tests = '--tests' in sys.argv
    tier = 'thorough' if '--thorough' in sys.argv else 'quick'
    ids = [m for m in M if not args or any(m.startswith(a.lower()) or M[m][0] == a.upper() for a in args)]
    out = []
    # the mutant runs rewrite evidence/<id>.json: keep the real ones aside and put them back afterwards
    keep = tempfile.mkdtemp(prefix='vf_evidence_', dir='/tmp')
    shutil.copytree(os.path.join(HERE, 'evidence'), os.path.join(keep, 'evidence'))
    try:
        for mid in ids:
            res = run_one(mid, tier, tests)
            _report(res, out, tests)
    finally:
        shutil.rmtree(os.path.join(HERE, 'evidence'), ignore_errors=True)
        shutil.copytree(os.path.join(keep, 'evidence'), os.path.join(HERE, 'evidence'))
        shutil.rmtree(keep, ignore_errors=True)
    missed = [r['id'] for r in out if not r['caught']]
    print(json.dumps({'mutants': len(out), 'missed': missed}))
    return 1 if missed else 0


def _report(res, out, tests):
    if True:
        out.append(res)
        print(('CAUGHT ' if res['caught'] else 'MISSED ') + res['id'], res['property'], 'exit', res['exit'], res['monitors'],
              ('tests_pass=' + str(res.get('tests_pass'))) if tests else '', res['inconclusive'][:1], flush=True)


if __name__ == '__main__':
    sys.exit(main())
