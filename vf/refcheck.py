"""Shared flow of the formula-semantics checks: real library vs reference model on the same workbook + valuation."""
from . import pipeline
from .findings import report
from .instr.runtime import RuntimeMonitor
from .instr.translate import TranslateMonitor
from .wbspec import rc
from .xlref import evalr
from .xlref.parser import ParseError
from .xlref.values import outcome_matches


def judge_book(ctx, prop, spec, targets, valuations, *, exact=False, err_exact=False, classify=None, nontrivial=None,
               name='wb', monitor='reference-model', strict_text=False, runtime_monitor=True, now=None, per_cell=False,
               case_extra=None, on_result=None, empty_text_is_blank=False, same_executor=True):
    """targets: [(sheet_idx, addr)] formula cells to judge; valuations: list of [(sheet_idx, addr, value)] override lists.
    classify(case, out, outs) -> known-finding tag | None ; nontrivial(case, outs) -> bool"""
    r = ctx.r
    tmon = TranslateMonitor.install(r)
    tmon.drain()
    book = pipeline.Book(spec, ctx.workdir, name=name, per_cell=per_cell, cells_of_interest=targets if per_cell else None)
    r.count('books:' + book.mode)
    cons = {e.get('text'): e for e in tmon.drain() if e['type'] == 'parser'}
    if runtime_monitor and book.cls is not None:
        RuntimeMonitor(r).install(book.cls)
    titles = book.titles
    sheets = book.sheets()
    import random as _random
    order_rng = _random.Random(len(valuations) * 7919 + len(targets))
    for vi, val in enumerate(valuations):
        ov = {(titles[s], *rc(a)): v for (s, a, v) in val}
        env_ = evalr.Env(spec, ov, now=now)
        # Every second valuation all targets are evaluated on ONE Executor (one instance of the generated class) in a shuffled
        # order, the others on a fresh Executor per target: state carried in the instance or the class between evaluations
        # (memo keyed by ==, cache that forgets a parameter) then shows as a disagreement with the reference.
        shared = None
        if same_executor and book.cls is not None and vi % 2 == 1 and len(targets) > 1:
            order = list(targets)
            order_rng.shuffle(order)
            by_sheet = {}
            for (si, addr) in order:
                by_sheet.setdefault(si, []).append(addr)
            shared = {}
            try:
                ex = pipeline.Executor().set_executed_class(class_object=book.cls)
                if val:
                    ex.set_cells([pipeline.ncell(s, *rc(a), v) for (s, a, v) in val])
                for (si, addr) in order:
                    shared[(si, addr)] = pipeline.guarded(lambda si=si, addr=addr: ex.get_cell(pipeline.ncell(si, *rc(addr))).value, 'evaluate')
                r.count('valuations_on_one_executor')
            except (KeyboardInterrupt, SystemExit):
                raise
            except BaseException:  # noqa: B902 - set_cells itself failed: fall back to the per-target path
                shared = None
        for (si, addr) in targets:
            formula = sheets[si]['cells'].get(addr)
            try:
                outs, flags = evalr.outcomes(env_, titles[si], addr, strict_text=strict_text)
            except (evalr.NoOpinion, ParseError, evalr.Cycle) as e:
                r.count('ref_no_opinion')
                r.seen('ref_no_opinion_reasons', str(e)[:60])
                continue
            for fl in flags:
                r.count('silent_clause:' + fl)
            out = shared[(si, addr)] if shared is not None else book.value(si, addr, val)
            r.ev()
            case = {'formula': formula, 'cell': addr, 'sheet': si, 'overrides': val}
            if case_extra:
                case.update(case_extra)
            ok = outcome_matches(out, outs, exact=exact, err_exact=(err_exact(case) if callable(err_exact) else err_exact),
                                 empty_text_is_blank=empty_text_is_blank)
            if on_result:
                on_result(case, out, outs, ok)
            if not ok:
                tag = classify(case, out, outs) if classify else None
                case['spec'] = spec
                report(r, prop, tag, case, out.brief(), outs, monitor=monitor,
                       detail={'parser_conservation': cons.get(formula), 'mode': book.mode})
            elif formula in cons and out.ok:
                case['spec'] = spec
                report(r, prop, None, case, cons[formula], 'whole formula consumed', monitor='parser-conservation')
            if nontrivial is None or nontrivial(case, outs):
                r.nt((formula, addr, repr(val), name if nontrivial is None else ''))
    return book


def replay_case(ctx, prop, case, **kw):
    """re-run one recorded case (needs case['spec'])"""
    from .wbspec import dec
    spec = case['spec']
    val = [(s, a, dec(v)) for (s, a, v) in case.get('overrides', [])]
    return judge_book(ctx, prop, spec, [(case['sheet'], case['cell'])], [val], name='replay', **kw)
