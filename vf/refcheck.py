"""Shared flow of the formula-semantics checks: real library vs reference model on the same workbook + valuation."""
from . import pipeline
from .findings import report
from .instr.runtime import RuntimeMonitor
from .instr.translate import TranslateMonitor
from .wbspec import rc
from .xlref import evalr
from .xlref.parser import ParseError
from .xlref.values import outcome_matches


def judge_book(ctx, prop, spec, targets, valuations, *, exact=False, err_exact=False, classify=None, nontrivial=None,
               name='wb', monitor='reference-model', strict_text=False, runtime_monitor=True, now=None, per_cell=False,
               case_extra=None, on_result=None, empty_text_is_blank=False, same_executor=True, flag_consistency=True, unjudged=None, pairs=True):
    """targets: [(sheet_idx, addr)] formula cells to judge; valuations: list of [(sheet_idx, addr, value)] override lists.
    classify(case, out, outs) -> known-finding tag | None ; nontrivial(case, outs) -> bool"""
    r = ctx.r
    tmon = TranslateMonitor.install(r)
    tmon.drain()
    # PAIR SUMS (a law, no model): on an extra last worksheet, cells `=<target a>+<target b>` for pairs of judged cells. One query of such a
    # cell evaluates both targets (and whatever areas they share) in ONE evaluation: its value has to be the sum of the two values obtained
    # in queries of their own - whatever one formula did to a value both of them read (an area reversed, pruned or marked in place, a
    # remembered value of the wrong kind) shows as a difference.
    pair_cells = {}
    if pairs and not per_cell and len(targets) >= 2:
        import copy as _copy
        import random as _random0
        prng = _random0.Random(len(targets) * 104729 + len(valuations))
        all_titles = [sh_['title'] for sh_ in spec['sheets']]
        usable = [(si, a) for (si, a) in targets if "'" not in [s_ for s_ in spec['sheets'] if not s_.get('chart')][si]['title']]
        if len(usable) >= 2 and 'Pair sums' not in all_titles:
            spec = _copy.deepcopy(spec)
            wsheets = [s_ for s_ in spec['sheets'] if not s_.get('chart')]
            cells_ = {}
            for k_ in range(min(24, len(usable))):
                (s1, a1_), (s2, a2_) = prng.sample(usable, 2)
                t1, t2 = wsheets[s1]['title'], wsheets[s2]['title']
                addr_ = f'A{k_ + 1}'
                cells_[addr_] = f"='{t1}'!{a1_}+'{t2}'!{a2_}"
                pair_cells[addr_] = ((s1, a1_), (s2, a2_))
            spec['sheets'].append({'title': 'Pair sums', 'cells': cells_})
    book = pipeline.Book(spec, ctx.workdir, name=name, per_cell=per_cell, cells_of_interest=targets if per_cell else None)
    pair_si = len([s_ for s_ in spec['sheets'] if not s_.get('chart')]) - 1 if pair_cells else None
    r.count('books:' + book.mode)
    cons = {e.get('text'): e for e in tmon.drain() if e['type'] == 'parser'}
    if runtime_monitor and book.cls is not None:
        RuntimeMonitor(r).install(book.cls)
    titles = book.titles
    sheets = book.sheets()
    import random as _random
    order_rng = _random.Random(len(valuations) * 7919 + len(targets))
    prev_fresh = {}
    for vi, val in enumerate(valuations):
        ov = {(titles[s], *rc(a)): v for (s, a, v) in val}
        env_ = evalr.Env(spec, ov, now=now)
        this_fresh = {}
        if vi >= 1:
            prev_fresh = last_fresh      # outcomes of the previous valuation on fresh Executors (empty when that one ran shared)
        # Every second valuation all targets are evaluated on ONE Executor (one instance of the generated class) in a shuffled
        # order, the others on a fresh Executor per target: state carried in the instance or the class between evaluations
        # (memo keyed by ==, cache that forgets a parameter) then shows as a disagreement with the reference.
        shared = None
        if same_executor and book.cls is not None and vi % 2 == 1 and len(targets) > 1:
            order = list(targets)
            order_rng.shuffle(order)
            by_sheet = {}
            for (si, addr) in order:
                by_sheet.setdefault(si, []).append(addr)
            shared = {}
            try:
                ex = pipeline.Executor().set_executed_class(class_object=book.cls)
                if vi % 4 == 1:
                    # history: before the overrides of this valuation arrive, a LIST query that fails half way - two of the targets are
                    # evaluated (under the workbook's own values), then an address that names no sheet stops the call. Whatever that
                    # call left behind must not outlive it.
                    from excel2pycl import Cell as _Cell
                    first = [pipeline.ncell(si_, *rc(a_)) for (si_, a_) in order[:2]]
                    o_fail = pipeline.guarded(lambda: ex.get_cells(first + [_Cell('no such sheet in this workbook', 'A', '1')]), 'evaluate')
                    r.count('failed_list_queries_before_overrides' if not o_fail.ok else 'list_query_with_unknown_sheet_accepted')
                if val:
                    ex.set_cells([pipeline.ncell(s, *rc(a), v) for (s, a, v) in val])
                # a SECOND Executor alive on the same class object, holding the previous valuation, is asked in between: each of the two
                # answers from its own overrides (a cache or a size record on the class instead of the instance mixes them up)
                ex_b, prev_val = None, valuations[vi - 1]
                if prev_fresh:
                    ex_b = pipeline.Executor().set_executed_class(class_object=book.cls)
                    if prev_val:
                        ex_b.set_cells([pipeline.ncell(s, *rc(a), v) for (s, a, v) in prev_val])
                for k_, (si, addr) in enumerate(order):
                    if ex_b is not None and k_ % 3 == 0 and (si, addr) in prev_fresh:
                        ob = pipeline.guarded(lambda si=si, addr=addr: ex_b.get_cell(pipeline.ncell(si, *rc(addr))).value, 'evaluate')
                        pf = prev_fresh[(si, addr)]
                        r.count('second_executor_on_same_class_checks')
                        if not ((ob.ok == pf.ok) and (not pf.ok or (type(ob.value) is type(pf.value) and (ob.value == pf.value or ob.value != ob.value)))):
                            report(r, prop, None, {'formula': sheets[si]['cells'].get(addr), 'cell': addr, 'sheet': si, 'overrides': prev_val, 'spec': spec,
                                                   'other_executor_overrides': val}, ob.brief(), pf.brief(), monitor='two-executors-one-class')
                    shared[(si, addr)] = pipeline.guarded(lambda si=si, addr=addr: ex.get_cell(pipeline.ncell(si, *rc(addr))).value, 'evaluate')
                r.count('valuations_on_one_executor')
            except (KeyboardInterrupt, SystemExit):
                raise
            except BaseException:  # noqa: B902 - set_cells itself failed: fall back to the per-target path
                shared = None
        observed_now = {}
        for (si, addr) in targets:
            formula = sheets[si]['cells'].get(addr)
            try:
                outs, flags = evalr.outcomes(env_, titles[si], addr, strict_text=strict_text)
            except (evalr.NoOpinion, ParseError, evalr.Cycle) as e:
                r.count('ref_no_opinion')
                r.seen('ref_no_opinion_reasons', str(e)[:60])
                continue
            if unjudged is not None and unjudged(formula, outs):
                r.count('ref_outcome_unjudged')
                continue
            for fl in flags:
                r.count('silent_clause:' + fl)
            scale = evalr.LAST['scale']      # numbers read by the reference: round-off of a differently ordered sum is of that scale
            pending_flags = flags
            out = shared[(si, addr)] if shared is not None else book.value(si, addr, val)
            observed_now[(si, addr)] = out
            if shared is None:
                this_fresh[(si, addr)] = out
            r.ev()
            case = {'formula': formula, 'cell': addr, 'sheet': si, 'overrides': val}
            if case_extra:
                case.update(case_extra)
            ok = outcome_matches(out, outs, exact=exact, err_exact=(err_exact(case) if callable(err_exact) else err_exact),
                                 empty_text_is_blank=empty_text_is_blank, scale=scale)
            if ok and pending_flags and flag_consistency:
                _note_flag_constraint(r, env_, titles[si], addr, pending_flags, out, formula, strict_text, exact,
                                      (err_exact(case) if callable(err_exact) else err_exact), empty_text_is_blank)
            if on_result:
                on_result(case, out, outs, ok)
            if not ok:
                tag = classify(case, out, outs) if classify else None
                case['spec'] = spec
                report(r, prop, tag, case, out.brief(), outs, monitor=monitor,
                       detail={'parser_conservation': cons.get(formula), 'mode': book.mode})
            elif formula in cons and out.ok:
                case['spec'] = spec
                report(r, prop, None, case, cons[formula], 'whole formula consumed', monitor='parser-conservation')
            if nontrivial is None or nontrivial(case, outs):
                r.nt((formula, addr, repr(val), name if nontrivial is None else ''))
        if pair_cells and book.cls is not None:
            for addr_, (ta, tb) in pair_cells.items():
                oa = observed_now.get(ta) or book.value(ta[0], ta[1], val)
                ob_ = observed_now.get(tb) or book.value(tb[0], tb[1], val)
                if not (oa.ok and ob_.ok):
                    continue
                va, vb = oa.value, ob_.value
                plain = lambda v: isinstance(v, (int, float)) and not isinstance(v, bool) and v == v and abs(v) != float('inf')   # noqa: E731
                if not (plain(va) and plain(vb)):
                    continue
                op_ = book.value(pair_si, addr_, val)
                r.ev()
                r.count('pair_sum_checks')
                want = va + vb
                tol = 1e-9 * max(1.0, abs(va), abs(vb))
                if not (op_.ok and plain(op_.value) and abs(op_.value - want) <= tol):
                    report(r, prop, None, {'formula': sheets[pair_si]['cells'][addr_], 'cell': addr_, 'sheet': pair_si, 'overrides': val, 'spec': spec,
                                           'first': [ta[0], ta[1], sheets[ta[0]]['cells'].get(ta[1])], 'second': [tb[0], tb[1], sheets[tb[0]]['cells'].get(tb[1])]},
                           op_.brief(), {'first_alone': va, 'second_alone': vb, 'sum': want}, monitor='pair-sum-in-one-query')
        last_fresh = this_fresh
    return book


def _note_flag_constraint(r, env_, title, addr, flags, out, formula, strict_text, exact, err_exact, empty_text_is_blank):
    """Where the statement is silent the reference accepts every reading (outcome set). The library may pick any reading, but it
    has to pick ONE: for each judged execution the set of flag assignments under which the reference reproduces the observed
    value is recorded; finish() then looks for one assignment of all flags that explains every execution of the run."""
    import itertools
    import json
    sat = []
    for combo in itertools.product([False, True], repeat=len(flags)):
        try:
            v, _ = evalr.evaluate_once(env_, title, addr, dict(zip(flags, combo)), strict_text=strict_text)
        except Exception:
            continue
        if outcome_matches(out, [v], exact=exact, err_exact=err_exact, empty_text_is_blank=empty_text_is_blank):
            sat.append(''.join('1' if b else '0' for b in combo))
    if not sat or len(sat) == 2 ** len(flags):
        return
    # one reading per clause AND per function: the statement does not say that, for instance, VLOOKUP and MATCH have to agree on
    # whether a blank key equals 0 - only that each of them is one function of its arguments
    import re as _re
    m = _re.match(r'^=\s*([A-Z]+)\(', str(formula))
    scope = m.group(1) if m else 'expr'
    sig = json.dumps([[f'{fl}@{scope}' for fl in flags], sat])
    s0 = r.sets.setdefault('flag_constraints', set())
    if sig not in s0 and len(s0) < 400:
        s0.add(sig)
        r.sets.setdefault('flag_constraint_examples', set()).add(json.dumps([sig, str(formula)[:80]]))


def flag_consistency_verdict(r, prop):
    """called from a check's finish(): is there one reading of the silent clauses that explains all recorded executions?"""
    import itertools
    import json
    cons = [json.loads(x) for x in r.sets.get('flag_constraints', ())]
    if not cons:
        return {'silent_clause_constraints': 0}
    examples = {}
    for x in r.sets.get('flag_constraint_examples', ()):
        sig, formula = json.loads(x)
        examples.setdefault(sig, formula)
    # constraints only ever mention flags of one scope (function): solve scope by scope
    scopes = {}
    for fl, sat in cons:
        scopes.setdefault(fl[0].split('@')[1] if '@' in fl[0] else '', []).append((fl, sat))
    readings, bad = {}, None
    for scope, group in sorted(scopes.items()):
        flags = sorted({f for fl, _ in group for f in fl})
        found = None
        for combo in itertools.product('01', repeat=len(flags)):
            a = dict(zip(flags, combo))
            if all(''.join(a[f] for f in fl) in sat for fl, sat in group):
                found = a
                break
        if found is None:
            witness = None
            for f in flags:
                need1 = [(fl, sat) for fl, sat in group if f in fl and all(s_[fl.index(f)] == '1' for s_ in sat)]
                need0 = [(fl, sat) for fl, sat in group if f in fl and all(s_[fl.index(f)] == '0' for s_ in sat)]
                if need1 and need0:
                    witness = {'silent_clause': f, 'needs_reading_on': examples.get(json.dumps(list(need1[0]))),
                               'needs_reading_off': examples.get(json.dumps(list(need0[0])))}
                    break
            bad = bad or {'scope': scope, 'flags': flags, 'witness': witness, 'constraints': len(group)}
        else:
            readings[scope] = found
    if bad:
        r.violation('silent-clause-consistency', dict(bad, no_replay=True),
                    'no single reading of the clauses the statement leaves open explains all executions of this function in this run',
                    'one reading per silent clause and function')
    return {'silent_clause_constraints': len(cons), 'silent_clause_readings_consistent_with_all_executions': readings}


def replay_case(ctx, prop, case, **kw):
    """re-run one recorded case (needs case['spec'])"""
    from .wbspec import dec
    if case.get('no_replay'):
        ctx.r.inconcl('a consistency verdict over a whole run has no single replayable case: re-run the check with the recorded VERIF_SEED')
        return None
    spec = case['spec']
    val = [(s, a, dec(v)) for (s, a, v) in case.get('overrides', [])]
    return judge_book(ctx, prop, spec, [(case['sheet'], case['cell'])], [val], name='replay', **kw)
