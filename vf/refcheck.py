"""Shared flow of the formula-semantics checks: real library vs reference model on the same workbook + valuation."""
from . import pipeline
from .findings import report
from .instr.runtime import RuntimeMonitor
from .instr.translate import TranslateMonitor
from .wbspec import rc
from .xlref import evalr
from .xlref.parser import ParseError
from .xlref.values import outcome_matches


def judge_book(ctx, prop, spec, targets, valuations, *, exact=False, err_exact=False, classify=None, nontrivial=None,
               name='wb', monitor='reference-model', strict_text=False, runtime_monitor=True, now=None, per_cell=False,
               case_extra=None, on_result=None, empty_text_is_blank=False):
    """targets: [(sheet_idx, addr)] formula cells to judge; valuations: list of [(sheet_idx, addr, value)] override lists.
    classify(case, out, outs) -> known-finding tag | None ; nontrivial(case, outs) -> bool"""
    r = ctx.r
    tmon = TranslateMonitor.install(r)
    tmon.drain()
    book = pipeline.Book(spec, ctx.workdir, name=name, per_cell=per_cell, cells_of_interest=targets if per_cell else None)
    r.count('books:' + book.mode)
    cons = {e.get('text'): e for e in tmon.drain() if e['type'] == 'parser'}
    if runtime_monitor and book.cls is not None:
        RuntimeMonitor(r).install(book.cls)
    titles = book.titles
    sheets = book.sheets()
    for vi, val in enumerate(valuations):
        ov = {(titles[s], *rc(a)): v for (s, a, v) in val}
        env_ = evalr.Env(spec, ov, now=now)
        for (si, addr) in targets:
            formula = sheets[si]['cells'].get(addr)
            try:
                outs, flags = evalr.outcomes(env_, titles[si], addr, strict_text=strict_text)
            except (evalr.NoOpinion, ParseError, evalr.Cycle) as e:
                r.count('ref_no_opinion')
                r.seen('ref_no_opinion_reasons', str(e)[:60])
                continue
            for fl in flags:
                r.count('silent_clause:' + fl)
            out = book.value(si, addr, val)
            r.ev()
            case = {'formula': formula, 'cell': addr, 'sheet': si, 'overrides': val}
            if case_extra:
                case.update(case_extra)
            ok = outcome_matches(out, outs, exact=exact, err_exact=(err_exact(case) if callable(err_exact) else err_exact),
                                 empty_text_is_blank=empty_text_is_blank)
            if on_result:
                on_result(case, out, outs, ok)
            if not ok:
                tag = classify(case, out, outs) if classify else None
                case['spec'] = spec
                report(r, prop, tag, case, out.brief(), outs, monitor=monitor,
                       detail={'parser_conservation': cons.get(formula), 'mode': book.mode})
            elif formula in cons and out.ok:
                case['spec'] = spec
                report(r, prop, None, case, cons[formula], 'whole formula consumed', monitor='parser-conservation')
            if nontrivial is None or nontrivial(case, outs):
                r.nt((formula, addr, repr(val), name if nontrivial is None else ''))
    return book


def replay_case(ctx, prop, case, **kw):
    """re-run one recorded case (needs case['spec'])"""
    from .wbspec import dec
    spec = case['spec']
    val = [(s, a, dec(v)) for (s, a, v) in case.get('overrides', [])]
    return judge_book(ctx, prop, spec, [(case['sheet'], case['cell'])], [val], name='replay', **kw)
