"""JSON-able workbook specifications -> .xlsx (openpyxl), plus value encoding used by replays/evidence.

spec = {"sheets": [{"title": "S1", "cells": {"A1": <enc value>, ...}, "chart": False}, ...]}
A sheet with "chart": True is written as a chartsheet (no cells).
"""
import datetime as _dt
import math
import re

from openpyxl import Workbook
from openpyxl.utils import get_column_letter, column_index_from_string
from openpyxl.worksheet.formula import ArrayFormula


def enc(v):
    """python value -> JSON-able"""
    if isinstance(v, TextCell):
        return {'$text': str(v)}
    if v is None or isinstance(v, (bool, int, str)):
        return v
    if isinstance(v, float):
        if math.isnan(v) or math.isinf(v):
            return {'$f': repr(v)}
        return v
    if isinstance(v, _dt.datetime):
        return {'$dt': v.isoformat()}
    if isinstance(v, _dt.date):
        return {'$d': v.isoformat()}
    if isinstance(v, _dt.time):
        return {'$t': v.isoformat()}
    if isinstance(v, _dt.timedelta):
        return {'$td': v.total_seconds()}
    if isinstance(v, ArrayFormula):
        return {'$af': [v.ref, v.text]}
    if isinstance(v, TextCell):
        return {'$text': str(v)}
    if isinstance(v, (list, tuple)):
        return [enc(i) for i in v]
    if isinstance(v, dict):
        return {str(k): enc(x) for k, x in v.items()}
    if isinstance(v, BaseException):
        return {'$exc': type(v).__name__, 'msg': str(v)[:200]}
    if type(v).__name__ == 'EmptyCell':
        return {'$blank': 1}
    return {'$repr': repr(v)[:200], 'type': type(v).__name__}


class TextCell(str):
    """a text stored in a cell AS TEXT whatever it looks like (typed with a leading apostrophe): also '=A1+1' is a constant then"""


def dec(v):
    if isinstance(v, list):
        return [dec(i) for i in v]
    if isinstance(v, dict):
        if '$dt' in v:
            return _dt.datetime.fromisoformat(v['$dt'])
        if '$d' in v:
            return _dt.date.fromisoformat(v['$d'])
        if '$t' in v:
            return _dt.time.fromisoformat(v['$t'])
        if '$td' in v:
            return _dt.timedelta(seconds=v['$td'])
        if '$f' in v:
            return float(v['$f'])
        if '$af' in v:
            return ArrayFormula(v['$af'][0], v['$af'][1])
        if '$text' in v:
            return TextCell(v['$text'])
        if '$dtf' in v:
            from openpyxl.worksheet.formula import DataTableFormula
            return DataTableFormula(**v['$dtf'])
        return {k: dec(x) for k, x in v.items()}
    return v


_A1 = re.compile(r'^([A-Z]+)(\d+)$')


def a1(row, col):
    """1-based (row, col) -> 'B3'"""
    return f'{get_column_letter(col)}{row}'


def rc(addr):
    """'B3' -> (row, col) 1-based"""
    m = _A1.match(addr)
    return int(m.group(2)), column_index_from_string(m.group(1))


def write(spec, path):
    wb = Workbook()
    if spec.get('iso_dates'):
        wb.iso_dates = True      # dates stored in ISO 8601 form ("Strict Open XML"): a date-only cell is read back as datetime.date
    first = True
    charts = []
    for sh in spec['sheets']:
        if sh.get('chart'):
            charts.append(wb.create_chartsheet(title=sh['title']))
            continue
        if first:
            ws = wb.active
            ws.title = sh['title']
            first = False
        else:
            ws = wb.create_sheet(sh['title'])
        for addr, v in sh.get('cells', {}).items():
            v = dec(v)
            if isinstance(v, TextCell):
                c_ = ws[addr]
                c_.value = str(v)
                c_.data_type = 's'          # stored as a text, whatever its first character
                c_.quotePrefix = True
            else:
                ws[addr] = v
        if sh.get('state'):
            ws.sheet_state = sh['state']          # 'hidden' / 'veryHidden': still a worksheet of the workbook
        for addr in sh.get('touched', ()):
            ws[addr].value = None          # looked at, never given a value: only the sheet's size record knows about it
    # an empty chart sheet cannot be read back by openpyxl: give each one a small bar chart over the first worksheet
    for cs in charts:
        from openpyxl.chart import BarChart, Reference
        ch = BarChart()
        ch.add_data(Reference(wb.worksheets[0], min_col=1, min_row=1, max_row=2))
        cs.add_chart(ch)
    # chartsheets are appended by create_chartsheet in call order relative to worksheets created so far;
    # openpyxl keeps wb._sheets in creation order, but the default active sheet was created first.
    # Re-order to follow the spec exactly.
    order = [sh['title'] for sh in spec['sheets']]
    wb._sheets.sort(key=lambda s: order.index(s.title) if s.title in order else -1)
    import os as _os
    if spec.get('decorate') or _os.environ.get('VERIF_DECORATE'):
        decorate(wb, spec.get('decorate') or _os.environ.get('VERIF_DECORATE'), path)
    wb.save(path)
    wb.close()
    if spec.get('dimension'):
        forge_dimension(path, spec['dimension'])
    return path


def forge_dimension(path, how):
    """rewrite the <dimension ref=...> record of every worksheet part the way other producers leave it: 'understate' (A1), 'box'
    (A1:B2), 'overstate' (A1:AZ200), 'drop' (no record). The stored cells are untouched."""
    import re
    import shutil
    import zipfile
    tmp = path + '.tmp'
    with zipfile.ZipFile(path) as zin, zipfile.ZipFile(tmp, 'w', zipfile.ZIP_DEFLATED) as zout:
        for item in zin.infolist():
            data = zin.read(item.filename)
            if re.match(r'xl/worksheets/sheet\d+\.xml$', item.filename):
                text = data.decode('utf-8')
                new = {'understate': '<dimension ref="A1"/>', 'box': '<dimension ref="A1:B2"/>', 'overstate': '<dimension ref="A1:AZ200"/>', 'drop': ''}[how]
                text = re.sub(r'<dimension ref="[^"]*"\s*/>', new, text, count=1)
                data = text.encode('utf-8')
            zout.writestr(item, data)
    shutil.move(tmp, path)


def sheet(title, cells=None, **kw):
    d = {'title': title, 'cells': {k: enc(v) for k, v in (cells or {}).items()}}
    d.update(kw)
    return d


def spec(*sheets):
    return {'sheets': list(sheets)}


def replace_cell_xml(path, sheet_no, addr, raw):
    """rewrite ONE cell element of xl/worksheets/sheet<sheet_no>.xml (1-based) with the given raw XML (a cell as another writer would store
    it: a shared-string cell without a value, an error-typed cell, rich text ...).  -> True when the element was found"""
    import os
    import shutil
    import tempfile
    import zipfile
    name = f'xl/worksheets/sheet{sheet_no}.xml'
    tmp = tempfile.mktemp(suffix='.xlsx', dir=os.path.dirname(path))
    found = False
    with zipfile.ZipFile(path) as zin, zipfile.ZipFile(tmp, 'w', zipfile.ZIP_DEFLATED) as zout:
        for item in zin.infolist():
            data = zin.read(item.filename)
            if item.filename == name:
                text = data.decode('utf-8')
                pat = re.compile(r'<c r="%s"(?: [^>]*)?(?:/>|>.*?</c>)' % re.escape(addr), re.S)
                text, n = pat.subn(lambda m: raw, text, count=1)
                found = n == 1
                data = text.encode('utf-8')
            zout.writestr(item, data)
    shutil.move(tmp, path)
    return found


SAFE_NUMBER_FORMATS = ['@', '0%', '0.00', '#,##0.00', '0.00E+00', '00000', '# ?/?', '0.0_);(0.0)', '@', '@']


def decorate(wb, seed, path=''):
    """what a real workbook carries BESIDES the values of its cells: number formats (Text, percent, fixed, scientific - none that makes a
    number a date), hidden rows and columns, comments, hyperlinks, column widths, frozen panes, an auto filter, a data validation and a
    conditional format.  Only cells that hold something are touched (nothing here adds a cell record), and none of it changes what a
    cell holds or what a formula computes - so every expectation of every workload stays what it was."""
    import random
    from openpyxl.comments import Comment
    from openpyxl.formatting.rule import CellIsRule
    from openpyxl.styles import PatternFill
    from openpyxl.worksheet.datavalidation import DataValidation
    rng = random.Random(f'{seed}|{os_basename(path)}')
    for ws in wb.worksheets:
        cells = [c for _k, c in sorted(getattr(ws, '_cells', {}).items()) if c.value is not None]
        if not cells:
            continue
        for c in cells:
            v = c.value
            plain_number = isinstance(v, (int, float)) and not isinstance(v, bool)
            formula = isinstance(v, str) and v.startswith('=') and c.data_type == 'f'
            k = rng.random()
            if (plain_number or formula) and k < 0.45:
                c.number_format = rng.choice(SAFE_NUMBER_FORMATS)
            elif isinstance(v, str) and c.data_type == 's' and k < 0.2:
                c.number_format = '@'
            if k > 0.93:
                c.comment = Comment('a note for the reader: eval(1) is not here', 'someone')
            if isinstance(v, str) and c.data_type == 's' and not v.startswith('=') and 0.5 < k < 0.56:
                c.hyperlink = 'https://example.invalid/' + str(rng.randrange(99))
        rows = sorted({c.row for c in cells})
        cols = sorted({c.column_letter for c in cells})
        for r_ in rng.sample(rows, min(len(rows), 1 + len(rows) // 5)):
            ws.row_dimensions[r_].hidden = rng.random() < 0.6
            ws.row_dimensions[r_].height = rng.choice([8, 15, 40])
        for c_ in rng.sample(cols, min(len(cols), 1 + len(cols) // 4)):
            ws.column_dimensions[c_].hidden = rng.random() < 0.5
            ws.column_dimensions[c_].width = rng.choice([2, 9, 30])
        ws.freeze_panes = rng.choice(['A2', 'B2', 'C1'])
        first, last = cells[0].coordinate, cells[-1].coordinate
        try:
            ws.auto_filter.ref = f'{first}:{last}' if cells[0].row <= cells[-1].row and cells[0].column <= cells[-1].column else None
            dv = DataValidation(type='whole', operator='greaterThan', formula1='-100000')
            dv.add(cells[0].coordinate)
            ws.add_data_validation(dv)
            ws.conditional_formatting.add(f'{first}:{first}', CellIsRule(operator='lessThan', formula=['0'], fill=PatternFill(start_color='FFC7CE', end_color='FFC7CE', fill_type='solid')))
        except (ValueError, TypeError):
            pass


def os_basename(path):
    import os
    return os.path.basename(path or '')
