"""./check <ID> [--tier quick|thorough] [--replay path]

exit 0  held on everything explored (KNOWN-FINDING lines allowed)
exit 1  + "VIOLATION property=<id> replay=<path>"
exit 2  + "INCONCLUSIVE property=<id> reason=..."  (deciding monitor blinded / floor not reached / worker died)
"""
import argparse
import importlib
import json
import os
import shutil
import sys
import time

from . import env, evidence, findings, parallel
from .result import Result, khash

TIMEOUT = {'quick': 900, 'thorough': 5400}


def _print_known(prop, r):
    known = findings.known_ids(prop)
    for fid, n in sorted(r.known.items()):
        print(f'KNOWN-FINDING: property={prop} {fid} {known.get(fid, "")} [{n} cases this run]')


def main(argv=None):
    ap = argparse.ArgumentParser()
    ap.add_argument('check')
    ap.add_argument('--tier', default='quick', choices=['quick', 'thorough'])
    ap.add_argument('--replay')
    ap.add_argument('--selfcheck', action='store_true')
    a = ap.parse_args(argv)
    prop = a.check.upper()
    tier = os.environ.get('VERIF_TIER') or a.tier
    if tier not in ('quick', 'thorough'):
        tier = a.tier
    seed = env.seed()
    t0 = time.time()

    reason = env.check_repo_import()
    if prop == 'SELF':
        import icontract, jsonschema  # noqa: F401,E401
        print('selfcheck: repo import', 'FAILED: ' + reason if reason else 'ok', '- icontract', icontract.__version__)
        return 2 if reason else 0
    if reason:
        print(f'INCONCLUSIVE property={prop} reason={reason}')
        return 2
    mod = importlib.import_module(f'vf.checks.{prop.lower()}')

    # one scratch directory per invocation: two runs of the same check (a sweep and a self-test) must not share it
    workroot = os.path.join(env.WORK, f"{prop}{'_replay' if a.replay else ''}_{os.getpid()}")
    shutil.rmtree(workroot, ignore_errors=True)
    os.makedirs(workroot, exist_ok=True)

    if not a.replay:
        shutil.rmtree(os.path.join(env.VERIF, 'replays', prop), ignore_errors=True)
    if a.replay:
        with open(a.replay) as f:
            rep = json.load(f)
        shards = [{'replay': rep['violation']['case'], '_env': rep.get('env') or {}}]
    else:
        shards = mod.plan(tier, seed)
        # HOST_SETTINGS = {'shards': [indices], 'env': {...}}: the named shards run a second time in a process where the host program's
        # own settings differ (decimal context of the calling thread, see pipeline.guarded); same oracle, same expectations
        hs = getattr(mod, 'HOST_SETTINGS', None)
        if hs:
            extra = []
            for i in hs['shards'](shards) if callable(hs['shards']) else hs['shards']:
                sh = dict(shards[i])
                sh['_env'] = dict(sh.get('_env') or {}, **hs['env'])
                sh['_env'].setdefault('VERIF_HOST_CALENDAR', '6')
                sh['host_settings'] = True
                extra.append(sh)
            shards = shards + extra
        # ... and in an interpreter started with PYTHONOPTIMIZE=1 (python -O): assert statements are stripped from the library AND from the
        # generated class when it is compiled, __debug__ is False. Code that does part of its work inside an assert (a check, a
        # side effect, a conversion) behaves differently there; properties do not quantify over the interpreter's optimisation level.
        # OPTIMISED_SHARDS (indices or a function of the plan) names the shards; default: the first, a middle and the last planned one.
        base_n = len(mod.plan(tier, seed))
        osh = getattr(mod, 'OPTIMISED_SHARDS', None)
        idx = osh(shards[:base_n]) if callable(osh) else (osh if osh is not None else sorted({0, base_n // 2, base_n - 1}))
        if os.environ.get('VERIF_NO_OPTIMISED_SHARDS'):
            idx = []          # self-test switch: what the harness saw before these shards existed (DESIGN section 7, round 10)
        extra = []
        for i in idx:
            sh = dict(shards[i])
            sh['_env'] = dict(sh.get('_env') or {}, PYTHONOPTIMIZE='1')
            sh['optimised_interpreter'] = True
            extra.append(sh)
        shards = shards + extra
        # ... and over workbooks that carry what real workbooks carry besides values (wbspec.decorate: number formats, hidden rows and
        # columns, comments, hyperlinks, widths, frozen panes, a filter, a validation, a conditional format) - same expectations
        dsh = getattr(mod, 'DECORATED_SHARDS', None)
        idx = dsh(shards[:base_n]) if callable(dsh) else (dsh if dsh is not None else sorted({1 % base_n, (2 * base_n) // 3}))
        if os.environ.get('VERIF_NO_DECORATED_SHARDS'):
            idx = []
        extra = []
        for i in idx:
            sh = dict(shards[i])
            sh['_env'] = dict(sh.get('_env') or {}, VERIF_DECORATE='7')
            sh['decorated_workbooks'] = True
            extra.append(sh)
        shards = shards + extra

    outs = parallel.run_all(prop, shards, tier, seed, workroot, TIMEOUT[tier])
    r = Result()
    shard_walls = []
    variants = {}
    for o, sh in zip(outs, shards):
        kind = next((k for k in ('optimised_interpreter', 'decorated_workbooks', 'host_settings') if isinstance(sh, dict) and sh.get(k)), 'plain')
        v_ = variants.setdefault(kind, {'shards': 0, 'evaluations': 0, 'finished': 0})
        v_['shards'] += 1
        if o['status'] == 'ok':
            v_['finished'] += 1
            v_['evaluations'] += o['result'].get('evaluations', 0)
            r.merge_json(o['result'])
            # remember per-shard environment for replays
            for v in o['result']['violations']:
                v.setdefault('_env', sh.get('_env') if isinstance(sh, dict) else None)
            shard_walls.append(round(o['wall'], 1))
        elif o['status'] == 'timeout':
            r.inconcl(f'shard {o["shard_index"]} timed out after {TIMEOUT[tier]}s (watchdog; not a verdict)')
        else:
            r.inconcl(f'shard {o["shard_index"]} crashed rc={o.get("rc")}: {o.get("stderr", "")[-300:]!r}')

    extra = {}
    if not a.replay and hasattr(mod, 'finish'):
        extra = mod.finish(r, tier, seed) or {}
    if not a.replay:
        floors = getattr(mod, 'FLOORS', {}).get(tier, {})
        if r.evaluations < floors.get('evaluations', 1):
            r.inconcl(f'only {r.evaluations} evaluations (floor {floors.get("evaluations", 1)})')
        if r.distinct_nontrivial < floors.get('nontrivial', 2):
            r.inconcl(f'only {r.distinct_nontrivial} distinct non-trivial cases (floor {floors.get("nontrivial", 2)})')
        for name, n in floors.get('counters', {}).items():
            if r.counters.get(name, 0) < n:
                r.inconcl(f'monitor/counter {name} saw {r.counters.get(name, 0)} events (floor {n})')
    extra['shards'] = len(shards)
    # what was observed in which kind of process (section 3.3a): a variant that was planned and observed nothing is no observation
    extra['process_variants'] = variants
    if not a.replay:
        for kind, v_ in variants.items():
            if kind != 'plain' and v_['finished'] and not v_['evaluations']:
                r.inconcl(f'the {kind} shards finished without a single evaluation')
    extra['shard_wall_s'] = shard_walls[:64]

    wall = time.time() - t0
    if not a.replay:
        ev = evidence.build(prop, tier, seed, getattr(mod, 'LEVEL', 'exploration'), r, mod.RULE, wall,
                            mod.ASSUMPTIONS, extra=extra, exhaustive=bool(extra.pop('exhaustive', False)),
                            exhaustive_subspaces=extra.pop('exhaustive_subspaces', None))
        path, problems = evidence.write(ev)
        if problems:
            r.inconcl('evidence does not validate: ' + problems)

    shutil.rmtree(workroot, ignore_errors=True)

    _print_known(prop, r)
    print(f'# {prop} tier={tier} seed={seed} evaluations={r.evaluations} distinct_nontrivial={r.distinct_nontrivial} '
          f'violations={r.n_violations} known={sum(r.known.values())} wall={wall:.1f}s')
    if r.n_violations:
        rdir = os.path.join(env.VERIF, 'replays', prop)
        os.makedirs(rdir, exist_ok=True)
        seen = set()
        for v in r.violations[:8]:
            h = khash(v['case'])
            if h in seen:
                continue
            seen.add(h)
            p = os.path.join(rdir, h + '.json')
            with open(p, 'w') as f:
                json.dump({'property': prop, 'tier': tier, 'seed': seed, 'violation': v, 'env': v.get('_env')}, f,
                          indent=1, default=str)
            print(f'VIOLATION property={prop} replay={os.path.relpath(p, env.VERIF)}')
            print(f'#   monitor={v["monitor"]} case={json.dumps(v["case"], default=str)[:160]} '
                  f'observed={json.dumps(v["observed"], default=str)[:140]} expected={json.dumps(v["expected"], default=str)[:140]}')
        return 1
    if r.inconclusive:
        for reason in r.inconclusive[:5]:
            print(f'INCONCLUSIVE property={prop} reason={reason}')
        return 2
    return 0


if __name__ == '__main__':
    sys.exit(main())
