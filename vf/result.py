"""Per-shard accumulator of what the monitors observed; JSON round trip; merge."""
import hashlib
import json
from collections import Counter

from .wbspec import enc

MAX_VIOL = 40
MAX_SAMPLES = 6


def khash(obj):
    return hashlib.sha1(json.dumps(obj, sort_keys=True, default=str).encode()).hexdigest()[:14]


class Result:
    def __init__(self):
        self.evaluations = 0
        self.nontrivial = set()        # hashed distinct non-trivial case keys
        self.nontrivial_disjoint = 0   # count of cases distinct by construction (shards partition the space)
        self.counters = Counter()      # events per hook / outcome classes / reach
        self.sets = {}                 # name -> set of small strings (distinct things seen)
        self.samples = []
        self.violations = []
        self.n_violations = 0
        self.known = Counter()         # finding id -> cases absorbed
        self.known_examples = {}
        self.inconclusive = []

    # -- recording -------------------------------------------------------------------------------
    def ev(self, n=1):
        self.evaluations += n

    def nt(self, key):
        self.nontrivial.add(key if isinstance(key, str) and len(key) <= 14 else khash(key))

    def count(self, name, n=1):
        self.counters[name] += n

    def seen(self, name, item):
        self.sets.setdefault(name, set()).add(str(item))

    def sample(self, case):
        if len(self.samples) < MAX_SAMPLES:
            self.samples.append(enc(case))

    def violation(self, monitor, case, observed=None, expected=None, detail=None):
        self.n_violations += 1
        self.counters['violation:' + monitor] += 1
        if len(self.violations) < MAX_VIOL:
            self.violations.append({'monitor': monitor, 'case': enc(case), 'observed': enc(observed),
                                    'expected': enc(expected), 'detail': enc(detail)})

    def known_finding(self, fid, case, observed=None, expected=None):
        self.known[fid] += 1
        if fid not in self.known_examples:
            self.known_examples[fid] = {'case': enc(case), 'observed': enc(observed), 'expected': enc(expected)}

    def inconcl(self, reason):
        if reason not in self.inconclusive:
            self.inconclusive.append(reason)

    # -- transport --------------------------------------------------------------------------------
    def to_json(self):
        return {'evaluations': self.evaluations, 'nontrivial': sorted(self.nontrivial),
                'nontrivial_disjoint': self.nontrivial_disjoint, 'counters': dict(self.counters),
                'sets': {k: sorted(v) for k, v in self.sets.items()}, 'samples': self.samples,
                'violations': self.violations, 'n_violations': self.n_violations, 'known': dict(self.known),
                'known_examples': self.known_examples, 'inconclusive': self.inconclusive}

    def merge_json(self, d):
        self.evaluations += d['evaluations']
        self.nontrivial.update(d['nontrivial'])
        self.nontrivial_disjoint += d.get('nontrivial_disjoint', 0)
        self.counters.update(d['counters'])
        for k, v in d['sets'].items():
            self.sets.setdefault(k, set()).update(v)
        for s in d['samples']:
            if len(self.samples) < MAX_SAMPLES:
                self.samples.append(s)
        for v in d['violations']:
            if len(self.violations) < MAX_VIOL:
                self.violations.append(v)
        self.n_violations += d['n_violations']
        self.known.update(d['known'])
        for k, v in d['known_examples'].items():
            self.known_examples.setdefault(k, v)
        for r in d['inconclusive']:
            self.inconcl(r)

    @property
    def distinct_nontrivial(self):
        return len(self.nontrivial) + self.nontrivial_disjoint
