"""Locate the repository under monitoring and make sure *its working tree* is what gets imported."""
import os
import sys

VERIF = os.path.dirname(os.path.dirname(os.path.abspath(__file__)))
REPO = os.path.abspath(os.environ.get('VERIF_REPO_ROOT', '/repo'))
DEPS = os.path.join(VERIF, '.deps')
WORK = os.path.join(VERIF, '.work')
PY = '/venv/bin/python'
GUARD = 'EXCEL2PYCL_VERIF'


def setup():
    """Put the repo first on sys.path (a scratch copy can be targeted with VERIF_REPO_ROOT)."""
    for p in (DEPS, VERIF, REPO):
        if p in sys.path:
            sys.path.remove(p)
        sys.path.insert(0, p)
    os.environ[GUARD] = '1'


def check_repo_import():
    """Return None if excel2pycl resolves to REPO, else a reason string (=> inconclusive)."""
    setup()
    try:
        import excel2pycl
    except Exception as e:  # the tree does not even import: nothing can be observed
        return f'import-failed:{type(e).__name__}:{e}'
    f = os.path.abspath(excel2pycl.__file__)
    if not f.startswith(REPO + os.sep):
        return f'excel2pycl imported from {f}, not from {REPO}'
    return None


def seed():
    try:
        return int(os.environ.get('VERIF_SEED', '0'))
    except ValueError:
        return 0


def jobs():
    try:
        return max(1, int(os.environ.get('VERIF_JOBS', '16')))
    except ValueError:
        return 16
