"""Regenerate MANIFEST.json from the table below:  /venv/bin/python -m vf.mkmanifest"""
import json
import os
import subprocess

HERE = os.path.dirname(os.path.dirname(os.path.abspath(__file__)))

BASELINE_OFF = ('cd /repo && env -u EXCEL2PYCL_VERIF /venv/bin/python -m pytest -ra -q -p no:cacheprovider '
                '--timeout=900 --continue-on-collection-errors')

# sentences appended to the level texts (monitors added in later rounds)
MIXED = (' A further set of shards judges typed random nests over the whole function set that use at least one function of this '
         'property (one function\'s result flowing into another: vf/gen/exprs.py) against the same reference.'
         ' Every workbook judged against the reference also carries a last worksheet of pair sums (=a+b of two judged cells: one evaluation must give the sum of the two values from evaluations of their own), and every second shared-Executor valuation starts with a list query that fails half way.')
HOST = (' Some shards are repeated in a process where every library call runs under a host decimal context of 2-4 digits '
        '(pipeline.guarded, VERIF_HOST_DECIMAL) - same expectations.')
EXTRA = {
    'C01': HOST + ' Operands on other worksheets (titles that are numbers below the sheet count, quoted, address-shaped) supplied by the workbook and by overrides addressed by title or index; mixed-case texts under the six comparisons. Whole-number literals beyond 2^53 (written out and with exponents) and arithmetic on them.',
    'C03': ' Ring edges of cyclic workbooks are arithmetic steps, bare references in five spellings or a mix; mirror cells close cycles through qualified and absolute references. Areas written with their corners in any order; graphs whose precedents are shared (a cell used twice by its successor, two-term recurrences, lattices) under a persistent step budget; running totals of 40-250 rows, slice against whole file (known finding: refusal of the long ones). Slices reached through areas of a thousand cells and more.',
    'C04': ' The workbook also holds link cells (a formula that is one reference), chains of them and random formulas over them, all of them override targets. Overrides by date-only values and by the blank object of another generated class; batches handed over as tuple, iterator, generator, map, dict view; the caller\'s Cell objects changed after the call; batches refused at their last cell (size grew iff the cell was written); hot cells alternate between ==-equal constants (1, TRUE, 1.0). The class set again after a query (overrides stay in force).',
    'C05': ' Argument lists of 60-254 arguments and their mutants. The arity table follows the grammar (IFS in pairs, ADDRESS with two to five arguments). Whitespace after the last token.',
    'C06': ' Every argument position of every function takes an argument of 44 kinds in turn (areas spelled right to left, whole columns, other sheets, calls, error literals); part of the whole-workbook workload runs in an interpreter whose locale encoding is ASCII. Class files under names without a .py suffix and with non-ASCII letters; literals of thousands of digits; a scaling shard that times texts of n and 2n characters in a process of its own and judges the growth (unclosed wildcard texts).',
    'C07': ' Criteria assembled as "text"&expression, literals joined directly by &, payloads that close either quote style and comment out the rest of the line. Literals holding the vocabulary of the file format and of the generated class (_xlfn., self., return, R1C1, &amp;).',
    'C08': ' The second executor receives its overrides as ONE list that names coordinates repeatedly (other values, other spellings) and must behave like its last-wins normal form. Addresses that name no cell (row texts, column letters, titles, sheet numbers) through get_cell, get_cells, set_cells and get_sheet; the last row of 200- and 560-row chains through the three calls and from deeper callers (known finding: RecursionError for the long one).',
    'C09': ' The sha matrix also spans processes with an ASCII locale encoding, other time zones and UTF-8 mode, over workbooks with non-ASCII titles and texts; the bytes written by write_translation are compared with the returned text. A fresh interpreter that shows / raises compile-time warnings imports the library (no warning out of its own source files). One Parser used by two threads (second request, or a setter, while a translation is running; the trials that really overlapped are counted).',
    'C10': ' The same cell on both sides of every operator in four spellings (reflexivity). Differences of date-times with sub-second parts compared with numbers; texts only Python reads as numbers (1_0, digits of other scripts) with the law that a text which is no number equals only itself.',
    'C11': MIXED + HOST + ' Data areas also hold formula cells of every result kind (ROUND of a blank / logical cell, logical and text results). Areas of 60 000 and 120 000 rows handed to the generated class\'s fold helpers (value, and growth of the time between the two sizes).',
    'C12': MIXED + HOST + ' Date-time cells against date criteria, whole-column sum ranges, tilde runs before wildcards. Remarks (texts) in the sum range; month-and-year criteria under virtual clocks of one year (the value must not depend on the day it is asked); texts with long digit runs. Ranges lying in a row with several aggregates per formula; wildcards running over line breaks.',
    'C13': MIXED + ' Conditions are also expressions over the condition cell (starting with a literal, comparing the cell with itself); IFERROR around whole areas and INDEX rows inside aggregates. Conditions built by AND / OR over partly filled areas, products that overflow inside IFERROR, differences of dates; array-style conditions (a value, if any, is the element-wise one); IFERROR at the end of a 120-190 row chain asked with 0-930 extra caller frames. Six threads querying one Executor, and an Executor each on one class, against the single-threaded values (overlapping query pairs counted).',
    'C14': MIXED + ' INDEX with constant positions over areas of this and another sheet; text keys looked up in another case. Key vectors lying in a row or consisting of one cell; tables with blank rows below the keys; computed and out-of-table column numbers; ADDRESS with three to five arguments given as literals, cells and conditionals. Key columns of 1001-2047 rows; logicals among the keys.',
    'C15': MIXED + HOST + ' Year, month and day arriving as whole floats; DATEDIF over date-times with a time of day. Two NETWORKDAYS intervals over one holiday range in one evaluation.',
    'C16': MIXED + HOST + ' Host shards also set decimal traps (DefaultContext and thread context); a negative amount rounded to nothing must not be -0.0. Four threads rounding through an Executor each on one class object; digit counts up to 100000.',
    'C17': MIXED + HOST + ' VALUE of percentages, year-month-day dates and times of day; blank cells as counts. Operands whose shortest Python spelling differs from the 15-digit text form (0.1+0.2, 1/3, 1e-5) and date-times with a time of day. VALUE of spellings only Python reads as numbers.',
    'C18': ' A third of the workbooks carry a forged size record per worksheet part (understated, boxed, overstated, dropped) or cells touched without a value. Exotic cell values (data-table objects, numbers read back as inf, times of day, durations): refused by the library or a class in which every ordinary cell still has its value. One Cell object moved from constant to constant by its integer coordinates.',
    'C19': ' Fragments surrounded by prose brackets (closing ones before the first opening one). Innocent texts with a number directly before a bracket. Notes of up to 32700 characters with the fragment behind round offsets; upper-case function names with digits; arguments with line breaks.',
    'C20': HOST + ' Generated holiday lists with repeated dates. Criterion patterns against texts with line breaks.',
    'C02': ' The same area read twice in one evaluation, once by a search from the end.',
}

# id -> (technique, level text, level note)
CHECKS = {
    'C16': ('runtime monitoring: boundary oracle (decimal quantize) over an override sweep + helper postconditions',
            'Every point of a decimal grid (sign x integer part x 4 fractional digits x digits -3..6 x 3 functions; '
            'thorough: the full grid, 4.2M executions) is executed through the real Parser/Executor and compared '
            'exactly with decimal.Decimal quantize (the three modes of one amount on one Executor instance; mantissas at every decimal scale '
            '10^-15..10^11, whole numbers as ints with negative digit counts, percent at all scales); in-situ postconditions on _round/_roundup/_rounddown give reach '
            'and localisation. Held on the executions observed, exhaustive for the stated grid only.',
            'Trusted: CPython decimal/float, openpyxl as workbook writer. Values beyond 4 fractional digits / other '
            'integer parts are not explored.'),
    'C10': ('runtime monitoring: recorded grid of comparison results checked offline against exact rational '
            'comparison and the algebraic laws',
            'All ordered pairs of value grids (numbers incl. fractions, signs, 2^53 boundaries; texts incl. numeric-looking '
            'and nan/inf; dates and date-times) x 6 operators are executed through overrides, workbook cells and inline '
            'literals; numbers are compared with fractions.Fraction, every kind against trichotomy / negation / '
            'antisymmetry laws, blank clauses against an explicit table. Held on the executions observed.',
            'Trusted: fractions/datetime of CPython. Mixed-kind comparisons and an ordering of texts are not asserted '
            '(statement silent).'),
    'C01': ('runtime monitoring: boundary oracle = independent precedence-climbing evaluator on the same text; '
            'parser/lexer conservation monitors',
            'Every operator chain of length <=2 (thorough: <=3 sampled, plus random trees) with sign/percent/bracket '
            'decorations is translated by the real Parser and evaluated under several override valuations; the value is '
            'compared with vf/xlref (Excel precedence, left associativity, blank=0, literals = nearest double, exact for '
            'literal sweeps). Conservation monitors on Lexer.parse / EntryPointToken.get prove that the whole text '
            'was consumed whenever code was emitted. Held on the executions observed.',
            'Trusted: vf/xlref as the reading of the precedence table in the statement. Operand values are sampled '
            '(distinct primes, a negative, a decimal, a blank), not all doubles.'),
    'C15': ('runtime monitoring: boundary oracle = calendar closed forms over override sweeps; virtual clock shim and '
            'time-zone sub-processes for TODAY',
            'DATE over a box of (year, month -30..40, day -400..500) with YEAR/MONTH/DAY inversion, DATEDIF D/M/Y/YM over '
            'date pairs of a multi-year window, EDATE/EOMONTH offsets -60..60, NETWORKDAYS with holiday ranges (gaps, '
            'duplicates, weekend holidays, non-date cells) are executed through the real Executor and compared exactly with '
            'datetime/calendar closed forms that do not use dateutil; TODAY is observed under a virtual clock installed in '
            'the loaded module and under the real clock in three time zones. Held on the executions observed.',
            'Trusted: CPython datetime/calendar. A real midnight roll-over cannot be scheduled (virtual clock instead); '
            'years outside 1900..9999 not explored.'),
    'C14': ('runtime monitoring: boundary oracle = independent linear search / slicing (vf/xlref); exhaustive ADDRESS '
            'and INDEX sub-spaces',
            'Generated lookup tables x lookup values x VLOOKUP/MATCH/XMATCH modes x result columns, INDEX over every '
            '(r,c) around every shape <=4x4, ADDRESS for every column 1..16384, COLUMN over boundary/random columns and '
            'spellings are executed through the real Parser/Executor and compared exactly with the reference search; the '
            'error value is demanded exactly where the statement names it (#N/A, #REF!). Held on the executions observed.',
            'Trusted: vf/xlref lookup semantics, openpyxl get_column_letter. Blank keys vs lookup value 0: either reading '
            'accepted (statement silent).'),
    'C19': ('runtime monitoring: boundary observation of the raised exception vs the planted cells (oracle by construction)',
            'Generated workbooks with planted suspicious fragments (constants and formulas, 1-2 per cell) and innocent cells at '
            'random coordinates on 1-4 sheets (texts repeated in one row / column / across sheets, argument lists with nested brackets) are passed '
            'through the real Parser with the gate on and off, on fresh parsers and toggled on one parser; the exception class '
            'and its suspicious_cells mapping are compared with the planted addresses and fragments. Held on the executions observed.',
            'Trusted: openpyxl places cells where told. Cells mixing upper-case and lower-case calls are outside the precondition.'),
    'C20': ('runtime monitoring: differential execution of the two runtimes on recorded in-situ arguments and synthetic tuples',
            'Helper name sets and signatures of a generated class and of a trivial subclass of AbstractExcelInPython are compared; '
            'every common helper is called in both with identical arguments - those recorded by a wrapper while real translations '
            'are evaluated and synthetic hostile tuples per helper family, once on fresh instances and once as a history on one long-lived '
            'instance per runtime - and results/exception classes compared. '
            'Held on the calls observed.',
            'Trusted: nothing but CPython; both sides are the real code. Arguments are sampled.'),
    'C09': ('runtime monitoring: facade event log checked against a sequential model; sha256 across a process x hash-seed '
            'matrix; thread stress with sys.monitoring yield injection',
            'All facade histories up to length 3 (thorough 4) plus random longer ones are executed on the real Parser; every '
            'get/write is compared with what a fresh parser returns for the settings in force, written bytes with returned '
            'text (the target path being absent, holding an earlier translation, or longer foreign text). The same corpus is translated in fresh processes under several PYTHONHASHSEEDs, before and after other '
            'translations, and by 8 barrier-released threads on their first translation with yields injected inside the lazy '
            'token-table initialisation; one sha256 per workbook is demanded throughout. Evidence reports overlaps and '
            'distinct interleavings actually observed.',
            'Trusted: a fresh Parser as reference. Interleavings are sampled, not enumerated; a trial without observed overlap '
            'makes the run inconclusive.'),
    'C04': ('runtime monitoring: override histories on the real Executor vs a fresh translation of the edited workbook '
            '(metamorphic oracle), repeated under several hash seeds; icontract postconditions on set_cells',
            'Generated histories of set_cells batches (same cell rewritten, formula cells incl. a raising one, blanks, cells '
            'beyond the used range - also referenced by formulas -, two sheets, both addressing styles) are executed; after two batches out of three '
            '(the third is followed directly by the next set_cells call) all formula and touched '
            'cells are compared with the library\'s own fresh translation of the edited workbook. Each history runs in fresh '
            'processes under 3 (thorough 16) PYTHONHASHSEEDs. Held on the histories observed.',
            'Trusted: the library translating the edited workbook afresh as the meaning of "edit and recalculate". '
            'None / empty-text overrides not generated.'),
    'C05': ('runtime monitoring: conservation monitors on Lexer.parse / EntryPointToken.get / Context.set_cell + boundary '
            'outcome classes over mutated token streams',
            'Valid formulas are mutated at token level (append/insert/delete/duplicate/brackets/arguments/adjacent operands/'
            'quotes/exponent/percent), whitespace is inserted at every token boundary, separators are swapped and every '
            'supported function is called with 0..7 arguments; each text goes through the real entry-point translation while '
            'monitors check that code is only emitted for a completely consumed token stream, that lexer pieces add up to the '
            'text, that foreign exceptions never stand in for a rejection, that arities outside the grammar table are rejected, '
            'that whitespace/separator variants agree with their base, that every reference and literal token reaches the emitted code, that '
            'empty arguments are refused, that a refusal is repeated when the same Parser is asked again, and that accepted texts agree with the reference\'s parse '
            'of the complete text. Held on the texts observed.',
            'Trusted: arity table transcribed from the pinned grammar; vf/xlref for accepted texts only.'),
    'C07': ('runtime monitoring: sys.addaudithook + canary side effects while the generated module is loaded and evaluated; '
            'token monitor on the generated source; round-trip oracle',
            'Hostile strings (quotes, backslashes, newlines, braces, format fields, Python call syntax; a third carry payloads that '
            'would touch a canary file or set a builtin) with unique markers are planted in constant cells, formula literals, '
            'function arguments, criterion and wildcard-pattern positions, whole-formula payloads and sheet titles; the '
            'generated source is tokenized (markers only inside STRING tokens, module parses), loaded and evaluated under an '
            'armed audit hook (no exec/compile/import outside the allow-list, no process/file/socket events), canaries are '
            'checked, and constants / plain literals must evaluate to exactly the original text. Gate on and off. '
            'Held on the strings observed.',
            'Trusted: CPython audit events and tokenize. Each shard is a fresh process (audit hooks are permanent).'),
    'C03': ('runtime monitoring: differential observation slice vs whole-file translation on the independently computed '
            'precedent closure; cycle workloads with a translation-stack monitor',
            'Random layered dependency graphs using every reference kind are translated whole and, for EVERY formula cell, '
            'from that cell as entry point; each cell of the closure (computed by vf/xlref\'s reference analysis, SUMIF derived '
            'ranges included) is evaluated on both classes and compared. Cyclic workbooks (10 back-edge kinds x lengths 1-5 x '
            'entry inside/outside/whole file) must end in E2PyclParserException; one Parser kept across two different workbooks (entry set '
            'once, only the path changes) must produce the slice of the second workbook. Values are compared by kind (blank is not 0). '
            'Held on the graphs observed.',
            'Trusted: whole-file translation as the value reference; vf/xlref reference reader for the closure.'),
    'C02': ('runtime monitoring: boundary oracle by construction (unique value per coordinate) + L1 trace of the cells an '
            'evaluation touched + unknown-title workloads',
            'Workbooks whose every cell holds a number that encodes its (sheet, row, column) are generated; references are '
            'spelled from chosen coordinates ($ markers on each corner, bare/unquoted/quoted titles incl. Cyrillic, digits, '
            'blanks, braces, prefixes of each other; cell, vertical, horizontal, rectangle, A:A, A:C; far columns up to XFD '
            'and rows up to 99999 through entry-point slices) and observed as bare reference, SUM/COUNT/MAX/MIN/COUNTBLANK, '
            'INDEX(i,j), in 20 function/operator positions (vf/xlref-judged), under workbook values and overrides; the set of '
            'cell uids touched while evaluating SUM(area) must equal the area. References to non-existent titles must be '
            'rejected. Held on the references observed.',
            'Trusted: the generator\'s arithmetic on its own coordinates; vf/xlref for the function-position formulas. '
            'Reversed corners and titles containing quote/exclamation mark are not generated.'),
    'C06': ('runtime monitoring: per-phase outcome classification at the boundary (translate / compile+load / members / file vs '
            'class object), L1 dispatch trace, sys.monitoring step budget as bounded-progress monitor',
            'Adversarial formula texts (token soups over the library\'s own lexicon, splices and token mutants of valid formulas, a '
            'fixed list of ~150 degenerate texts, nesting probes of nine kinds up to depth 64, operator chains up to 400 operands) are '
            'each translated on their own under a budget of logical steps; whole workbooks with hostile constants of every type and '
            'unusual sheet titles are translated, loaded as class object and from the written file, every non-blank cell\'s member is '
            'called on both and compared, titles/sizes compared with the workbook. Any foreign exception, unloadable text, missing '
            'member, structural member failure, file/object difference, budget overrun or a refusal that is not repeated when the same '
            'Parser is asked again is a violation. Held on the workbooks observed.',
            'Trusted: CPython compile/exec, sys.monitoring. "Never hangs" is decided only as "within the step budget on every generated '
            'input"; member failures that depend on the data (Excel errors) are not judged here.'),
    'C08': ('runtime monitoring: query history on one long-lived Executor checked offline against fresh-executor reference '
            'observations; icontract state-preservation contracts on get_cell/get_cells/get_sheet',
            'Random schedules (60 / 200 calls) of get_cell in four addressing spellings, get_cells with repeats and the same Cell '
            'object twice, get_sheet by index and title are executed on one Executor under a fixed override set, interleaved '
            'with a second Executor on the same generated class under other overrides; every observation must equal what a '
            'fresh Executor reports for that coordinate, grids must have the shape (used range U overrides) in row-major order, '
            'and icontract snapshots around every query must find the override set and sizes unchanged. The same schedules run over the '
            'workbooks of the semantic checks (criteria, rounding, text forms, dates, all 40 functions). Held on the schedules observed.',
            'Trusted: a fresh Executor asked once as reference. Values compared by type and repr. TODAY excluded.'),
    'C11': ('runtime monitoring: boundary oracle = independent folds over the planted contents (vf/xlref, outcome sets) + '
            'split laws checked on the recorded results',
            'Two 8x5 content tables over every cell kind are folded by SUM/AVERAGE/MIN/MAX/COUNT with 1-4 arguments mixing areas '
            '(row, column, rectangle, whole column, other sheet, overlapping), single cells and numeric literals, by COUNTBLANK and '
            'by AND/OR over comparisons, cells and literals; values are compared with an independent fold, contents are re-drawn '
            'three times through overrides; every split of an area into two must satisfy SUM/COUNT/COUNTBLANK(X)=f(X1)+f(X2), '
            'f(X)=f(X1,X2), MIN/MAX(X)=MIN/MAX of the parts. Held on the executions observed.',
            'Trusted: vf/xlref folds. Dates inside areas and aggregates of no numbers accept either reading; text/blank '
            'arguments of AND/OR and non-numeric scalar arguments are not generated.'),
    'C12': ('runtime monitoring: boundary oracle = independent select-then-fold (vf/xlref criterion semantics with outcome sets) '
            'over generated columns and criteria, re-drawn through overrides',
            'Three criteria columns over numbers, zero, negatives, mixed-case texts, texts with wildcard and regex-special '
            'characters, numeric texts and blanks plus a numeric target column are filtered by SUMIF (with and without target, '
            'derived geometry), SUMIFS, COUNTIFS and AVERAGEIFS with 1-3 pairs; criteria are numbers, texts, "op number" for all six '
            'operators, "=text", "<>text", "op"&cell, cell references and wildcard patterns; 12% of the multi-range formulas are '
            'mis-sized and must end in an error. Values are compared with the reference select-then-fold. Held on the executions observed.',
            'Trusted: vf/xlref criterion semantics. Blank vs numeric criterion, numeric text vs number, boolean target cells: either '
            'reading. Booleans/dates in criteria ranges and text in the target range are not generated.'),
    'C13': ('runtime monitoring: boundary oracle = lazy reference evaluator over all truth assignments of the condition cells; '
            'L1 evaluation trace (canary cells of untaken IF branches)',
            'All 125 skeletons of IF/IFS/IFERROR nests of depth <=2 (plus IF-only depth 3; thorough: sampled depth 3) are placed '
            'in 11 contexts (bare, operands of + * & and of a comparison, arguments of SUM/ROUND/LEFT, condition of another IF) '
            'with leaves drawn from numbers, texts, canary formula cells, failing expressions, failing cells, error texts and a '
            'failing lookup; their conditions are cells swept over every truth assignment (0/1, FALSE/TRUE, other non-zero) '
            'through overrides; values are compared with vf/xlref\'s lazy evaluation (#N/A demanded exactly for IFS without a '
            'true condition), and the _cell_preprocessor trace must not contain canary cells of an untaken IF branch. '
            'Held on the executions observed.',
            'Trusted: vf/xlref lazy semantics. What an enclosing operator does with an error VALUE delivered by a nest is not '
            'judged (not claimed by the statement); text conditions not generated.'),
    'C17': ('runtime monitoring: boundary oracle = Python slicing / own wildcard search (vf/xlref) over override sweeps; rebuild law '
            'checked on the recorded results',
            'Texts over a mixed-case alphabet with wildcard and regex-special characters (all of length <=2/3, random up to 8) are '
            'sliced by LEFT/RIGHT/MID with every count and position in [-2..len+2] (raw and wrapped in "["&..&"]"), rebuilt by '
            'LEFT(t,n)&MID(t,n+1,len), searched with needles made of substrings, case variants, wildcard patterns, escaped '
            'wildcards, regex-special and absent texts at every start position (through cells and as literals), joined by & and '
            'CONCATENATE with integer, boolean, blank, integral-float and decimal operands, and converted back by VALUE; every '
            'result is compared exactly with the reference, #VALUE! demanded exactly for SEARCH misses. Held on the executions observed.',
            'Trusted: vf/xlref text semantics. An empty-text result delivered as the blank object is accepted raw (it must still join as ""); '
            'SEARCH with a start position below 1: either reading. Non-text first arguments not generated.'),
    'C18': ('runtime monitoring: hooked state assertion on Excel.parse (grid, titles, sizes) + boundary observation of every '
            'planted constant vs the generator\'s cell map cross-read by openpyxl\'s regular loader',
            'Generated sparse workbooks (1-12 worksheets in random order, chart sheets between them, empty sheets, blocks away '
            'from A1, scatter, ragged rows, gaps, single far cells up to row 1200 / column AAA) holding unique constants of every '
            'stored type are translated; a hook on Excel.parse compares the grid, title map and sizes the translator receives '
            'with the stored cells, and every planted constant (value and type), sampled blanks, get_titles / get_sheets_size / '
            'get_sheet shape and probe formulas reading constants on other sheets are compared through the Executor. '
            'Held on the workbooks observed.',
            'Trusted: openpyxl as writer and (regular loader) as independent reader. time/timedelta cells recorded, not judged. '
            'Workbooks written by other producers (missing r attributes, inline strings) are not generated.'),
}

# round 10: inputs of the PROCESS (same expectations as the plain run)
PROCESS = (' Three planned shards run a second time in an interpreter started with PYTHONOPTIMIZE=1 (assert statements stripped from the library and the generated class), '
           'two over workbooks that carry number formats (Text, percent, fixed, scientific) on numbers and formulas, hidden rows and columns, comments, hyperlinks, widths, '
           'frozen panes, a filter, a validation and a conditional format, and the host-settings shards also under calendar.setfirstweekday(SUNDAY) - all with the expectations of the plain run.')
R12 = {
    'C02': ' Unknown-title probes also use titles that earlier workbooks of the same process had.',
    'C04': ' Half of the last batches are written through one Cell object that the caller moves and fills before each of several set_cells calls.',
    'C12': ' Text cells ending in a line break; criteria ranges with as many cells in another shape (a row, a 4x2 block) must be refused.',
    'C15': ' Months and days that carry DATE beyond 9999-12-31 give #NUM!.',
    'C16': ' Amounts below 0.1 at digit counts 10-25 and 299-301.',
    'C17': ' SEARCH and criteria functions over the identical text in one class, asked in both orders on two class objects loaded from one translation (law).',
    'C18': ' After another Executor on the same class object was given cells beyond the stored range, a new instance and a new Executor report the workbook sizes.',
    'C20': ' ADDRESS at the last row and column of a sheet and their neighbours.',
}
R11 = {
    'C03': ' The same formula text without sheet prefixes on two worksheets, and a cell reading both copies.',
    'C05': ' Every function at 1-6 arguments with an EMPTY last argument in four spellings (1920 texts): refused, or the value of the call that writes 0 there.',
    'C08': ' Schedules end with: grid of sheet X, an override on a cell of another sheet that X reads, grid of X again.',
    'C10': ' Texts spelling whole numbers of twenty digits compare as those numbers.',
    'C11': ' A fold next to SUMIFS / AVERAGEIFS / SUMIF / COUNTIFS / MATCH / INDEX over the very same area in one formula, against its two parts evaluated on their own.',
    'C12': ' Criteria of equal value and different kind (TRUE / 1 / "1", FALSE / 0) over ranges holding all these kinds, asked of one Executor in random orders against a fresh Executor each (law, no reference). Timestamp texts with UTC offsets in criteria ranges.',
    'C17': ' A blank cell as the text to find or to search in.',
    'C18': ' A fifth of all cells repeats a few small values that are equal across kinds (0, 1, TRUE, FALSE, "1", 1.5).',
}
R10 = {
    'C02': ' A data-only sheet whose last rows hold only zeros and blanks, read through bare references, COUNT, MIN, COUNTBLANK, INDEX, areas and whole columns.',
    'C03': ' Under a raised recursion limit (30000, 512 MB thread stack): rings of 257-400 cells and rings behind chains of 245-300 cells are refused in four modes, an acyclic chain of 600 cells gives its closed-form value through the whole file and two slices.',
    'C06': ' Worksheet titles that read like source-encoding declarations (coding=...) in 40 % of the hostile whole-workbook cases.',
    'C08': ' One class file under a real path, a symbolic link, a hard link, a relative and a dotted spelling: three versions written through one name, loaded through all, same values, the names still what they were. Positions without a row (the whole-column form) through get_cell, get_cells and set_cells.',
    'C09': ' Histories of relative path spellings, changes of the working directory, entry cells and requests over four directories holding a same-named workbook (one through a symbolic link); oracle: a fresh parser given the same spelling in the working directory of the request.',
    'C14': ' COLUMN of the formula\'s own cell and of cells that depend on the formula.',
    'C16': ' Twelve nests of a rounding function directly inside a rounding function with literal digit counts over the whole grid (innermost first); amounts of up to 1e307 at 0-331 decimal positions.',
    'C20': ' _iferror guarding 23 raisers (every built-in exception family, decimal\'s, a plain Exception, a host subclass, the class\'s own exception) and IFERROR around criteria functions with mis-sized ranges.',
}

LEVELS = {}
PENDING_REASON = 'not claimed'


def main():
    props = [json.loads(l)['id'] for l in open(os.path.join(HERE, 'properties.jsonl'))]
    checks = []
    for pid in props:
        if pid not in CHECKS:
            continue
        tech, text, note = CHECKS[pid]
        text = text + EXTRA.get(pid, '') + R10.get(pid, '') + R11.get(pid, '') + R12.get(pid, '') + PROCESS
        checks.append({
            'property_id': pid,
            'quick_cmd': f'./check {pid} --tier quick',
            'thorough_cmd': f'./check {pid} --tier thorough',
            'evidence_file': f'evidence/{pid}.json',
            'replay_cmd_template': f'./check {pid} --replay {{path}}',
            'engine': 'vf',
            'level_claimed': {'category': LEVELS.get(pid, 'exploration'), 'text': text, 'design_ref': f'DESIGN.md section 4 {pid}'},
            'level_note': note,
            'technique': tech,
        })
    try:
        hooks = subprocess.run(['git', '-C', '/repo', 'log', '--format=%H %s'], capture_output=True, text=True).stdout
        hook_commits = [l.split()[0] for l in hooks.splitlines() if l.split(' ', 1)[1].startswith('verif-hook:')]
    except Exception:
        hook_commits = []
    m = {
        'version': 1,
        'setup_cmd': ('/venv/bin/pip install -q --no-index --find-links /opt/veriftools/wheels --target /verif/.deps '
                      'icontract deal jsonschema && ./check SELF --tier quick'),
        'hooks': {
            'guard': 'EXCEL2PYCL_VERIF',
            'enable': 'no source hooks are needed: all instrumentation is applied from /verif by wrapping attributes '
                      'at import/load time (the checks export EXCEL2PYCL_VERIF=1 for completeness)',
            'baseline_off_cmd': BASELINE_OFF,
            'source_commits': hook_commits,
            'add_only': True,
        },
        'engines': [{'name': 'vf', 'path': 'vf/', 'serves_properties': [c['property_id'] for c in checks],
                     'kind_free_text': 'runtime monitoring harness: real Parser/Executor driven by generated workloads in '
                                       'fresh worker processes; boundary recorders, icontract contracts, wrappers on the '
                                       'exec-ed generated class, lexer/parser conservation monitors, audit hook, '
                                       'sys.monitoring step budget / yield injection; independent reference model vf/xlref'}],
        'checks': checks,
        'notes': 'Every check: exit 0 held / exit 1 + VIOLATION line / exit 2 + INCONCLUSIVE line (monitor blinded). '
                 'Known findings: known-findings.txt. Seeds: VERIF_SEED.',
        'not_applicable': [{'property_id': p, 'reason': PENDING_REASON} for p in props if p not in CHECKS],
    }
    with open(os.path.join(HERE, 'MANIFEST.json'), 'w') as f:
        json.dump(m, f, indent=1)
    try:
        import jsonschema
        jsonschema.validate(m, json.load(open(os.path.join(HERE, 'vf', 'MANIFEST.schema.json'))))
        print('MANIFEST.json valid;', len(checks), 'checks claimed')
    except ImportError:
        print('MANIFEST.json written (jsonschema not importable here)')


if __name__ == '__main__':
    main()
