"""evidence/<id>.json writer; validated against EVIDENCE.schema.json before writing."""
import json
import os

from . import env

_SCHEMA_PATHS = ['/root/.vp/EVIDENCE.schema.json', os.path.join(env.VERIF, 'vf', 'EVIDENCE.schema.json')]


def _schema():
    for p in _SCHEMA_PATHS:
        if os.path.exists(p):
            with open(p) as f:
                return json.load(f)
    return None


def build(prop, tier, seed, level, r, rule, wall, assumptions, extra=None, exhaustive=False,
          exhaustive_subspaces=None):
    cov = {
        'evaluations': int(r.evaluations),
        'distinct_nontrivial': int(r.distinct_nontrivial),
        'rule': rule,
        'samples': r.samples[:6] or ['(no case was executed)'],
        'exhaustive': bool(exhaustive),
        'events_per_monitor': {k: v for k, v in sorted(r.counters.items())},
        'distinct_seen': {k: (sorted(v)[:60] if len(v) <= 60 else {'count': len(v), 'first': sorted(v)[:25]})
                          for k, v in sorted(r.sets.items())},
        'known_finding_hits': dict(r.known),
        'inconclusive_reasons': r.inconclusive,
    }
    if exhaustive_subspaces:
        cov['exhaustive_subspaces'] = exhaustive_subspaces
    if extra:
        cov.update(extra)
    return {'property_id': prop, 'tier': tier, 'seed': int(seed), 'level': level, 'coverage': cov,
            'assumptions': assumptions, 'wall_s': round(float(wall), 2), 'violations': int(r.n_violations)}


def write(ev):
    path = os.path.join(env.VERIF, 'evidence', ev['property_id'] + '.json')
    os.makedirs(os.path.dirname(path), exist_ok=True)
    sch = _schema()
    problems = None
    if sch is not None:
        try:
            import jsonschema
            jsonschema.validate(ev, sch)
        except ImportError:
            problems = None
        except Exception as e:  # invalid: still write (a reader sees why), but tell the caller
            problems = str(e)[:400]
    with open(path, 'w') as f:
        json.dump(ev, f, indent=1, sort_keys=True, default=str)
    return path, problems
